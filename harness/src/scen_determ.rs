//! Scenario `determcc` (C20 "consults no clock and no entropy other than the instants and seeds it is given"):
//! the congestion controllers are part of the protocol state machine, but most of what they compute never
//! reaches the wire trace compared by `determ` (quinn paces from the window and the RTT; BBR's gain-cycle phase
//! only shows in `ControllerMetrics::pacing_rate`).  This scenario runs one long bulk transfer per controller
//! (BBR twice as often: it is the one with internal randomness), long enough for BBR to leave start-up and go
//! through many probe-bandwidth gain cycles, records `Connection::congestion_state().metrics()` and
//! `stats().path.cwnd` of both peers at every simulator step, and compares the whole series between a reference
//! run, an identical replay and a replay with the time base shifted by 1000 s.  Same seeds, same inputs, same
//! instants (up to the constant shift) => the series must be identical.
use std::sync::Arc;
use std::time::Duration;

use quinn_proto::{congestion, Dir, TransportConfig, VarInt};

use crate::scenarios::Outcome;
use crate::sim::*;
use crate::workload::*;
use crate::Rng;

pub const DETERMCC_RULE: &str = "one execution = one bulk transfer (client to server, 1.5..4 MB, plus a smaller reverse stream) with the same congestion controller on both peers (BBR for 2 of 4 seeds, Cubic, NewReno), latency 5..40 ms, light loss (0..1%), for half of the seeds Connection::path_changed on the client mid-transfer (a fresh controller is built), run three times in one process: reference, identical replay, time base shifted by 1000 s; at every simulator step the controller-visible state of both peers (ControllerMetrics congestion_window / ssthresh / pacing_rate and PathStats.cwnd) is sampled and the series (run-length compressed) must be identical across the three runs, as must the wire trace. Non-trivial = the reference series has >= 20 (client) / >= 10 (server) distinct samples and, for BBR, the pacing rate took >= 4 distinct values after the bandwidth plateau (probe-bandwidth gain cycling)";

#[derive(Clone, PartialEq, Debug)]
struct Sample {
    at: u64,
    node: usize,
    window: u64,
    ssthresh: Option<u64>,
    pacing_rate: Option<u64>,
    cwnd: u64,
}

struct CcRun {
    series: Vec<Sample>,
    trace: Vec<String>,
    steps: u64,
    end: RunEnd,
    fails: Vec<String>,
}

fn cc_run(seed: u64, shift_s: u64) -> (CcRun, &'static str) {
    let mut rng = Rng::new(seed ^ 0xcc20);
    let kind = match seed % 4 {
        0 | 2 => "bbr",
        1 => "cubic",
        _ => "newreno",
    };
    let mk = |_rng: &mut Rng| {
        let mut t = TransportConfig::default();
        match kind {
            "bbr" => {
                t.congestion_controller_factory(Arc::new(congestion::BbrConfig::default()));
            }
            "newreno" => {
                t.congestion_controller_factory(Arc::new(congestion::NewRenoConfig::default()));
            }
            _ => {}
        }
        // never flow-control limited: the controller must be what limits the sender
        t.receive_window(VarInt::from_u32(64_000_000));
        t.stream_receive_window(VarInt::from_u32(64_000_000));
        t.send_window(64_000_000);
        t
    };
    let tc = mk(&mut rng);
    let ts = mk(&mut rng);
    let (mut sim, ccfg) = default_pair(seed, tc, ts);
    sim.base += Duration::from_secs(shift_s);
    sim.net = NetCfg::default();
    sim.net.latency_ns = *rng.pick(&[5_000_000u64, 10_000_000, 40_000_000]);
    sim.net.jitter_ns = 0;
    sim.net.drop_permille = *rng.pick(&[0u64, 0, 2, 10]);
    sim.net.path_mtu = 1452;
    sim.drv.spurious_permille = 0;
    sim.drv.late_ns = 0;
    sim.nodes[CLIENT].max_datagrams = rng.range(1, 10) as usize;
    sim.nodes[SERVER].max_datagrams = rng.range(1, 10) as usize;
    let mut w = Workload::new(seed);
    w.sides[CLIENT].plans = vec![Plan { dir: Dir::Uni, len: rng.range(1_500_000, 4_000_000), chunk: 70_000, finish: true, reset_at: None }];
    w.sides[SERVER].plans = vec![Plan { dir: Dir::Uni, len: rng.range(600_000, 1_500_000), chunk: 70_000, finish: true, reset_at: None }];
    let cch = sim.connect(ccfg);
    w.ch[CLIENT] = Some(cch);
    let mut series: Vec<Sample> = Vec::new();
    let mut last: [Option<Sample>; 2] = [None, None];
    let end = sim.run_until(900_000_000_000, 2_000_000, |sim| {
        if w.ch[SERVER].is_none() {
            if let Some(&ch) = sim.nodes[SERVER].accepted.first() {
                w.ch[SERVER] = Some(ch);
            }
        }
        w.tick(sim);
        // the application tells the client that the network path changed: RTT / congestion / MTU state restart
        // (a fresh controller is built in the middle of the transfer)
        if seed % 8 >= 4 && sim.steps == 90 {
            let now = sim.base + Duration::from_nanos(sim.now);
            sim.conn(CLIENT, cch).path_changed(now);
        }
        for node in [CLIENT, SERVER] {
            let Some(ch) = w.ch[node] else { continue };
            let at = sim.now;
            let c = sim.conn(node, ch);
            let m = c.congestion_state().metrics();
            let s = Sample { at, node, window: m.congestion_window, ssthresh: m.ssthresh, pacing_rate: m.pacing_rate, cwnd: c.stats().path.cwnd };
            let same = last[node].as_ref().is_some_and(|l| l.window == s.window && l.ssthresh == s.ssthresh && l.pacing_rate == s.pacing_rate && l.cwnd == s.cwnd);
            if !same {
                last[node] = Some(s.clone());
                series.push(s);
            }
        }
        w.complete() && w.ch[SERVER].is_some()
    });
    let trace = sim.trace.iter().map(|r| format!("{r:?}")).collect();
    (CcRun { series, trace, steps: sim.steps, end, fails: sim.fails.clone() }, kind)
}

pub fn determcc(seed: u64, out: &mut Outcome) {
    let (a, kind) = cc_run(seed, 0);
    for (key, shift) in [("determinism-controller-state-differs-on-replay", 0u64), ("shift-controller-state-not-equivariant", 1000)] {
        let (b, _) = cc_run(seed, shift);
        if a.series != b.series {
            let i = a.series.iter().zip(b.series.iter()).position(|(x, y)| x != y).unwrap_or(a.series.len().min(b.series.len()));
            out.fails.push(format!(
                "key={key} seed={seed} controller {kind}: same seeds and inputs, but the controller-visible state series diverge at sample {i} of {}/{}: reference {:?} vs replay {:?}",
                a.series.len(),
                b.series.len(),
                a.series.get(i),
                b.series.get(i)
            ));
        }
        if a.trace != b.trace {
            let i = a.trace.iter().zip(b.trace.iter()).position(|(x, y)| x != y).unwrap_or(a.trace.len().min(b.trace.len()));
            let key2 = if shift == 0 { "determinism-replay-differs" } else { "shift-equivariance-broken" };
            out.fails.push(format!("key={key2} seed={seed} controller {kind} (determcc): traces diverge at record {i} of {}/{}: {:?} vs {:?}", a.trace.len(), b.trace.len(), a.trace.get(i), b.trace.get(i)));
        }
        out.evaluations += b.steps;
    }
    out.runs += 1;
    out.evaluations += a.steps;
    let per_node = |n: usize| a.series.iter().filter(|s| s.node == n).count();
    let rates: std::collections::BTreeSet<u64> = a.series.iter().filter(|s| s.node == CLIENT).filter_map(|s| s.pacing_rate).collect();
    let windows: std::collections::BTreeSet<u64> = a.series.iter().filter(|s| s.node == CLIENT).map(|s| s.window).collect();
    if per_node(CLIENT) >= 20 && per_node(SERVER) >= 10 && (kind != "bbr" || rates.len() >= 4) {
        out.nontrivial += 1;
    }
    out.count(&format!("controller:{kind}"), 1);
    out.count(&format!("end:{:?}", a.end), 1);
    out.count("controller-samples-compared", 2 * a.series.len() as u64);
    out.count("trace-records-compared", 2 * a.trace.len() as u64);
    if out.samples.len() < 3 {
        out.samples.push(format!("seed {seed}: {kind}, {} samples (client {} / server {}), {} distinct client windows, {} distinct client pacing rates, end {:?} after {} steps, sim fails {:?}", a.series.len(), per_node(CLIENT), per_node(SERVER), windows.len(), rates.len(), a.end, a.steps, a.fails.len()));
    }
}
