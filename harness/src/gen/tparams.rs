//! Generator for the `tparams` component (C10): TransportParameters::{write, read}.
use crate::{hex, Rng, Runner};

pub const TPARAMS_RULE: &str = "case = up to maxops steps; a step is (a) a parameter set (11 integers boundary-biased inside and just outside the validation limits 20 / 2^14 / 2 / 1200 / 2^60 / min_ack_delay <= max_ack_delay*1000; every combination of the optional and server-only fields; preferred address with v4 / v6 / both, cid length 1..20) written in the canonical order, a random permutation, or a non-permutation (duplicates, index 21), with or without a reserved (grease) parameter of id 31N+27 -> write, then read as client and/or server; oracles: a valid set read on the right side renders exactly the written fields (round trip, any permutation), a client-sent server-only field is refused by a server, every accepted set satisfies the listed inequalities; (b) malformed: random bytes with plausible ids/lengths, truncated / bit-flipped / spliced / duplicated valid encodings -> read on both sides, oracle: never panics, never runs out of fuel. non-trivial = an optional field, a non-default integer or an error response occurred";

const V62: u64 = 1 << 62;
const MAX_STREAMS: u64 = 1 << 60;

#[derive(Clone)]
struct Pa {
    v4: Option<([u8; 4], u16)>,
    v6: Option<([u8; 16], u16)>,
    cid: Vec<u8>,
    token: Vec<u8>,
}

#[derive(Clone)]
struct Tp {
    ints: [u64; 11],
    dam: bool,
    mdfs: Option<u64>,
    iscid: Option<Vec<u8>>,
    gqb: bool,
    mad: Option<u64>,
    odcid: Option<Vec<u8>>,
    rscid: Option<Vec<u8>>,
    srt: Option<Vec<u8>>,
    pa: Option<Pa>,
}

const DEFAULTS: [u64; 11] = [0, 65527, 0, 0, 0, 0, 0, 0, 3, 25, 2];

fn o<T>(x: &Option<T>, f: impl Fn(&T) -> String) -> String {
    match x {
        None => "none".into(),
        Some(v) => f(v),
    }
}

impl Tp {
    fn text(&self) -> String {
        let mut w: Vec<String> = self.ints.iter().map(|x| x.to_string()).collect();
        w.push((self.dam as u8).to_string());
        w.push(o(&self.mdfs, |x| x.to_string()));
        w.push(o(&self.iscid, |x| hex(x)));
        w.push((self.gqb as u8).to_string());
        w.push(o(&self.mad, |x| x.to_string()));
        w.push(o(&self.odcid, |x| hex(x)));
        w.push(o(&self.rscid, |x| hex(x)));
        w.push(o(&self.srt, |x| hex(x)));
        w.push(o(&self.pa, |x| {
            format!(
                "{},{},{},{}",
                o(&x.v4, |a| format!("{}/{}", hex(&a.0), a.1)),
                o(&x.v6, |a| format!("{}/{}", hex(&a.0), a.1)),
                hex(&x.cid),
                hex(&x.token)
            )
        }));
        w.join(" ")
    }

    /// the inequalities of the semantic validation (what `tp_semantic_validation` states)
    fn inequalities(&self) -> bool {
        self.ints[8] <= 20
            && self.ints[9] < (1 << 14)
            && self.ints[10] >= 2
            && self.ints[1] >= 1200
            && self.ints[6] <= MAX_STREAMS
            && self.ints[7] <= MAX_STREAMS
            && self.mad.map_or(true, |m| (m as u128) <= self.ints[9] as u128 * 1000)
    }

    fn server_only(&self) -> bool {
        self.odcid.is_some() || self.rscid.is_some() || self.srt.is_some() || self.pa.is_some()
    }

    /// the value survives write -> read unchanged (representation constraints of the wire format)
    fn representable(&self) -> bool {
        self.pa.as_ref().map_or(true, |p| {
            (p.v4.is_some() || p.v6.is_some())
                && p.v4.map_or(true, |a| a != ([0; 4], 0))
                && p.v6.map_or(true, |a| a != ([0; 16], 0))
                && !p.cid.is_empty()
        })
    }
}

fn v(rng: &mut Rng) -> u64 {
    let x = rng.biased();
    if x < V62 {
        x
    } else {
        V62 - 1 - (x & 3)
    }
}

fn cid(rng: &mut Rng, min: u64) -> Vec<u8> {
    let n = match rng.below(4) {
        0 => min,
        1 => 20,
        _ => rng.range(min, 20),
    };
    rng.bytes(n as usize)
}

/// a parameter set inside the validation limits (mostly), each optional field present with prob. 1/3
fn gen_tp(rng: &mut Rng) -> Tp {
    let mut ints = DEFAULTS;
    for i in 0..11 {
        if rng.chance(1, 2) {
            continue;
        }
        ints[i] = match i {
            1 => match rng.below(4) {
                0 => 1200,
                1 => 65527,
                2 => rng.range(1200, 70000),
                _ => v(rng).max(1200),
            },
            6 | 7 => match rng.below(4) {
                0 => MAX_STREAMS,
                1 => MAX_STREAMS - 1,
                _ => v(rng).min(MAX_STREAMS),
            },
            8 => rng.below(21),
            9 => match rng.below(3) {
                0 => (1 << 14) - 1,
                1 => rng.below(1 << 14),
                _ => rng.below(64),
            },
            10 => match rng.below(3) {
                0 => 2,
                1 => rng.range(2, 64),
                _ => v(rng).max(2),
            },
            _ => v(rng),
        };
    }
    let p = |rng: &mut Rng| rng.chance(1, 3);
    let mad = if p(rng) {
        let lim = ints[9] * 1000;
        Some(match rng.below(3) {
            0 => lim,
            1 => rng.below(lim + 1),
            _ => lim.saturating_sub(rng.below(3)),
        })
    } else {
        None
    };
    let pa = if p(rng) {
        let port = |rng: &mut Rng| match rng.below(3) {
            0 => 0u16,
            1 => 65535,
            _ => rng.next() as u16,
        };
        let mut v4 = if rng.chance(2, 3) {
            let mut ip = [0u8; 4];
            if rng.chance(3, 4) {
                ip.copy_from_slice(&rng.bytes(4));
            }
            Some((ip, port(rng)))
        } else {
            None
        };
        let mut v6 = if v4.is_none() || rng.chance(1, 2) {
            let mut ip = [0u8; 16];
            if rng.chance(3, 4) {
                ip.copy_from_slice(&rng.bytes(16));
            }
            Some((ip, port(rng)))
        } else {
            None
        };
        // keep the set representable: an all-zero address with port 0 reads back as "absent"
        if v4 == Some(([0; 4], 0)) {
            v4 = Some(([0; 4], 1));
        }
        if v6 == Some(([0; 16], 0)) {
            v6 = Some(([0; 16], 1));
        }
        Some(Pa {
            v4,
            v6,
            cid: cid(rng, 1),
            token: rng.bytes(16),
        })
    } else {
        None
    };
    Tp {
        ints,
        dam: p(rng),
        mdfs: if p(rng) { Some(v(rng)) } else { None },
        iscid: if p(rng) { Some(cid(rng, 0)) } else { None },
        gqb: p(rng),
        mad,
        odcid: if p(rng) { Some(cid(rng, 0)) } else { None },
        rscid: if p(rng) { Some(cid(rng, 0)) } else { None },
        srt: if p(rng) { Some(rng.bytes(16)) } else { None },
        pa,
    }
}

/// push one field just across (or onto) a validation limit
fn perturb(rng: &mut Rng, t: &mut Tp) {
    match rng.below(9) {
        0 => t.ints[8] = rng.range(19, 22),
        1 => t.ints[9] = rng.range((1 << 14) - 2, (1 << 14) + 1),
        2 => t.ints[10] = rng.below(4),
        3 => t.ints[1] = rng.range(1198, 1201),
        4 => t.ints[6] = rng.range(MAX_STREAMS - 1, MAX_STREAMS + 1),
        5 => t.ints[7] = rng.range(MAX_STREAMS - 1, MAX_STREAMS + 1),
        6 => {
            let lim = t.ints[9].min(1 << 40) * 1000;
            t.mad = Some((lim + rng.below(3)).saturating_sub(1));
        }
        7 => {
            if let Some(pa) = t.pa.as_mut() {
                match rng.below(3) {
                    0 => pa.cid.clear(),
                    1 => {
                        pa.v4 = None;
                        pa.v6 = None;
                    }
                    _ => pa.v4 = Some(([0; 4], 0)),
                }
            }
        }
        _ => {
            // large max_ack_delay together with a min_ack_delay: the multiplication in the check
            t.ints[9] = *rng.pick(&[(1u64 << 14), 1 << 54, (1 << 55) + 7, V62 - 1]);
            t.mad = Some(v(rng));
        }
    }
}

fn order(rng: &mut Rng) -> (String, bool) {
    match rng.below(10) {
        0..=2 => ("-".into(), true),
        3..=7 => {
            let mut a: Vec<u8> = (0..21).collect();
            for i in (1..a.len()).rev() {
                a.swap(i, rng.below(i as u64 + 1) as usize);
            }
            (a.iter().map(|x| x.to_string()).collect::<Vec<_>>().join(","), true)
        }
        8 => {
            // a non-permutation: one index duplicated (another dropped)
            let mut a: Vec<u8> = (0..21).collect();
            let i = rng.below(21) as usize;
            let j = rng.below(21) as usize;
            a[i] = a[j];
            for k in (1..a.len()).rev() {
                a.swap(k, rng.below(k as u64 + 1) as usize);
            }
            (a.iter().map(|x| x.to_string()).collect::<Vec<_>>().join(","), i == j)
        }
        _ => {
            let mut a: Vec<u8> = (0..21).collect();
            let i = rng.below(21) as usize;
            a[i] = *rng.pick(&[21u8, 22, 255]);
            (a.iter().map(|x| x.to_string()).collect::<Vec<_>>().join(","), false)
        }
    }
}

fn grease(rng: &mut Rng) -> String {
    if rng.chance(1, 2) {
        return "-".into();
    }
    let n = match rng.below(4) {
        0 => 0,
        1 => (V62 - 28) / 31,
        2 => rng.below(3),
        _ => rng.below((V62 - 27) / 31),
    };
    let id = 31 * n + 27;
    let len = *rng.pick(&[0usize, 1, 15, 16, 8]);
    format!("{id}:{}", hex(&rng.bytes(len)))
}

fn unhex(h: &str) -> Vec<u8> {
    if h == "-" {
        return Vec::new();
    }
    (0..h.len() / 2)
        .map(|i| u8::from_str_radix(&h[2 * i..2 * i + 2], 16).unwrap())
        .collect()
}

fn mutate(rng: &mut Rng, b: &mut Vec<u8>) {
    if b.is_empty() {
        *b = rng.bytes(3);
        return;
    }
    match rng.below(6) {
        0 => {
            let n = rng.below(b.len() as u64) as usize;
            b.truncate(n);
        }
        1 => {
            let i = rng.below(b.len() as u64) as usize;
            b[i] ^= 1 << rng.below(8);
        }
        2 => {
            let i = rng.below(b.len() as u64) as usize;
            b[i] = rng.next() as u8;
        }
        3 => {
            let i = rng.below(b.len() as u64) as usize;
            b[i] = b[i].wrapping_add(*rng.pick(&[1u8, 0xff, 2]));
        }
        4 => {
            // duplicate a slice of the encoding (often a whole parameter)
            let i = rng.below(b.len() as u64) as usize;
            let j = (i + rng.range(1, 12) as usize).min(b.len());
            let s = b[i..j].to_vec();
            let at = rng.below(b.len() as u64 + 1) as usize;
            for (k, x) in s.into_iter().enumerate() {
                b.insert(at + k, x);
            }
        }
        _ => {
            let i = rng.below(b.len() as u64 + 1) as usize;
            let n = rng.range(1, 3) as usize;
            for x in rng.bytes(n) {
                b.insert(i, x);
            }
        }
    }
}

const IDS: [u8; 24] = [
    0, 1, 2, 3, 4, 5, 6, 7, 8, 9, 10, 11, 12, 13, 14, 15, 16, 0x1b, 0x20, 0x11, 0x3a, 0x1f, 0x21, 0x3f,
];

fn check_read(r: &mut Runner, what: &str, resp: &str) {
    if resp == "panic" || resp == "out-of-fuel" {
        r.oracle_fail(&format!("key=tparams-reader-panic {what} -> {resp}"));
    }
    if resp.starts_with("err") {
        r.nontrivial();
    }
}

/// oracle (tp_semantic_validation): whatever `read` accepts satisfies the inequalities
fn check_accepted(r: &mut Runner, server: bool, input: &str, resp: &str) {
    let Some(rest) = resp.strip_prefix("ok ") else { return };
    let w: Vec<&str> = rest.split(' ').collect();
    if w.len() != 20 {
        r.oracle_fail(&format!("key=tparams-render read {input} -> {resp}"));
        return;
    }
    let n = |i: usize| w[i].parse::<u64>().unwrap_or(u64::MAX);
    let mad_ok = w[15] == "none"
        || (w[15].parse::<u64>().unwrap_or(u64::MAX) as u128) <= n(9) as u128 * 1000;
    let server_only = w[16] != "none" || w[17] != "none" || w[18] != "none" || w[19] != "none";
    let ok = n(8) <= 20
        && n(9) < (1 << 14)
        && n(10) >= 2
        && n(1) >= 1200
        && n(6) <= MAX_STREAMS
        && n(7) <= MAX_STREAMS
        && mad_ok
        && !(server && server_only);
    if !ok {
        r.oracle_fail(&format!(
            "key=tparams-semantic-validation read {} {input} accepted `{resp}`",
            if server { "server" } else { "client" }
        ));
    }
}

pub fn tparams(rng: &mut Rng, r: &mut Runner, maxops: usize) {
    let mut steps = 0;
    while steps < maxops {
        steps += 1;
        if rng.chance(7, 10) {
            let mut t = gen_tp(rng);
            if rng.chance(1, 4) {
                perturb(rng, &mut t);
            }
            let (ord, perm) = order(rng);
            let g = grease(rng);
            let text = t.text();
            let resp = r.op(&format!("tparams write {ord} {g} {text}"));
            if t.ints != DEFAULTS || t.server_only() || t.mad.is_some() || t.iscid.is_some() {
                r.nontrivial();
            }
            let Some(h) = resp.strip_prefix("ok ") else {
                if perm {
                    r.oracle_fail(&format!("key=tparams-write `{text}` order {ord} -> {resp}"));
                }
                r.nontrivial();
                continue;
            };
            let h = h.to_string();
            for server in [false, true] {
                if rng.chance(1, 4) {
                    continue;
                }
                let side = if server { "server" } else { "client" };
                let d = r.op(&format!("tparams read {side} {h}"));
                steps += 1;
                check_read(r, &format!("read {side} {h}"), &d);
                check_accepted(r, server, &h, &d);
                if perm {
                    let should_accept = t.inequalities() && t.representable() && !(server && t.server_only());
                    if should_accept && d != format!("ok {text}") {
                        // oracle (tp_roundtrip): any permutation, any grease parameter
                        r.oracle_fail(&format!(
                            "key=tparams-roundtrip `{text}` order {ord} grease {g} written {h} read({side}) `{d}`"
                        ));
                    }
                    if server && t.server_only() && d.starts_with("ok") {
                        r.oracle_fail(&format!(
                            "key=tparams-server-only `{text}` accepted by a server: `{d}`"
                        ));
                    }
                }
            }
            if rng.chance(1, 3) {
                let mut b = unhex(&h);
                mutate(rng, &mut b);
                if rng.chance(1, 4) {
                    mutate(rng, &mut b);
                }
                let m = hex(&b);
                let server = rng.chance(1, 2);
                let side = if server { "server" } else { "client" };
                let d = r.op(&format!("tparams read {side} {m}"));
                steps += 1;
                check_read(r, &format!("read {side} {m}"), &d);
                check_accepted(r, server, &m, &d);
            }
        } else {
            // malformed from scratch: a few (id, len, body) triples with plausible ids
            let mut b = Vec::new();
            for _ in 0..rng.range(1, 4) {
                if rng.chance(1, 6) {
                    let n = rng.range(1, 6) as usize;
                    b.extend(rng.bytes(n));
                    continue;
                }
                if rng.chance(1, 10) {
                    b.extend([0xc0, 0, 0, 0, 0xff, 0x04, 0xde, 0x1b]);
                } else if rng.chance(1, 10) {
                    b.extend([0x6a, 0xb2]);
                } else {
                    b.push(*rng.pick(&IDS));
                }
                let len = match rng.below(5) {
                    0 => 0,
                    1 => *rng.pick(&[1u8, 2, 4, 8, 16]),
                    2 => rng.below(64) as u8,
                    _ => rng.below(24) as u8,
                };
                b.push(len);
                let body = match rng.below(4) {
                    0 => len as usize,
                    1 => (len as usize).saturating_sub(1),
                    2 => len as usize + 1,
                    _ => rng.below(30) as usize,
                };
                let mut bytes = rng.bytes(body);
                if body > 0 && rng.chance(1, 2) {
                    // a varint whose size matches the declared length
                    let tag = match len {
                        1 => 0u8,
                        2 => 1,
                        4 => 2,
                        8 => 3,
                        _ => rng.below(4) as u8,
                    };
                    bytes[0] = (bytes[0] & 0x3f) | (tag << 6);
                }
                b.extend(bytes);
            }
            let h = hex(&b);
            let server = rng.chance(1, 2);
            let side = if server { "server" } else { "client" };
            let d = r.op(&format!("tparams read {side} {h}"));
            check_read(r, &format!("read {side} {h}"), &d);
            check_accepted(r, server, &h, &d);
            r.nontrivial();
        }
    }
}
