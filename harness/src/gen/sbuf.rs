//! Generator + C01 oracles for `SendBuffer` (component `sbuf`).
use crate::{hex, Rng, Runner};

pub const SBUF_RULE: &str = "case = up to maxops SendBuffer ops. 85% structured: write of ground-stream bytes split over several segments (sizes biased to 0,1,2,63,64,65, rarely >16384), poll_transmit(max_len 16..1500, boundary-biased) followed by the write_stream_frames copy loop over get(), ack / retransmit of a frame drawn from the tracked in-flight multiset F (each frame once), retransmit_all_for_0rtt only before anything was acked or lost (F forgotten), queries; 15% malformed: arbitrary ack/retransmit/get ranges, max_len<16, zrtt at any time (case ends at the first panic). non-trivial = at least one ack of an in-flight frame, one lost frame that was re-polled, and one get() that crossed a segment boundary";

pub fn ground(o: u64) -> u8 {
    (((o % 251) * 7 + 3) % 251) as u8
}

#[derive(Default, Debug, Clone)]
pub struct SbState {
    pub o: u64,
    pub ul: u64,
    pub us: u64,
    pub acks: Vec<(u64, u64)>,
    pub rt: Vec<(u64, u64)>,
    pub segs: Vec<u64>,
}

pub fn parse_ranges(s: &str) -> Option<Vec<(u64, u64)>> {
    if s == "-" {
        return Some(Vec::new());
    }
    s.split(',')
        .map(|r| {
            let (a, b) = r.split_once("..")?;
            Some((a.parse().ok()?, b.parse().ok()?))
        })
        .collect()
}

fn parse_state(resp: &str) -> Option<SbState> {
    let (_, st) = resp.split_once("| ")?;
    let mut s = SbState::default();
    for kv in st.split(' ') {
        let (k, v) = kv.split_once('=')?;
        match k {
            "o" => s.o = v.parse().ok()?,
            "ul" => s.ul = v.parse().ok()?,
            "us" => s.us = v.parse().ok()?,
            "a" => s.acks = parse_ranges(v)?,
            "r" => s.rt = parse_ranges(v)?,
            "s" => {
                s.segs = if v == "-" {
                    Vec::new()
                } else {
                    v.split(',')
                        .map(|x| x.parse().ok())
                        .collect::<Option<_>>()?
                }
            }
            _ => {}
        }
    }
    Some(s)
}

/// C01 / DESIGN 5.1 partition: [0,offset) = acked ∪ queued ∪ in-flight ∪ unsent, pairwise disjoint
fn partition_violation(st: &SbState, f: &[(u64, u64)]) -> Option<String> {
    if st.ul > st.o || st.us > st.o {
        return Some(format!(
            "unacked_len {} / unsent {} beyond offset {}",
            st.ul, st.us, st.o
        ));
    }
    let base = st.o - st.ul;
    let mut iv: Vec<(u64, u64, &str)> = Vec::new();
    iv.push((0, base, "acked"));
    iv.extend(st.acks.iter().map(|&(a, b)| (a, b, "acked")));
    iv.extend(st.rt.iter().map(|&(a, b)| (a, b, "queued")));
    iv.extend(f.iter().map(|&(a, b)| (a, b, "inflight")));
    iv.push((st.us, st.o, "unsent"));
    iv.retain(|x| x.0 != x.1);
    iv.sort();
    let mut pos = 0;
    for (a, b, what) in iv {
        if a > b {
            return Some(format!("inverted {what} range {a}..{b}"));
        }
        if a < pos {
            return Some(format!("offset {a} is in two classes (second: {what})"));
        }
        if a > pos {
            return Some(format!("offsets {pos}..{a} are in no class"));
        }
        pos = b;
    }
    if pos != st.o {
        return Some(format!("classes end at {pos}, offset is {}", st.o));
    }
    None
}

pub fn sbuf(rng: &mut Rng, r: &mut Runner, maxops: usize) {
    if rng.chance(15, 100) {
        return malformed(rng, r, maxops);
    }
    let mut f: Vec<(u64, u64)> = Vec::new(); // frames in flight
    let mut st = SbState::default();
    let mut sent_or_acked = false; // anything acked or declared lost yet (0-RTT no longer possible)
    let (mut did_ack, mut did_relose, mut did_cross) = (false, false, false);
    let mut lost: Vec<(u64, u64)> = Vec::new();
    let mut acked_bytes: u64 = 0; // total length of the acknowledged frames (they are disjoint)
    let mut n = 0;
    while n < maxops {
        n += 1;
        let resp = match rng.below(100) {
            0..=24 => {
                // write, possibly as several segments
                let k = 1 + rng.below(3);
                let mut last = String::new();
                for _ in 0..k {
                    let len = match rng.below(12) {
                        0 => 0,
                        1 => 1,
                        2 => 2,
                        3 => *rng.pick(&[62, 63, 64, 65]),
                        4 => rng.range(100, 400),
                        5 if rng.chance(1, 6) => rng.range(16300, 16500),
                        _ => rng.range(1, 40),
                    };
                    last = r.op(&format!("sbuf write {len}"));
                    n += 1;
                }
                last
            }
            25..=59 => {
                let max_len = match rng.below(8) {
                    0 => 16,
                    1 => rng.range(16, 26),
                    2 => rng.range(16, 1500),
                    _ => rng.range(17, 80),
                };
                let had_pending = st.us != st.o || !st.rt.is_empty();
                let was_lost = st.rt.first().copied();
                let resp = r.op(&format!("sbuf poll {max_len}"));
                let mut it = resp.split(' ');
                if it.next() != Some("ok") {
                    r.oracle_fail(&format!(
                        "key=sbuf-poll-failed poll_transmit({max_len}) -> {resp}"
                    ));
                    return;
                }
                let a: u64 = it.next().unwrap().parse().unwrap();
                let b: u64 = it.next().unwrap().parse().unwrap();
                let base = st.o - st.ul;
                // oracle: the frame lies inside the buffered, written part of the stream
                if a > b || a < base || b > st.o {
                    r.oracle_fail(&format!(
                        "key=sbuf-poll-outside poll_transmit returned {a}..{b} outside buffered {base}..{}",
                        st.o
                    ));
                }
                // oracle: progress (the caller always offers at least 17 bytes)
                if had_pending && max_len >= 17 && a == b {
                    r.oracle_fail(&format!(
                        "key=sbuf-poll-empty empty frame {a}..{b} although data was pending"
                    ));
                }
                if let Some(l) = was_lost {
                    if lost.iter().any(|x| x.0 <= l.0 && l.0 < x.1) && a == l.0 {
                        did_relose = true;
                    }
                }
                // the copy loop of write_stream_frames
                let mut start = a;
                let mut pieces = 0;
                while start != b {
                    let g = r.op(&format!("sbuf get {start} {b}"));
                    n += 1;
                    let Some(h) = g.strip_prefix("ok ") else {
                        r.oracle_fail(&format!("key=sbuf-get-failed get({start}..{b}) -> {g}"));
                        return;
                    };
                    let len = if h == "-" { 0 } else { h.len() as u64 / 2 };
                    if len == 0 || len > b - start {
                        r.oracle_fail(&format!(
                            "key=sbuf-copy-loop get({start}..{b}) returned {len} bytes: write_stream_frames would not terminate / overrun"
                        ));
                        return;
                    }
                    let want: Vec<u8> = (start..start + len).map(ground).collect();
                    if h != hex(&want) {
                        r.oracle_fail(&format!("key=sbuf-content get({start}..{b}) returned bytes that were not written at that offset"));
                    }
                    start += len;
                    pieces += 1;
                }
                if pieces > 1 {
                    did_cross = true;
                }
                f.push((a, b));
                resp
            }
            60..=79 if !f.is_empty() => {
                let i = rng.below(f.len() as u64) as usize;
                let (a, b) = f.swap_remove(i);
                sent_or_acked = true;
                did_ack = true;
                acked_bytes += b - a;
                // ack must not drop unacknowledged bytes: checked through the partition + content oracles
                r.op(&format!("sbuf ack {a} {b}"))
            }
            80..=91 if !f.is_empty() => {
                let i = rng.below(f.len() as u64) as usize;
                let (a, b) = f.swap_remove(i);
                sent_or_acked = true;
                lost.push((a, b));
                r.op(&format!("sbuf retransmit {a} {b}"))
            }
            92..=93 if !sent_or_acked && st.acks.is_empty() && st.rt.is_empty() => {
                // 0-RTT rejected: everything is sent again, packets in flight are forgotten
                f.clear();
                r.op("sbuf zrtt")
            }
            94..=96 => {
                let q = r.op("sbuf q");
                // is_fully_acked <=> every written byte was covered by an acknowledged frame
                let want_fa = acked_bytes == st.o;
                if q != format!(
                    "ok {} {} {}",
                    want_fa,
                    st.us != st.o || !st.rt.is_empty(),
                    st.o
                ) {
                    r.oracle_fail(&format!("key=sbuf-query is_fully_acked/has_unsent_data/offset inconsistent: {q} vs state {st:?}"));
                }
                continue;
            }
            97..=98 => {
                let u = r.op("sbuf unacked");
                let acked: u64 = st.acks.iter().map(|x| x.1 - x.0).sum();
                if u != format!("ok {}", st.ul - acked) {
                    r.oracle_fail(&format!("key=sbuf-unacked unacked() = {u}, state {st:?}"));
                }
                continue;
            }
            _ => {
                // read back an arbitrary buffered range
                if st.ul == 0 {
                    continue;
                }
                let base = st.o - st.ul;
                let a = rng.range(base, st.o - 1);
                let b = rng.range(a, st.o);
                let g = r.op(&format!("sbuf get {a} {b}"));
                let Some(h) = g.strip_prefix("ok ") else {
                    r.oracle_fail(&format!("key=sbuf-get-failed get({a}..{b}) -> {g}"));
                    return;
                };
                let len = if h == "-" { 0 } else { h.len() as u64 / 2 };
                let want: Vec<u8> = (a..a + len).map(ground).collect();
                if len > b - a || (a != b && len == 0) || h != hex(&want) {
                    r.oracle_fail(&format!(
                        "key=sbuf-content get({a}..{b}) -> {len} bytes, wrong length or content"
                    ));
                }
                continue;
            }
        };
        if resp == "panic" {
            r.oracle_fail(
                "key=sbuf-panic SendBuffer panicked on a sequence Connection can produce",
            );
            return;
        }
        let Some(ns) = parse_state(&resp) else {
            r.oracle_fail(&format!("key=sbuf-protocol unparsable response {resp}"));
            return;
        };
        st = ns;
        if let Some(v) = partition_violation(&st, &f) {
            r.oracle_fail(&format!(
                "key=sbuf-partition {v}; state {st:?} in flight {f:?}"
            ));
            return;
        }
        if did_ack && did_relose && did_cross {
            r.nontrivial();
        }
    }
}

fn malformed(rng: &mut Rng, r: &mut Runner, maxops: usize) {
    let mut o: u64 = 0;
    for _ in 0..maxops {
        let small = |rng: &mut Rng, o: u64| match rng.below(4) {
            0 => rng.biased(),
            _ => rng.below(o + 3),
        };
        let resp = match rng.below(10) {
            0 | 1 => {
                let len = rng.below(50);
                o += len;
                r.op(&format!("sbuf write {len}"))
            }
            2 | 3 => {
                let m = match rng.below(4) {
                    0 => rng.below(17),
                    1 => rng.biased(),
                    _ => rng.range(16, 60),
                };
                r.op(&format!("sbuf poll {m}"))
            }
            4 | 5 => r.op(&format!("sbuf ack {} {}", small(rng, o), small(rng, o))),
            6 => r.op(&format!(
                "sbuf retransmit {} {}",
                small(rng, o),
                small(rng, o)
            )),
            7 => r.op(&format!("sbuf get {} {}", small(rng, o), small(rng, o))),
            8 => {
                if rng.chance(1, 2) {
                    r.op("sbuf zrtt")
                } else {
                    r.op("sbuf unacked")
                }
            }
            _ => r.op("sbuf q"),
        };
        r.nontrivial();
        if resp == "panic" {
            return;
        }
    }
}
