//! Generator + C01 oracles for the receiving side of the end-to-end composition (component `rcv`):
//! `StreamsState::received` / `received_reset` and `RecvStream::{read, stop}` / `Chunks::next` on one stream.
use crate::gen::sbuf::ground;
use crate::{Rng, Runner};

pub const RCV_RULE: &str = "case = one stream of L = 20..300 ground bytes, stream window >= L (5%: smaller): the honest sender's STREAM frames (random framing, re-framed retransmissions, exact duplicates, empty frames, FIN exactly at L), delivered in random order with allocation sizes len / len+small / 1200, interleaved with ordered and unordered reads (one Chunks::next(max), max in 1,2,3,5,10,100,2^62), reads opened and dropped, a deliberate ordered read after an unordered one (must be refused and must leave the stream usable), 12%: RESET_STREAM(code, L) at a random point (and again), 8%: stop(code); 10% of the cases add a misbehaving peer (data beyond the final size, FIN at another size, RESET_STREAM with another final size, data beyond the window). non-trivial = out-of-order arrival + a duplicate or overlapping frame + at least 3 data reads + the end of the stream (fin or reset) was reported";

const KEY_DROP: &str = "C01-illegal-ordered-read-drops-stream";

fn fail_once(r: &mut Runner, key: &str, what: &str) {
    let tag = format!("key={key} ");
    if !r.oracle_failures.iter().any(|f| f.contains(&tag)) {
        r.oracle_fail(&format!("{tag}{what}"));
    }
}

fn unhex(s: &str) -> Vec<u8> {
    if s == "-" {
        return Vec::new();
    }
    (0..s.len() / 2)
        .filter_map(|i| u8::from_str_radix(s.get(2 * i..2 * i + 2)?, 16).ok())
        .collect()
}

fn obs_read(resp: &str) -> String {
    let w: Vec<&str> = resp.split(' ').collect();
    match w.first().copied() {
        Some("chunk") if w.len() > 2 => {
            let len = if w[2] == "-" { 0 } else { w[2].len() / 2 };
            format!("chunk {} {}", w[1], len)
        }
        Some("fin") | Some("blocked") | Some("reset") => "none".into(),
        _ => "err".into(),
    }
}

/// 0 = no entry, 2 = open Recv (second token after the bar)
fn live(resp: &str) -> Option<u8> {
    resp.split_once("| ")?.1.split(' ').next()?.parse().ok()
}

struct Track {
    l: u64,
    delivered: Vec<bool>,
    next: u64,
    unordered: bool,
    fin_frame_in: bool,
    reset_in: Option<u64>,
    stopped: bool,
    hostile: bool,
    reads: u32,
    ended: bool,
}

fn do_read(r: &mut Runner, t: &mut Track, ordered: bool, max: u64) {
    let m = if ordered { "ord" } else { "unord" };
    let resp = r.op_observed(&format!("rcv read {m} {max}"), Some(&obs_read));
    let w: Vec<&str> = resp.split(' ').collect();
    let was_unordered = t.unordered;
    if !ordered && !resp.starts_with("err ClosedStream") {
        // `Chunks::new(false)` switches the mode even when nothing can be read yet
        t.unordered = true;
    }
    match w.first().copied() {
        Some("chunk") if w.len() > 2 => {
            if ordered && was_unordered {
                fail_once(r, "rcv-illegal-ordered-accepted", "ordered read after an unordered one was not refused");
            }
            let off: u64 = w[1].parse().unwrap_or(u64::MAX);
            let bytes = unhex(w[2]);
            if bytes.len() as u64 > max {
                fail_once(r, "rcv-chunk-too-long", &format!("chunk of {} bytes for max_length {max}", bytes.len()));
            }
            if !bytes.is_empty() {
                t.reads += 1;
            }
            if ordered && off != t.next {
                fail_once(r, "rcv-ordered-prefix", &format!("ordered read returned offset {off}, expected {} (gap, duplicate or reordering)", t.next));
            }
            for (i, b) in bytes.iter().enumerate() {
                let x = off + i as u64;
                if x >= t.l && !t.hostile {
                    fail_once(r, "rcv-beyond-written", &format!("offset {x} delivered, only {} bytes were written", t.l));
                } else if *b != ground(x) {
                    fail_once(r, "rcv-content", &format!("offset {x}: delivered {b}, written {}", ground(x)));
                } else if (x as usize) < t.delivered.len() {
                    if t.delivered[x as usize] {
                        fail_once(r, "rcv-duplicate-delivery", &format!("offset {x} handed to the application twice (chunk {off}+{})", bytes.len()));
                    }
                    t.delivered[x as usize] = true;
                }
            }
            if ordered {
                t.next = off + bytes.len() as u64;
            }
        }
        Some("fin") => {
            t.ended = true;
            if !t.hostile {
                if !t.fin_frame_in {
                    fail_once(r, "rcv-fin-without-fin", "end of stream reported although no FIN frame was delivered");
                }
                if let Some(x) = (0..t.l).find(|x| !t.delivered[*x as usize]) {
                    fail_once(r, "rcv-fin-before-all", &format!("end of stream reported although offset {x} of {} was never delivered", t.l));
                }
            }
        }
        Some("reset") => {
            t.ended = true;
            let c: u64 = w.get(1).and_then(|c| c.parse().ok()).unwrap_or(u64::MAX);
            if !t.hostile && t.reset_in != Some(c) {
                fail_once(r, "rcv-reset-code", &format!("reset reported with code {c}, the sender's is {:?}", t.reset_in));
            }
        }
        Some("err") if w.get(1) == Some(&"IllegalOrderedRead") => {
            if !(ordered && was_unordered) {
                fail_once(r, "rcv-read-refused", &format!("legal read refused: {resp}"));
            }
            // the refused call must leave the stream alone: it is still stored
            if live(&resp) != Some(2) {
                fail_once(r, KEY_DROP, "an ordered read after an unordered one is refused with IllegalOrderedRead AND removes the stream from the receive map: every later read reports ClosedStream, buffered and later data is lost, the stream is never freed");
            }
        }
        _ => {}
    }
}

pub fn rcv(rng: &mut Rng, r: &mut Runner, maxops: usize) {
    let l = rng.range(20, 300);
    let hostile = rng.chance(10, 100);
    let srw = if rng.chance(5, 100) { rng.range(1, l) } else { l + rng.below(50) };
    let mut t = Track {
        l,
        delivered: vec![false; l as usize],
        next: 0,
        unordered: false,
        fin_frame_in: false,
        reset_in: None,
        stopped: false,
        hostile: hostile || srw < l,
        reads: 0,
        ended: false,
    };
    r.op(&format!("rcv new {srw}"));
    // the sender's frames: a framing of [0, L) plus re-framed retransmissions and duplicates
    let mut frames: Vec<(u64, u64, bool)> = Vec::new();
    let mut a = 0;
    while a < l {
        let b = (a + 1 + rng.below(40)).min(l);
        frames.push((a, b, b == l));
        a = b;
    }
    for _ in 0..rng.below(6) {
        let a = rng.below(l);
        let b = (a + rng.below(60)).min(l);
        frames.push((a, b, b == l && rng.chance(1, 2)));
    }
    if rng.chance(1, 3) {
        frames.push((l, l, true));
    }
    if rng.chance(1, 4) {
        let x = rng.below(l);
        frames.push((x, x, false));
    }
    for _ in 0..rng.below(4) {
        let f = *rng.pick(&frames);
        frames.push(f);
    }
    // shuffle
    for i in (1..frames.len()).rev() {
        let j = rng.below(i as u64 + 1) as usize;
        frames.swap(i, j);
    }
    let reset_code = if rng.chance(12, 100) { Some(rng.below(1000)) } else { None };
    let reset_at = rng.below(frames.len() as u64 + 1) as usize;
    let stop_at = if rng.chance(8, 100) { Some(rng.below(frames.len() as u64 + 1) as usize) } else { None };
    let (mut out_of_order, mut overlap, mut hi) = (false, false, 0u64);
    let mut seen: Vec<bool> = vec![false; l as usize + 1];
    let mut n = 1;
    let mut fi = 0;
    let maxes = [1u64, 2, 3, 5, 10, 100, 1 << 62];
    while n < maxops && !(fi >= frames.len() && t.ended) {
        n += 1;
        let deliver = fi < frames.len() && rng.chance(55, 100);
        if deliver {
            if Some(fi) == stop_at && !t.stopped {
                r.op(&format!("rcv stop {}", rng.below(100)));
                t.stopped = true;
                n += 1;
            }
            if fi == reset_at {
                if let Some(c) = reset_code {
                    r.op(&format!("rcv reset {c} {l}"));
                    t.reset_in.get_or_insert(c);
                    if rng.chance(1, 2) {
                        r.op(&format!("rcv reset {c} {l}"));
                    }
                    n += 1;
                }
            }
            let (a, b, fin) = frames[fi];
            fi += 1;
            let len = b - a;
            let alloc = match rng.below(3) {
                0 => len,
                1 => len + rng.below(8),
                _ => 1200.max(len),
            };
            if a < hi {
                if b > a && (a..b).any(|x| seen[x as usize]) {
                    overlap = true;
                }
                if b <= hi {
                    out_of_order = true;
                }
            }
            if a > hi {
                out_of_order = true;
            }
            hi = hi.max(b);
            let resp = r.op(&format!("rcv stream {a} {len} {} {alloc}", fin as u8));
            if resp.starts_with("ok") {
                for x in a..b {
                    seen[x as usize] = true;
                }
                if fin {
                    t.fin_frame_in = true;
                }
            } else if !t.hostile {
                fail_once(r, "rcv-honest-frame-refused", &format!("STREAM {a}..{b} fin={fin} of the honest sender answered with {resp}"));
            }
            if hostile && rng.chance(1, 5) {
                let line = match rng.below(4) {
                    0 => format!("rcv stream {} 3 0 3", l + rng.below(5)),
                    1 => format!("rcv stream {} 2 1 2", rng.below(l)),
                    2 => format!("rcv reset 7 {}", l + 1 - rng.below(3)),
                    _ => format!("rcv stream {} 4 0 4", srw.saturating_sub(2)),
                };
                r.op(&line);
                n += 1;
            }
        } else {
            match rng.below(100) {
                0..=4 => {
                    let m = if t.unordered || rng.chance(1, 4) { "unord" } else { "ord" };
                    let resp = r.op(&format!("rcv open {m}"));
                    // opening unordered switches the mode
                    if m == "unord" && resp.starts_with("ok") {
                        t.unordered = true;
                    }
                }
                5..=9 if t.unordered => do_read(r, &mut t, true, 100),
                _ => {
                    let ordered = !t.unordered && rng.chance(if fi * 2 < frames.len() { 85 } else { 60 }, 100);
                    let max = *rng.pick(&maxes);
                    do_read(r, &mut t, ordered, max);
                }
            }
        }
    }
    if out_of_order && overlap && t.reads >= 3 && t.ended {
        r.nontrivial();
    }
}
