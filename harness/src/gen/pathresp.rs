use crate::{Rng, Runner};

pub const PATHRESP_RULE: &str = "case = up to maxops PATH_CHALLENGE arrivals (push: packet numbers increasing, repeated, reordered; remote addresses drawn from a pool of 1..40 so that both the per-remote update and the MAX_PATH_RESPONSES cap are hit; hostile stream: a new spoofed address on every packet) interleaved with pop_on_path / pop_off_path for the current, another or an unknown remote; non-trivial = the cap was reached with an update and a successful pop, or an update, an ignored older packet and both kinds of pop all occurred";

const MAX: usize = 16;

pub fn pathresp(rng: &mut Rng, r: &mut Runner, maxops: usize) {
    r.op("pathresp new");
    let pool = *rng.pick(&[1u64, 2, 3, 8, 17, 40]);
    let hostile = rng.chance(1, 4);
    let on_path = rng.below(pool);
    let mut pn: u64 = rng.below(50);
    let mut fresh = 1000u64;
    // mirror: (packet, token, remote)
    let mut q: Vec<(u64, u64, u64)> = Vec::new();
    let (mut cap, mut upd, mut old, mut pon, mut poff) = (false, false, false, false, false);
    for _ in 0..maxops {
        let c = rng.below(100);
        if c < 65 {
            let packet = match rng.below(5) {
                0 => pn,
                1 => pn.saturating_sub(rng.range(1, 5)),
                2 => rng.biased(),
                _ => {
                    pn += 1 + rng.below(3);
                    pn
                }
            };
            let remote = if hostile && rng.chance(2, 3) {
                fresh += 1;
                fresh % 65536
            } else {
                rng.below(pool)
            };
            let token = rng.next() >> rng.below(64);
            let resp = r.op(&format!("pathresp push {packet} {token} {remote}"));
            if resp == "panic" {
                r.oracle_fail("key=pathresp-panic push");
                return;
            }
            if let Some(e) = q.iter_mut().find(|e| e.2 == remote) {
                if e.0 <= packet {
                    *e = (packet, token, remote);
                    upd = true;
                } else {
                    old = true;
                }
            } else if q.len() < MAX {
                q.push((packet, token, remote));
            } else {
                cap = true;
            }
        } else if c < 82 {
            let remote = if rng.chance(2, 3) { on_path } else { rng.below(pool + 2) };
            let resp = r.op(&format!("pathresp pop_on {remote}"));
            if resp.starts_with("ok") {
                pon = true;
                q.pop();
            }
        } else if c < 97 {
            let remote = if rng.chance(2, 3) { on_path } else { rng.below(pool + 2) };
            let resp = r.op(&format!("pathresp pop_off {remote}"));
            if resp.starts_with("ok") {
                poff = true;
                q.pop();
            }
        } else {
            r.op("pathresp empty");
        }
        // oracle (the property): bounded queue, one entry per remote — read back from the implementation's state
        let last_line: String = r.out.lines().last().unwrap_or("").to_string();
        {
            let last = last_line.as_str();
            if let Some(i) = last.rfind('[') {
                let body = last[i + 1..].trim_end_matches(']');
                let entries: Vec<&str> = if body.is_empty() { vec![] } else { body.split(',').collect() };
                if entries.len() > MAX {
                    r.oracle_fail(&format!("key=pathresp-bound {} queued responses", entries.len()));
                }
                let mut remotes: Vec<&str> = entries.iter().filter_map(|e| e.rsplit(':').next()).collect();
                remotes.sort_unstable();
                let n = remotes.len();
                remotes.dedup();
                if remotes.len() != n {
                    r.oracle_fail(&format!("key=pathresp-duplicate-remote {body}"));
                }
            }
        }
        if (cap && upd && (pon || poff)) || (upd && old && pon && poff) {
            r.nontrivial();
        }
    }
}
