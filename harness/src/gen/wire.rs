use std::collections::HashSet;

use crate::{hex, Rng, Runner};

pub const VARINT_RULE: &str = "case = up to maxops encode/decode requests; values boundary-biased around 2^6/2^14/2^30/2^62, byte strings random, truncated and re-decoded encodings; non-trivial = contains a multi-byte form or an error";
pub fn varint(rng: &mut Rng, r: &mut Runner, maxops: usize) {
    for _ in 0..maxops {
        match rng.below(3) {
            0 => {
                let x = rng.biased();
                let resp = r.op(&format!("varint enc {x}"));
                // oracle (C10): decode(encode x) = x, consuming exactly the encoding
                if let Some(h) = resp.strip_prefix("ok ") {
                    let h = h.split(' ').next().unwrap().to_string();
                    if h.len() > 2 {
                        r.nontrivial();
                    }
                    let tn = rng.below(3) as usize;
                    let tail = hex(&rng.bytes(tn));
                    let tail = if tail == "-" { String::new() } else { tail };
                    let d = r.op(&format!("varint dec {h}{tail}"));
                    if d != format!("ok {x} {}", h.len() / 2) {
                        r.oracle_fail(&format!("varint roundtrip {x}: enc {h} dec -> {d}"));
                    }
                    // truncation must be an error, never a panic / wrong value
                    if h.len() > 2 {
                        let cut = 2 * rng.range(1, (h.len() / 2 - 1) as u64) as usize;
                        let d = r.op(&format!("varint dec {}", &h[..cut]));
                        if d != "err end" {
                            r.oracle_fail(&format!("truncated varint {} -> {d}", &h[..cut]));
                        }
                    }
                } else {
                    r.nontrivial();
                    if x < (1 << 62) {
                        r.oracle_fail(&format!("varint enc {x} -> {resp}"));
                    }
                }
            }
            1 => {
                let n = rng.below(10) as usize;
                let mut b = rng.bytes(n);
                if n > 0 && rng.chance(1, 2) {
                    b[0] = (b[0] & 0x3f) | ((rng.below(4) as u8) << 6);
                }
                let resp = r.op(&format!("varint dec {}", hex(&b)));
                if resp == "panic" {
                    r.oracle_fail("varint decode panicked");
                }
                r.nontrivial();
            }
            _ => {
                let x = rng.below(1 << 16);
                r.op(&format!("varint enc {x}"));
            }
        }
    }
}

pub const PN_RULE: &str = "case = PacketNumber::new(n, largest_acked) with n-la around every encoding-size boundary, then expand against every admissible receiver state class (expected in [la+1, n]) plus raw expands near window edges; non-trivial = length > 1 or window edge";
pub fn pn(rng: &mut Rng, r: &mut Runner, maxops: usize) {
    for _ in 0..maxops {
        if rng.chance(3, 4) {
            // sender/receiver pair
            let la = match rng.below(3) {
                0 => rng.below(1000),
                1 => rng.biased() >> 2,
                _ => rng.next() >> 3,
            };
            let gap = match rng.below(6) {
                0 => rng.range(1, 127),
                1 => rng.range(126, 130),
                2 => rng.range(32760, 32775),
                3 => rng.range((1 << 23) - 4, (1 << 23) + 4),
                4 => rng.range(1, 1 << 30),
                _ => rng.range((1u64 << 31) - 4, (1u64 << 31) - 1),
            };
            let n = la + gap;
            let resp = r.op(&format!("pn new {n} {la}"));
            let Some(rest) = resp.strip_prefix("ok ") else {
                if gap * 2 < (1u64 << 32) {
                    r.oracle_fail(&format!("pn new {n} {la} -> {resp}"));
                }
                r.nontrivial();
                continue;
            };
            let mut it = rest.split(' ');
            let len: usize = it.next().unwrap().parse().unwrap();
            let h = it.next().unwrap();
            if len > 1 {
                r.nontrivial();
            }
            // receiver has seen something in [la, n-1]
            for _ in 0..2 {
                let seen = match rng.below(3) {
                    0 => la,
                    1 => n - 1,
                    _ => rng.range(la, n - 1),
                };
                let d = r.op(&format!("pn expand {h} {}", seen + 1));
                if d != format!("ok {n}") {
                    r.oracle_fail(&format!(
                        "pn {n} (la {la}) sent as {h}, receiver expecting {} decoded {d}",
                        seen + 1
                    ));
                }
            }
        } else {
            // raw window-edge probing: truncated value of n against expected within the window
            let len = rng.range(1, 4) as u32;
            let win = 1u64 << (8 * len);
            let hwin = win / 2;
            let expected = match rng.below(3) {
                0 => rng.below(2 * win),
                1 => rng.biased() >> 2,
                _ => rng.next() >> 3,
            };
            let lo = expected.saturating_sub(hwin - 1);
            let hi = expected + hwin;
            let n = match rng.below(4) {
                0 => lo,
                1 => hi,
                2 => expected,
                _ => rng.range(lo, hi),
            };
            let t = n % win;
            let bytes = t.to_be_bytes();
            let h = hex(&bytes[8 - len as usize..]);
            let d = r.op(&format!("pn expand {h} {expected}"));
            r.nontrivial();
            if n < (1 << 62) && expected < n + hwin && d != format!("ok {n}") {
                r.oracle_fail(&format!("expand window: n {n} expected {expected} len {len} -> {d}"));
            }
        }
    }
}

pub const DEDUP_RULE: &str = "case = up to maxops Dedup::insert calls: increasing numbers, re-deliveries inside/at the edge of/outside the 128-wide window, jumps up to 2^40; non-trivial = at least one re-delivery and one reordering";
pub fn dedup(rng: &mut Rng, r: &mut Runner, maxops: usize) {
    let mut seen: HashSet<u64> = HashSet::new();
    let mut highest: u64 = 0;
    let mut any = false;
    let mut base = if rng.chance(1, 4) { rng.next() >> rng.range(2, 60) } else { 0 };
    let (mut redeliver, mut reorder) = (false, false);
    for _ in 0..maxops {
        let p = match rng.below(8) {
            0 | 1 => {
                base += 1;
                base
            }
            2 => {
                base += rng.range(1, 5);
                base
            }
            3 => {
                base += *rng.pick(&[126, 127, 128, 129, 130, 200, 1 << 20, 1 << 40]);
                base
            }
            4 => highest.saturating_sub(rng.below(5)),
            5 => highest.saturating_sub(rng.range(125, 132)),
            6 => highest.saturating_sub(rng.below(140)),
            _ => highest.saturating_sub(rng.below(1000)),
        };
        let resp = r.op(&format!("dedup insert {p}"));
        let dup = resp.starts_with("true");
        // oracle (C04): a number is accepted at most once; a first arrival within the window is accepted
        if !dup && seen.contains(&p) {
            r.oracle_fail(&format!("packet number {p} accepted twice"));
        }
        if dup && !seen.contains(&p) && any && highest.saturating_sub(p) <= 128 {
            r.oracle_fail(&format!("first arrival of {p} within window of {highest} rejected"));
        }
        if resp == "panic" {
            r.oracle_fail("Dedup::insert panicked");
            return;
        }
        if seen.contains(&p) {
            redeliver = true;
        }
        if any && p < highest {
            reorder = true;
        }
        seen.insert(p);
        any = true;
        highest = highest.max(p);
        base = base.max(p);
        if redeliver && reorder {
            r.nontrivial();
        }
    }
}
