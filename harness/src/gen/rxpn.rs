//! component `rxpn`: the packet number a received packet is processed under (decrypt_packet_body), C03.
//!
//! Oracle (RFC 9000 12.3 / 17.1: packet numbers are integers in 0..=2^62-1; an ACK frame carries them as
//! varints): whatever the peer puts into the truncated packet number field, a receiver whose largest
//! processed number is legal must never PROCESS a packet under a number above 2^62-1 - it could not
//! acknowledge it (`Ack::encode` -> `VarInt::from_u64(..).unwrap()`).
use crate::{hex, Rng, Runner};

pub const RXPN_RULE: &str = "case = a history of received 1-RTT packets: rx_packet starts at 0, at a multiple of the 1/2/3/4-byte window, or within 2^32 of 2^62-1; each packet carries a 1..4 byte truncated number chosen at the window edges (expected-hwin+1, expected+hwin, just above rx_packet, the largest value of the field) and rx_packet follows the accepted numbers; non-trivial = some packet advanced rx_packet by more than 2^30 or was dropped";

const V62: u64 = (1 << 62) - 1;

pub fn rxpn(rng: &mut Rng, r: &mut Runner, maxops: usize) {
    let mut rx: u64 = match rng.below(6) {
        0 => 0,
        1 => rng.below(1 << 33),
        2 => V62 - rng.below(1 << 33),
        3 => V62 - rng.below(300),
        4 => (rng.next() >> 2) & !0xffff_ffff,
        _ => rng.biased().min(V62),
    };
    let mut nontrivial = false;
    for _ in 0..maxops {
        let len = rng.range(1, 4) as u32;
        let win = 1u64 << (8 * len);
        let hwin = win / 2;
        let expected = rx + 1;
        let target = match rng.below(6) {
            0 => expected + hwin,
            1 => expected.saturating_sub(hwin - 1),
            2 => expected,
            3 => expected + rng.below(hwin),
            4 => rng.next(),
            _ => expected + hwin - rng.below(3),
        };
        let t = target % win;
        let bytes = t.to_be_bytes();
        let h = hex(&bytes[8 - len as usize..]);
        let resp = r.op(&format!("rxpn rx {h} {rx}"));
        if resp == "panic" {
            nontrivial = true;
            break;
        }
        if resp == "drop" {
            nontrivial = true;
            continue;
        }
        let Some(n) = resp.strip_prefix("ok ").and_then(|x| x.parse::<u64>().ok()) else {
            r.oracle_fail(&format!("key=rxpn-parse unparsable response {resp}"));
            break;
        };
        if rx <= V62 && n > V62 {
            r.oracle_fail(&format!(
                "key=C03-rx-packet-number-above-2^62 a packet with truncated number {h} arriving at rx_packet={rx} is processed under packet number {n} > 2^62-1 (cannot be acknowledged: Ack::encode panics)"
            ));
        }
        if n > rx {
            if n - rx > 1 << 30 {
                nontrivial = true;
            }
            rx = n;
        }
    }
    if nontrivial {
        r.nontrivial();
    }
}
