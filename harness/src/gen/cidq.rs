use crate::{hex, Rng, Runner};

pub const CIDQ_RULE: &str = "case = CidQueue::new, then up to maxops NEW_CONNECTION_ID inserts (raw `insert` or the process_payload mirror `frame`), `next`, `active`, `sent`; sequence numbers chosen relative to the current window (behind, inside, at the LEN edge, LEN+retired edge, far ahead up to 2^62-1), retire_prior_to <= sequence (0, window start, inside, = sequence), reordering and exact duplicates; 1 case in 10 starts with a hostile flood of 48..61 frames naming already retired sequence numbers while nothing is sent (queue of pending retirements must stay <= MAX_PENDING_RETIRED_CIDS + LEN - 1, then CONNECTION_ID_LIMIT_ERROR); 1 case in 6 is the MALFORMED stream (retire_prior_to > sequence, values >= 2^62 up to u64::MAX, update_initial_cid after the window moved, same sequence with different CID); non-trivial = at least one retirement via retire_prior_to, one `next` that moved, one rejected insert and one duplicate";

const LEN: u64 = 5;

fn cid_of(seq: u64, salt: u64) -> (String, String) {
    let l = 1 + ((seq ^ salt) % 3) as usize;
    let mut c = Vec::new();
    for k in 0..l {
        c.push((seq.wrapping_mul(31).wrapping_add(k as u64 * 7).wrapping_add(salt)) as u8);
    }
    let mut t = Vec::new();
    for k in 0..16u64 {
        t.push((seq.wrapping_mul(131).wrapping_add(k * 3).wrapping_add(salt)) as u8);
    }
    (hex(&c), hex(&t))
}

/// (cursor, offset, slots) from the tail of a response
fn parse_state(resp: &str) -> Option<(u64, u64, Vec<String>)> {
    let w: Vec<&str> = resp.split(' ').collect();
    if w.len() < LEN as usize + 2 {
        return None;
    }
    let t = &w[w.len() - (LEN as usize + 2)..];
    Some((t[0].parse().ok()?, t[1].parse().ok()?, t[2..].iter().map(|s| s.to_string()).collect()))
}

const MAX_PENDING_RETIRED_CIDS: usize = 50;

/// number of entries of the `[…]` list (pending.retire_cids) printed by `frame` / `sent`
fn pending_len(resp: &str) -> Option<usize> {
    let i = resp.find('[')?;
    let j = resp.find(']')?;
    let body = &resp[i + 1..j];
    Some(if body.is_empty() { 0 } else { body.split(',').count() })
}

pub fn cidq(rng: &mut Rng, r: &mut Runner, maxops: usize) {
    let malformed = rng.chance(1, 6);
    let n0 = rng.range(1, 4) as usize;
    let init = hex(&rng.bytes(n0));
    let resp = r.op(&format!("cidq new {init}"));
    let Some((mut cursor, mut offset, mut slots)) = parse_state(&resp) else {
        r.oracle_fail(&format!("key=cidq-new unexpected response {resp}"));
        return;
    };
    if rng.chance(1, 4) {
        let n1 = rng.range(0, 3) as usize;
        let c = hex(&rng.bytes(n1));
        let resp = r.op(&format!("cidq upd {c}"));
        if let Some((cu, o, sl)) = parse_state(&resp) {
            cursor = cu;
            offset = o;
            slots = sl;
        }
    }
    let server = rng.chance(1, 2);
    r.op(&format!("cidq side {}", server as u8));
    let salt = if rng.chance(1, 8) { rng.below(5) } else { 0 };
    // optional big initial jump so that arithmetic near 2^62 is exercised
    let (mut did_retire, mut did_next, mut did_reject, mut did_dup) = (false, false, false, false);
    let mut last_ok: Option<(u64, u64, String, String, String)> = None; // (seq, rpt, response, cid, token)
    let mut moved = false;
    let far = if rng.chance(1, 5) { (1u64 << 62) - 1 - rng.below(12) } else { rng.biased() >> 2 };
    let mut pending: usize = 0;
    let active_empty0 = slots.get(cursor as usize).map_or(false, |x| x.starts_with("-:"));
    if rng.chance(1, 10) && !active_empty0 {
        // hostile flood (the fixed defect "already-retired arm ignores MAX_PENDING_RETIRED_CIDS"): make CID 0 retired,
        // then repeat NEW_CONNECTION_ID frames for retired sequence numbers while nothing is sent
        let (c, t) = cid_of(1, salt);
        let resp = r.op(&format!("cidq frame 1 1 {c} {t}"));
        if let Some((cu, o, sl)) = parse_state(&resp) {
            cursor = cu;
            offset = o;
            slots = sl;
        }
        pending = pending_len(&resp).unwrap_or(0);
        let n = 48 + rng.below(14);
        for _ in 0..n {
            let seq = rng.below(offset.max(1));
            let (c, t) = cid_of(seq, salt);
            let resp = r.op(&format!("cidq frame {seq} 0 {c} {t}"));
            if resp == "panic" {
                r.oracle_fail(&format!("key=cidq-panic frame seq={seq} rpt=0 offset={offset}"));
                return;
            }
            let expect = if pending + 1 > MAX_PENDING_RETIRED_CIDS { "err CONNECTION_ID_LIMIT_ERROR too-many-retired" } else { "ok discarded" };
            if seq < offset && !resp.starts_with(expect) {
                r.oracle_fail(&format!("key=cidq-frame-decision flood seq={seq} offset={offset} pending={pending}: expected {expect}, got {resp}"));
            }
            if let Some(p) = pending_len(&resp) {
                pending = p;
            }
            if pending > MAX_PENDING_RETIRED_CIDS + LEN as usize - 1 {
                r.oracle_fail(&format!("key=cidq-retire-cids-unbounded {pending} pending RETIRE_CONNECTION_ID frames"));
                return;
            }
        }
    }
    for _ in 0..maxops {
        if offset >= (1 << 62) {
            // only reachable through the malformed stream; nothing meaningful can follow
            return;
        }
        let choice = rng.below(100);
        if choice < 62 {
            // ---- NEW_CONNECTION_ID
            let seq = match rng.below(12) {
                0 => offset.saturating_sub(rng.range(1, 3)),
                1 | 2 | 3 | 4 => offset + rng.below(LEN),
                5 => offset + LEN - 1,
                6 => offset + LEN,
                7 => offset + LEN + rng.below(LEN + 2),
                8 => offset + rng.below(3 * LEN),
                9 => far.max(offset).min((1 << 62) - 1),
                10 => (offset + rng.below(1 << 20)).min((1 << 62) - 1),
                _ => offset + 1 + rng.below(2),
            };
            let mut rpt = match rng.below(10) {
                0 | 1 | 2 | 3 => rng.below(offset + 1),
                4 => offset,
                5 => offset + 1 + rng.below(LEN),
                6 => seq,
                7 => seq.saturating_sub(rng.below(LEN + 1)),
                8 => rng.below(seq + 1),
                _ => 0,
            }
            .min(seq);
            let mut seq = seq;
            let mut valid = true;
            if malformed {
                match rng.below(8) {
                    0 => {
                        rpt = seq + 1 + rng.below(8);
                        valid = false;
                    }
                    1 => {
                        rpt = rng.biased();
                        valid = rpt <= seq;
                    }
                    2 => {
                        seq = u64::MAX - rng.below(8);
                        rpt = *rng.pick(&[0, offset, seq, u64::MAX, u64::MAX - 5]);
                        valid = false;
                    }
                    3 => {
                        seq = (1u64 << 62) + rng.below(4);
                        rpt = rng.below(seq);
                        valid = false;
                    }
                    _ => {}
                }
            }
            let dup = matches!(&last_ok, Some(_)) && rng.chance(1, 6);
            let (seq, rpt) = if dup {
                let l = last_ok.as_ref().unwrap();
                (l.0, l.1)
            } else {
                (seq, rpt)
            };
            let (mut c, mut t) = cid_of(seq, if malformed && rng.chance(1, 6) { salt + 1 } else { salt });
            if dup {
                let l = last_ok.as_ref().unwrap();
                c = l.3.clone();
                t = l.4.clone();
            }
            let via_frame = rng.chance(2, 5);
            let verb = if via_frame { "frame" } else { "insert" };
            let resp = r.op(&format!("cidq {verb} {seq} {rpt} {c} {t}"));
            if resp == "panic" {
                if valid && !moved_bad(malformed) {
                    r.oracle_fail(&format!("key=cidq-panic {verb} seq={seq} rpt={rpt} offset={offset}"));
                }
                return;
            }
            let st = parse_state(&resp);
            // ---- oracle: decision of the error class (raw insert)
            if !via_frame && valid {
                let index = seq.checked_sub(offset);
                let rc = rpt.saturating_sub(offset);
                let expect = match index {
                    None => "err retired",
                    Some(i) if i >= LEN + rc => "err limit",
                    Some(_) => "ok",
                };
                if !resp.starts_with(expect) {
                    r.oracle_fail(&format!("key=cidq-decision insert seq={seq} rpt={rpt} offset={offset}: expected {expect}, got {resp}"));
                }
                if resp.starts_with("ok") && rc > 0 {
                    // retired range starts at the old offset, is non-empty and at most LEN long
                    let w: Vec<&str> = resp.split(' ').collect();
                    let (a, b): (u64, u64) = (w[1].parse().unwrap_or(0), w[2].parse().unwrap_or(0));
                    if a != offset || b <= a || b - a > LEN {
                        r.oracle_fail(&format!("key=cidq-retired-range {resp} (offset was {offset})"));
                    }
                    // C04: the reset token reported is the one issued with the CID that is in use afterwards
                    if let Some((cu, _, sl)) = &st {
                        let act = sl.get(*cu as usize).and_then(|x| x.split(':').nth(1));
                        if act != Some(w[3]) {
                            r.oracle_fail(&format!("key=C04-reset-token-not-of-cid-in-use insert seq={seq} rpt={rpt}: reported token {} but the CID in use afterwards (slot {cu}) carries {act:?}: {resp}", w[3]));
                        }
                    }
                    did_retire = true;
                }
            }
            let active_empty = slots.get(cursor as usize).map_or(false, |x| x.starts_with("-:"));
            if via_frame && active_empty {
                if !resp.starts_with("err PROTOCOL_VIOLATION cids-not-in-use") {
                    r.oracle_fail(&format!("key=cidq-frame-decision zero-length active CID but {resp}"));
                }
            } else if via_frame && valid {
                let index = seq.checked_sub(offset);
                let rc = rpt.saturating_sub(offset);
                let expect = match index {
                    None if pending + 1 > MAX_PENDING_RETIRED_CIDS => "err CONNECTION_ID_LIMIT_ERROR too-many-retired",
                    None => "ok discarded",
                    Some(i) if i >= LEN + rc => "err CONNECTION_ID_LIMIT_ERROR limit",
                    Some(_) => "",
                };
                if !resp.starts_with(expect) {
                    r.oracle_fail(&format!("key=cidq-frame-decision seq={seq} rpt={rpt} offset={offset}: expected {expect}, got {resp}"));
                }
                if expect.is_empty() && !(resp.starts_with("ok [") || resp.starts_with("err CONNECTION_ID_LIMIT_ERROR too-many-retired")) {
                    r.oracle_fail(&format!("key=cidq-frame-decision seq={seq} rpt={rpt} offset={offset}: got {resp}"));
                }
                if rc > 0 && resp.starts_with("ok [") {
                    did_retire = true;
                }
            }
            if via_frame && !active_empty && !valid && rpt > seq && !resp.starts_with("err PROTOCOL_VIOLATION") {
                r.oracle_fail(&format!("key=cidq-frame-decision retire_prior_to {rpt} > sequence {seq} accepted: {resp}"));
            }
            if resp.starts_with("err") || resp.starts_with("ok discarded") {
                did_reject = true;
            }
            if via_frame {
                if let Some(p) = pending_len(&resp) {
                    pending = p;
                }
                // oracle (C03 "no unbounded growth"): the queue of pending RETIRE_CONNECTION_ID frames is bounded
                if valid && pending > MAX_PENDING_RETIRED_CIDS + LEN as usize - 1 {
                    r.oracle_fail(&format!("key=cidq-retire-cids-unbounded {pending} pending RETIRE_CONNECTION_ID frames"));
                }
            }
            // ---- oracle: exact duplicates are idempotent
            if dup && valid && !via_frame {
                let l = last_ok.as_ref().unwrap();
                if let Some((c0, o0, s0)) = parse_state(&l.2) {
                    if o0 == offset {
                        // nothing happened in between that moved the window
                        if let Some((c1, o1, s1)) = &st {
                            if !(resp.starts_with("ok none") && *c1 == c0 && *o1 == o0 && *s1 == s0) && !moved {
                                r.oracle_fail(&format!("key=cidq-duplicate insert seq={seq} rpt={rpt} not idempotent: before `{}` after `{resp}`", l.2));
                            }
                        }
                        did_dup = true;
                    }
                }
            }
            if let Some((cu, o, s)) = st {
                cursor = cu;
                if o < offset && valid {
                    r.oracle_fail(&format!("key=cidq-offset-decreased {offset} -> {o}"));
                }
                offset = o;
                slots = s;
            }
            if resp.starts_with("ok") && !via_frame && valid {
                last_ok = Some((seq, rpt, resp.clone(), c.clone(), t.clone()));
                moved = false;
            } else if via_frame {
                moved = true;
            }
        } else if choice < 80 {
            let resp = r.op("cidq next");
            if resp == "panic" {
                if !malformed {
                    r.oracle_fail(&format!("key=cidq-panic next offset={offset}"));
                }
                return;
            }
            let occupied = slots.iter().filter(|s| *s != "_").count();
            if let Some(rest) = resp.strip_prefix("ok ") {
                let w: Vec<&str> = rest.split(' ').collect();
                let (a, b): (u64, u64) = (w[1].parse().unwrap_or(0), w[2].parse().unwrap_or(0));
                // oracle: monotone, retires from the previous active sequence number, skips < LEN
                if !malformed && (a != offset || b <= a || b - a >= LEN) {
                    r.oracle_fail(&format!("key=cidq-next-monotone {resp} (offset was {offset})"));
                }
                if let Some((cu, _, sl)) = parse_state(&resp) {
                    let act = sl.get(cu as usize).and_then(|x| x.split(':').nth(1).map(|t| t.to_string()));
                    if act.as_deref() != Some(w[0]) {
                        r.oracle_fail(&format!("key=C04-reset-token-not-of-cid-in-use next: reported token {} but the CID in use afterwards (slot {cu}) carries {act:?}: {resp}", w[0]));
                    }
                }
                did_next = true;
                moved = true;
            } else if !malformed && occupied > 1 {
                r.oracle_fail(&format!("key=cidq-next-none with {occupied} occupied slots: {resp}"));
            }
            if let Some((cu, o, s)) = parse_state(&resp) {
                cursor = cu;
                offset = o;
                slots = s;
            }
        } else if choice < 90 {
            let resp = r.op("cidq active");
            if resp == "panic" {
                if !malformed {
                    r.oracle_fail(&format!("key=cidq-panic active offset={offset}"));
                }
                return;
            }
            if !malformed && resp.split(' ').nth(2) != Some(&offset.to_string()) {
                r.oracle_fail(&format!("key=cidq-active-seq {resp} expected seq {offset}"));
            }
        } else if choice < 97 || !malformed {
            let resp = r.op(&format!("cidq sent {}", rng.below(8)));
            if let Some(p) = pending_len(&resp) {
                pending = p;
            }
        } else {
            // caller-contract violation (not peer controlled): update_initial_cid after the window moved
            let c = hex(&rng.bytes(2));
            let resp = r.op(&format!("cidq upd {c}"));
            if resp == "panic" {
                return;
            }
            moved = true;
            if let Some((cu, o, s)) = parse_state(&resp) {
                cursor = cu;
                offset = o;
                slots = s;
            }
        }
        if did_retire && did_next && did_reject && did_dup {
            r.nontrivial();
        }
    }
}

fn moved_bad(malformed: bool) -> bool {
    malformed
}
