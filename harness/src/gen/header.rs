//! Generator for the `header` component (C10): long-form connection ids and plaintext packet headers.
use crate::{hex, Rng, Runner};

pub const HEADER_RULE: &str = "case = up to maxops steps; a step is (a) a connection id of length 0..20 -> cidenc, ciddec(enc ++ tail), oracle: same id, consumed = 1 + len; raw ciddec around the length limit 20/21 and on truncated input; (b) a header of a random kind (Initial / Handshake / 0-RTT / Retry / VN / Short; every packet-number length, spin / key-phase combination, cid lengths 0 / 20, token lengths around 63/64, versions incl. 0 and unsupported ones) -> enc, then pkt with a payload whose length is biased around the 4-byte sampling minimum and the 2^14 length limit, then dec(packet ++ second packet), oracle (header round trip + coalesce_split): the decoded plain header shows the written version / cids / token position and length / payload length, the cursor stops in front of the packet number, the first packet is exactly the encoded bytes and the remainder is exactly the second packet; (c) malformed: random bytes with a plausible first byte, truncated / bit-flipped packets, random cid-length / grease / version-list arguments, oracle: never panics. non-trivial = a long header, a coalesced remainder, or an error occurred";

fn cid(rng: &mut Rng) -> Vec<u8> {
    let n = match rng.below(5) {
        0 => 0,
        1 => 20,
        2 => 8,
        _ => rng.range(0, 20),
    };
    rng.bytes(n as usize)
}

fn hexlen(h: &str) -> usize {
    if h == "-" {
        0
    } else {
        h.len() / 2
    }
}

fn cat(a: &str, b: &str) -> String {
    match (a, b) {
        ("-", x) => x.to_string(),
        (x, "-") => x.to_string(),
        (x, y) => format!("{x}{y}"),
    }
}

fn pn(rng: &mut Rng) -> (u64, u64) {
    let l = rng.range(1, 4);
    let max = (1u64 << (8 * l)) - 1;
    let v = match rng.below(3) {
        0 => max,
        1 => 0,
        _ => rng.below(max + 1),
    };
    (l, v)
}

fn version(rng: &mut Rng) -> u64 {
    match rng.below(6) {
        0 => 1,
        1 => 0xff00_001d,
        2 => u32::MAX as u64,
        3 => 0x0a1a_2a3a,
        _ => 1,
    }
}

fn unhex(h: &str) -> Vec<u8> {
    if h == "-" {
        return Vec::new();
    }
    (0..h.len() / 2)
        .map(|i| u8::from_str_radix(&h[2 * i..2 * i + 2], 16).unwrap())
        .collect()
}

fn no_panic(r: &mut Runner, what: &str, resp: &str) {
    if resp == "panic" {
        r.oracle_fail(&format!("key=header-decoder-panic {what} panicked"));
    }
    if resp.starts_with("err") || resp == "none" {
        r.nontrivial();
    }
}

const FIRST: [u8; 20] = [
    0xc0, 0xc1, 0xc3, 0xd0, 0xd2, 0xe0, 0xe3, 0xf0, 0xff, 0x80, 0x8f, 0x40, 0x41, 0x43, 0x64, 0x7f, 0x00, 0x20, 0xa0,
    0xb0,
];

pub fn header(rng: &mut Rng, r: &mut Runner, maxops: usize) {
    let mut steps = 0;
    while steps < maxops {
        steps += 1;
        match rng.below(10) {
            0 | 1 => {
                // (a) connection ids
                if rng.chance(2, 3) {
                    let c = cid(rng);
                    let resp = r.op(&format!("header cidenc {}", hex(&c)));
                    let Some(h) = resp.strip_prefix("ok ") else {
                        r.oracle_fail(&format!("key=cid-enc cidenc {} -> {resp}", hex(&c)));
                        continue;
                    };
                    let nt = rng.below(3) as usize;
                    let tail = hex(&rng.bytes(nt));
                    let d = r.op(&format!("header ciddec {}", cat(h, &tail)));
                    if d != format!("ok {} {}", hex(&c), 1 + c.len()) {
                        r.oracle_fail(&format!("key=cid-roundtrip cid {} encoded {h} decoded `{d}`", hex(&c)));
                    }
                } else {
                    let n = rng.below(26) as usize;
                    let mut b = rng.bytes(n);
                    if n > 0 {
                        b[0] = match rng.below(4) {
                            0 => 20,
                            1 => 21,
                            2 => (n as u8).wrapping_sub(rng.below(3) as u8),
                            _ => b[0],
                        };
                    }
                    let d = r.op(&format!("header ciddec {}", hex(&b)));
                    no_panic(r, "ciddec", &d);
                }
            }
            2..=6 => {
                // (b) a header, a packet, a coalesced datagram
                let kind = rng.below(6);
                let (d, s) = (cid(rng), cid(rng));
                let (pl, pv) = pn(rng);
                let v = version(rng);
                let (text, long_with_len, pn_len) = match kind {
                    0 => {
                        let tl = *rng.pick(&[0usize, 1, 63, 64, 65, 200]);
                        let t = rng.bytes(tl);
                        (format!("initial {v} {} {} {} {pl} {pv}", hex(&d), hex(&s), hex(&t)), true, pl)
                    }
                    1 => (format!("handshake {v} {} {} {pl} {pv}", hex(&d), hex(&s)), true, pl),
                    2 => (format!("zerortt {v} {} {} {pl} {pv}", hex(&d), hex(&s)), true, pl),
                    3 => (format!("retry {v} {} {}", hex(&d), hex(&s)), false, 0),
                    4 => (
                        format!("short {} {} {} {pl} {pv}", rng.below(2), rng.below(2), hex(&d)),
                        false,
                        pl,
                    ),
                    _ => {
                        let rnd = match rng.below(3) {
                            0 => rng.below(256),
                            _ => 0x40 | rng.below(64),
                        };
                        (format!("vn {rnd} {} {}", hex(&d), hex(&s)), false, 0)
                    }
                };
                let e = r.op(&format!("header enc {text}"));
                let Some(erest) = e.strip_prefix("ok ") else {
                    r.oracle_fail(&format!("key=header-enc `{text}` -> {e}"));
                    continue;
                };
                let ew: Vec<&str> = erest.split(' ').collect();
                let header_len: usize = ew[1].parse().unwrap();
                if rng.chance(1, 4) {
                    // cut the bare header at a field boundary (in front of / inside the length field, at the
                    // end of the token, after the cids, ...)
                    let hb = unhex(ew[0]);
                    let base = header_len - pn_len as usize;
                    let cut = match rng.below(5) {
                        0 => base.saturating_sub(2),
                        1 => base.saturating_sub(1),
                        2 => base,
                        3 => base.saturating_sub(3),
                        _ => rng.below(hb.len() as u64 + 1) as usize,
                    }
                    .min(hb.len());
                    if cut > 0 {
                        let resp = r.op(&format!("header dec {} 0 {v} {}", d.len(), hex(&hb[..cut])));
                        steps += 1;
                        no_panic(r, "dec", &resp);
                    }
                }
                let plen = match rng.below(12) {
                    0 => rng.below(4),
                    1 => 4u64.saturating_sub(pn_len),
                    2 => (1 << 14) - pn_len - rng.below(2),
                    3 => (1 << 14) - pn_len + 1 - rng.below(2),
                    4 => rng.range(1000, 1400),
                    _ => rng.range(4, 64),
                } as usize;
                let payload = rng.bytes(plen);
                let p = r.op(&format!("header pkt {} {text}", hex(&payload)));
                steps += 1;
                let Some(pkt) = p.strip_prefix("ok ") else {
                    // the only legitimate panics: sampling range too short, or length >= 2^14
                    let short = kind != 3 && kind != 5 && (pn_len as usize + plen) < 4;
                    let toolong = long_with_len && pn_len as usize + plen >= 1 << 14;
                    if !(short || toolong) {
                        r.oracle_fail(&format!("key=header-pkt `{text}` payload {plen} -> {p}"));
                    }
                    r.nontrivial();
                    continue;
                };
                let pkt = pkt.to_string();
                // second (coalesced) packet
                let n2 = match rng.below(4) {
                    0 => 0,
                    1 => 1,
                    _ => rng.range(1, 40),
                } as usize;
                let p2 = hex(&rng.bytes(n2));
                let cidlen = if kind == 4 || rng.chance(1, 2) { d.len() } else { rng.below(21) as usize };
                let supported = rng.chance(5, 6);
                let versions = if supported {
                    if rng.chance(1, 2) { format!("{v}") } else { format!("7,{v},9") }
                } else if rng.chance(1, 2) {
                    "-".to_string()
                } else {
                    format!("{}", v ^ 1)
                };
                let grease = rng.below(2);
                let resp = r.op(&format!("header dec {cidlen} {grease} {versions} {}", cat(&pkt, &p2)));
                steps += 1;
                no_panic(r, "dec", &resp);
                if kind != 4 {
                    r.nontrivial();
                }
                let total = hexlen(&pkt);
                let rest = |n: usize| if n == 0 { "-".to_string() } else { n.to_string() };
                // oracles: header round trip and coalesce_split
                let expect = match kind {
                    0 | 1 | 2 if v != 0 && supported => {
                        let name = ["initial", "handshake", "zerortt"][kind as usize];
                        let len = pn_len as usize + plen;
                        let pos = header_len - pn_len as usize;
                        let mid = if kind == 0 {
                            let tl = hexlen(text.split(' ').nth(4).unwrap());
                            let tvar = if tl < 64 { 1 } else { 2 };
                            let ts = 1 + 4 + 1 + d.len() + 1 + s.len() + tvar;
                            format!("{ts} {tl} {len}")
                        } else {
                            format!("{len}")
                        };
                        Some(format!(
                            "ok {name} {v} {} {} {mid} pos={pos} len={total} rest={}",
                            hex(&d),
                            hex(&s),
                            rest(n2)
                        ))
                    }
                    3 if v != 0 && supported => Some(format!(
                        "ok retry {v} {} {} pos={header_len} len={} rest=-",
                        hex(&d),
                        hex(&s),
                        total + n2
                    )),
                    4 if cidlen == d.len() => {
                        let spin = text.split(' ').nth(1).unwrap();
                        Some(format!(
                            "ok short {spin} {} pos={} len={} rest=-",
                            hex(&d),
                            1 + d.len(),
                            total + n2
                        ))
                    }
                    5 => {
                        let rnd: u64 = text.split(' ').nth(1).unwrap().parse().unwrap();
                        if rnd < 128 && (grease == 1 || rnd & 0x40 != 0) {
                            Some(format!(
                                "ok vn {rnd} {} {} pos={header_len} len={} rest=-",
                                hex(&d),
                                hex(&s),
                                total + n2
                            ))
                        } else {
                            None
                        }
                    }
                    _ => None,
                };
                if let Some(x) = expect {
                    if resp != x {
                        r.oracle_fail(&format!(
                            "key=header-roundtrip `{text}` payload {plen} second {n2} cidlen {cidlen} grease {grease} versions {versions}: decoded `{resp}` expected `{x}`"
                        ));
                    }
                }
                if rng.chance(1, 3) {
                    let mut b = unhex(&cat(&pkt, &p2));
                    if !b.is_empty() {
                        match rng.below(3) {
                            0 => {
                                let n = rng.below(b.len().min(40) as u64) as usize;
                                b.truncate(n.max(1));
                            }
                            1 => {
                                let i = rng.below(b.len().min(30) as u64) as usize;
                                b[i] ^= 1 << rng.below(8);
                            }
                            _ => {
                                let i = rng.below(b.len().min(30) as u64) as usize;
                                b[i] = rng.next() as u8;
                            }
                        }
                        let resp = r.op(&format!("header dec {cidlen} {grease} {versions} {}", hex(&b)));
                        steps += 1;
                        no_panic(r, "dec", &resp);
                    }
                }
            }
            _ => {
                // (c) malformed from scratch
                let n = rng.range(1, 40) as usize;
                let mut b = rng.bytes(n);
                if rng.chance(5, 6) {
                    b[0] = *rng.pick(&FIRST);
                }
                if n > 5 && rng.chance(2, 3) {
                    // version 1 or 0, plausible cid length
                    b[1] = 0;
                    b[2] = 0;
                    b[3] = 0;
                    b[4] = rng.below(2) as u8;
                    b[5] = *rng.pick(&[0u8, 4, 8, 20, 21]);
                }
                let cidlen = rng.below(21);
                let versions = *rng.pick(&["1", "-", "0", "1,2", "4294967295"]);
                let resp = r.op(&format!("header dec {cidlen} {} {versions} {}", rng.below(2), hex(&b)));
                no_panic(r, "dec", &resp);
                r.nontrivial();
            }
        }
    }
}
