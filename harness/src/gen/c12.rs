//! Generators + oracles for C12: `sentpk` (SentPackets ring / PacketSpace::{sent,take} / InFlight counters)
//! and `cc` (NewReno, Cubic, BBR through the public `Controller` trait).
use std::collections::BTreeMap;

use crate::{Rng, Runner};

fn field(resp: &str, key: &str) -> Option<u64> {
    resp.split_ascii_whitespace()
        .find_map(|t| t.strip_prefix(key)?.strip_prefix('=')?.parse().ok())
}

/// `tag:size:ae:gen[:onpath]`
fn pkt(s: &str) -> Option<(u64, u64, u64, u64)> {
    let mut it = s.split_ascii_whitespace().next()?.split(':');
    Some((
        it.next()?.parse().ok()?,
        it.next()?.parse().ok()?,
        it.next()?.parse().ok()?,
        it.next()?.parse().ok()?,
    ))
}

fn size(rng: &mut Rng) -> u64 {
    match rng.below(8) {
        0 => 0,
        1 => 1,
        2 => 65535,
        3 => rng.range(1, 65535),
        4 => 1200,
        _ => rng.range(20, 1500),
    }
}

pub const SENTPK_RULE: &str = "case = one of: (A) disciplined accounting history over the 3 spaces (increasing packet numbers with skips, sizes incl. 0 and 65535, ack/lost of tracked outstanding sets, discard, queries) with the conservation ledger kept by the generator; (B) raw ring ops against a reference BTreeMap (insert with gaps, remove present/absent/outside, get, range with incl/excl/unbounded bounds, values, dump); (C) > 1000 non-ack-eliciting packets in a row (forgotten tail) interleaved with acks; (D) malformed: non-monotone numbers, foreign path generations, raw and accounting ops mixed, bad tokens. Non-trivial = a hole was created and the front reclaimed, or a packet was forgotten, or a non-empty space was discarded, or a panic/bad-op was provoked";

#[derive(Default)]
struct Ledger {
    sent_b: u64,
    sent_a: u64,
    res_b: u64,
    res_a: u64,
    /// (space, pn) -> (size, ae)
    out: BTreeMap<(u64, u64), (u64, u64)>,
}

impl Ledger {
    fn check(&self, r: &mut Runner, resp: &str, what: &str) {
        let (Some(b), Some(a)) = (field(resp, "b"), field(resp, "a")) else {
            return;
        };
        // conservation: bytes sent = acked + lost + abandoned + in flight (same for the count)
        if self.sent_b != self.res_b + b || self.sent_a != self.res_a + a {
            r.oracle_fail(&format!(
                "key=C12-in-flight-imbalance after {what}: sent {}B/{} resolved {}B/{} in_flight {}B/{}",
                self.sent_b, self.sent_a, self.res_b, self.res_a, b, a
            ));
        }
        let ob: u64 = self.out.values().map(|v| v.0).sum();
        let oa: u64 = self.out.values().map(|v| v.1).sum();
        if ob != b || oa != a {
            r.oracle_fail(&format!(
                "key=C12-in-flight-not-outstanding after {what}: outstanding {ob}B/{oa} in_flight {b}B/{a}"
            ));
        }
        if self.out.is_empty() && (b != 0 || a != 0) {
            r.oracle_fail(&format!(
                "key=C12-in-flight-nonzero-when-all-resolved after {what}: {b}B/{a}"
            ));
        }
    }

    /// a packet came back from the accounting (acked, lost, abandoned or forgotten)
    fn resolve(&mut self, r: &mut Runner, sp: u64, s: &str, what: &str) {
        let Some((tag, sz, ae, _)) = pkt(s) else {
            r.oracle_fail(&format!("key=C12-bad-response {what}: {s}"));
            return;
        };
        match self.out.remove(&(sp, tag)) {
            Some((osz, oae)) if osz == sz && oae == ae => {
                self.res_b += sz;
                self.res_a += ae;
            }
            Some(o) => r.oracle_fail(&format!(
                "key=C12-wrong-packet-returned {what}: pn {tag} sent as {o:?} came back as {s}"
            )),
            None => r.oracle_fail(&format!(
                "key=C12-packet-resolved-twice {what}: pn {tag} in space {sp} is not outstanding"
            )),
        }
    }
}

pub fn sentpk(rng: &mut Rng, r: &mut Runner, maxops: usize) {
    match rng.below(20) {
        0..=9 => sentpk_accounting(rng, r, maxops, false),
        10..=14 => sentpk_ring(rng, r, maxops),
        15..=17 => sentpk_accounting(rng, r, maxops, true),
        _ => sentpk_malformed(rng, r, maxops),
    }
}

fn sentpk_accounting(rng: &mut Rng, r: &mut Runner, maxops: usize, tail: bool) {
    let mut l = Ledger::default();
    let mut next = [0u64; 3];
    for n in next.iter_mut() {
        if rng.chance(1, 3) {
            let sh = rng.range(1, 40);
            *n = rng.below(1 << sh);
        }
    }
    let mut last_off = [0u64; 3];
    let (mut hole, mut reclaimed) = (false, false);
    let spaces: &[u64] = if rng.chance(1, 2) { &[2] } else { &[0, 1, 2] };
    let mut burst_done = false;
    // caller discipline (see Props/C12 `Disc`): tail counter above the limit when the space was emptied
    let mut dead = [false; 3];
    for step in 0..maxops {
        let sp = *rng.pick(spaces);
        let spi = sp as usize;
        let outs: Vec<u64> = l.out.keys().filter(|k| k.0 == sp).map(|k| k.1).collect();
        let choice = rng.below(20);
        if tail && !burst_done && !dead[spi] && (step == maxops / 3 || choice == 0) {
            // long run of non-ack-eliciting packets: 1001 stay, the older ones are forgotten
            burst_done = true;
            let n = rng.range(995, 1010);
            let sz = if rng.chance(1, 4) { 0 } else { rng.range(1, 100) };
            let start = next[spi] + rng.below(2);
            let resp = r.op(&format!("sentpk burst {sp} {start} {n} {sz} 0"));
            if !resp.starts_with("ok ") {
                r.oracle_fail(&format!("key=C12-accounting-panic burst -> {resp}"));
                return;
            }
            next[spi] = start + n;
            let w: Vec<&str> = resp.split(' ').collect();
            let (k, b): (u64, u64) = (w[1].parse().unwrap(), w[2].parse().unwrap());
            l.sent_b += n * sz;
            if k > 0 {
                r.nontrivial();
            }
            // which packets were forgotten: ask the ring what is still there
            let resp2 = r.op(&format!("sentpk range {sp} i{start} u"));
            let mut present = 0u64;
            if let Some(items) = resp2.strip_prefix("ok ") {
                for it in items.split(',').filter(|x| *x != "-") {
                    let p: u64 = it.split('=').next().unwrap().parse().unwrap();
                    l.out.insert((sp, p), (sz, 0));
                    present += 1;
                }
            }
            let (mut gone, mut gone_b) = (n - present, (n - present) * sz);
            for p in outs.iter() {
                if r.op(&format!("sentpk get {sp} {p}")) == "none" {
                    let (osz, oae) = l.out.remove(&(sp, *p)).unwrap();
                    gone += 1;
                    gone_b += osz;
                    l.res_a += oae;
                    if oae != 0 {
                        r.oracle_fail(&format!("key=C12-ack-eliciting-packet-forgotten pn {p}"));
                    }
                }
            }
            l.res_b += gone_b;
            if (k, b) != (gone, gone_b) {
                r.oracle_fail(&format!(
                    "key=C12-forgotten-mismatch burst reported {k} packets/{b}B forgotten, ring lost {gone}/{gone_b}B"
                ));
            }
            l.check(r, &resp, "burst");
            continue;
        }
        match choice {
            0..=7 => {
                let p = next[spi] + if rng.chance(1, 5) { rng.range(1, 3) } else { 0 };
                let (sz, ae) = (size(rng), if dead[spi] { 1 } else { rng.below(2) });
                dead[spi] = false;
                // ack-eliciting packets always count towards bytes in flight
                let sz = if ae == 1 && sz == 0 { 1200 } else { sz };
                let resp = r.op(&format!("sentpk sent {sp} {p} {sz} {ae} 0"));
                if !resp.starts_with("ok ") {
                    r.oracle_fail(&format!("key=C12-accounting-panic sent {p} -> {resp}"));
                    return;
                }
                next[spi] = p + 1;
                l.sent_b += sz;
                l.sent_a += ae;
                l.out.insert((sp, p), (sz, ae));
                let fg = resp.split(' ').nth(1).unwrap().strip_prefix("fg=").unwrap().to_string();
                if fg != "-" {
                    r.nontrivial();
                    for s in fg.split(',') {
                        l.resolve(r, sp, s, "forgotten");
                    }
                }
                l.check(r, &resp, "sent");
            }
            8..=13 if !outs.is_empty() => {
                let op = if rng.chance(2, 3) { "ack" } else { "lost" };
                let k = 1 + rng.below(4.min(outs.len() as u64)) as usize;
                let mut pns: Vec<u64> = Vec::new();
                for _ in 0..k {
                    let p = match rng.below(4) {
                        0 => outs[0],
                        1 => *outs.last().unwrap(),
                        _ => *rng.pick(&outs),
                    };
                    if !pns.contains(&p) {
                        pns.push(p);
                    }
                }
                // a duplicate / never-sent number now and then: must come back as `_`
                let bogus = if rng.chance(1, 6) {
                    let b = match rng.below(3) {
                        0 => next[spi] + rng.below(3),
                        1 => outs[0].saturating_sub(1 + rng.below(3)),
                        _ => rng.range(outs[0], *outs.last().unwrap()),
                    };
                    (!l.out.contains_key(&(sp, b)) && !pns.contains(&b)).then_some(b)
                } else {
                    None
                };
                if let Some(b) = bogus {
                    pns.push(b);
                }
                let line = format!(
                    "sentpk {op} {sp} {}",
                    pns.iter().map(|p| p.to_string()).collect::<Vec<_>>().join(" ")
                );
                let resp = r.op(&line);
                if !resp.starts_with("ok ") {
                    r.oracle_fail(&format!("key=C12-accounting-panic {line} -> {resp}"));
                    return;
                }
                let items: Vec<&str> = resp.split(' ').nth(1).unwrap().split(',').collect();
                for (p, it) in pns.iter().zip(items.iter()) {
                    if Some(*p) == bogus {
                        if *it != "_" {
                            r.oracle_fail(&format!(
                                "key=C12-packet-resolved-twice {op} of non-outstanding {p} returned {it}"
                            ));
                        }
                    } else if *it == "_" {
                        r.oracle_fail(&format!(
                            "key=C12-outstanding-packet-missing {op} {p} returned nothing"
                        ));
                    } else {
                        l.resolve(r, sp, it, op);
                    }
                }
                if l.out.keys().any(|k| k.0 == sp) {
                    hole = true;
                }
                if let Some(o) = field(&resp, "o") {
                    if hole && o != last_off[spi] {
                        reclaimed = true;
                    }
                    last_off[spi] = o;
                }
                l.check(r, &resp, op);
            }
            14 => {
                let resp = r.op(&format!("sentpk discard {sp}"));
                if !resp.starts_with("ok ") {
                    r.oracle_fail(&format!("key=C12-accounting-panic discard -> {resp}"));
                    return;
                }
                let items = resp.split(' ').nth(1).unwrap().to_string();
                if items != "-" {
                    r.nontrivial();
                    for s in items.split(',') {
                        l.resolve(r, sp, s, "discard");
                    }
                }
                if field(&resp, "t").unwrap_or(0) > 1000 {
                    dead[spi] = true;
                }
                if l.out.keys().any(|k| k.0 == sp) {
                    r.oracle_fail("key=C12-discard-left-packets discard did not return every outstanding packet");
                }
                l.check(r, &resp, "discard");
            }
            15 | 16 => {
                let p = if outs.is_empty() || rng.chance(1, 3) {
                    next[spi].saturating_sub(rng.below(5))
                } else {
                    *rng.pick(&outs)
                };
                let resp = r.op(&format!("sentpk get {sp} {p}"));
                let want = l.out.get(&(sp, p));
                match (want, resp.strip_prefix("some ")) {
                    (None, None) => {}
                    (Some(w), Some(s)) if pkt(s).map(|x| (x.1, x.2)) == Some(*w) => {}
                    _ => r.oracle_fail(&format!("key=C12-ring-not-a-map get {p}: want {want:?} got {resp}")),
                }
            }
            17 => {
                let resp = r.op(&format!("sentpk hif {sp}"));
                let want = l.out.iter().any(|(k, v)| k.0 == sp && v.0 != 0);
                if resp != want.to_string() {
                    r.oracle_fail(&format!("key=C12-has-in-flight-wrong want {want} got {resp}"));
                }
            }
            18 => {
                let (lo, hi) = bounds(rng, outs.first().copied().unwrap_or(next[spi]), next[spi]);
                let resp = r.op(&format!("sentpk range {sp} {lo} {hi}"));
                check_range(r, &resp, &lo, &hi, l.out.iter().filter(|(k, _)| k.0 == sp).map(|(k, v)| (k.1, v.0)));
            }
            _ => {
                r.op(&format!("sentpk dump {sp}"));
            }
        }
        if hole && reclaimed {
            r.nontrivial();
        }
    }
    // everything still outstanding is finally acknowledged: bytes in flight must return to zero
    for sp in 0..3u64 {
        let outs: Vec<u64> = l.out.keys().filter(|k| k.0 == sp).map(|k| k.1).collect();
        for chunk in outs.chunks(60) {
            let line = format!(
                "sentpk ack {sp} {}",
                chunk.iter().map(|p| p.to_string()).collect::<Vec<_>>().join(" ")
            );
            let resp = r.op(&line);
            let Some(rest) = resp.strip_prefix("ok ") else {
                r.oracle_fail(&format!("key=C12-accounting-panic {line} -> {resp}"));
                return;
            };
            for it in rest.split(' ').next().unwrap().split(',') {
                if it == "_" {
                    r.oracle_fail("key=C12-outstanding-packet-missing final ack returned nothing");
                } else {
                    l.resolve(r, sp, it, "final ack");
                }
            }
            l.check(r, &resp, "final ack");
        }
    }
    let resp = r.op("sentpk dump 2");
    if l.out.is_empty() && !(resp.contains("b=") || resp.starts_with("ok o=")) {
        r.oracle_fail(&format!("key=C12-bad-response dump -> {resp}"));
    }
}

fn bounds(rng: &mut Rng, lo: u64, hi: u64) -> (String, String) {
    let one = |rng: &mut Rng| {
        let v = match rng.below(5) {
            0 => lo.saturating_sub(rng.below(3)),
            1 => hi + rng.below(3),
            2 => rng.biased(),
            _ => rng.range(lo.min(hi), hi.max(lo)),
        };
        match rng.below(5) {
            0 => "u".to_string(),
            1 | 2 => format!("i{v}"),
            _ => format!("e{v}"),
        }
    };
    (one(rng), one(rng))
}

fn in_bounds(p: u64, lo: &str, hi: &str) -> bool {
    let lo_ok = match lo.as_bytes()[0] {
        b'u' => true,
        b'i' => p >= lo[1..].parse::<u64>().unwrap(),
        _ => p > lo[1..].parse::<u64>().unwrap(),
    };
    let hi_ok = match hi.as_bytes()[0] {
        b'u' => true,
        b'i' => p <= hi[1..].parse::<u64>().unwrap(),
        _ => p < hi[1..].parse::<u64>().unwrap(),
    };
    lo_ok && hi_ok
}

/// iteration = ascending filter of the map
fn check_range(r: &mut Runner, resp: &str, lo: &str, hi: &str, map: impl Iterator<Item = (u64, u64)>) {
    let want: Vec<(u64, u64)> = map.filter(|(p, _)| in_bounds(*p, lo, hi)).collect();
    let Some(items) = resp.strip_prefix("ok ") else {
        r.oracle_fail(&format!("key=C12-range-panic range {lo} {hi} -> {resp}"));
        return;
    };
    let got: Vec<(u64, u64)> = items
        .split(',')
        .filter(|x| *x != "-")
        .filter_map(|it| {
            let (p, v) = it.split_once('=')?;
            Some((p.parse().ok()?, pkt(v)?.1))
        })
        .collect();
    if got != want {
        r.oracle_fail(&format!(
            "key=C12-ring-not-a-map range {lo} {hi}: want {want:?} got {got:?}"
        ));
    }
}

fn sentpk_ring(rng: &mut Rng, r: &mut Runner, maxops: usize) {
    let sp = rng.below(3);
    let mut map: BTreeMap<u64, (u64, u64)> = BTreeMap::new();
    let mut next = if rng.chance(1, 2) { 0 } else { rng.biased() >> 3 };
    let (mut hole, mut reclaimed) = (false, false);
    let mut last_off = None;
    for _ in 0..maxops {
        match rng.below(12) {
            0..=3 => {
                let gap = match rng.below(6) {
                    0 => rng.range(1, 4),
                    1 => rng.range(5, 40),
                    _ => 0,
                };
                let p = next + gap;
                let (sz, ae) = (size(rng), rng.below(2));
                let resp = r.op(&format!("sentpk rinsert {sp} {p} {sz} {ae} 0"));
                if !resp.starts_with("ok ") {
                    r.oracle_fail(&format!("key=C12-ring-panic rinsert {p} -> {resp}"));
                    return;
                }
                map.insert(p, (sz, ae));
                next = p + 1;
                let want = map.values().filter(|v| v.0 != 0).count() as u64;
                if field(&resp, "f") != Some(want) {
                    r.oracle_fail(&format!("key=C12-has-in-flight-wrong after insert: want {want}: {resp}"));
                }
            }
            4..=6 => {
                let p = match rng.below(6) {
                    0 => next + rng.below(3),
                    1 => map.keys().next().copied().unwrap_or(0).saturating_sub(1 + rng.below(2)),
                    2 => map.keys().next().copied().unwrap_or(0),
                    3 => rng.range(map.keys().next().copied().unwrap_or(0), next),
                    _ => {
                        let ks: Vec<u64> = map.keys().copied().collect();
                        if ks.is_empty() { next } else { *rng.pick(&ks) }
                    }
                };
                let resp = r.op(&format!("sentpk rremove {sp} {p}"));
                let want = map.remove(&p);
                match (want, resp.strip_prefix("some ")) {
                    (None, None) if resp.starts_with("none ") => {}
                    (Some(w), Some(s)) if pkt(s).map(|x| (x.0, x.1, x.2)) == Some((p, w.0, w.1)) => {
                        if !map.is_empty() {
                            hole = true;
                        }
                    }
                    _ => r.oracle_fail(&format!("key=C12-ring-not-a-map rremove {p}: want {want:?} got {resp}")),
                }
                // remove then get = none
                let g = r.op(&format!("sentpk get {sp} {p}"));
                if g != "none" {
                    r.oracle_fail(&format!("key=C12-ring-not-a-map get after remove {p} -> {g}"));
                }
                if let Some(o) = field(&resp, "o") {
                    if hole && last_off.is_some() && last_off != Some(o) {
                        reclaimed = true;
                    }
                    last_off = Some(o);
                }
                let wantf = map.values().filter(|v| v.0 != 0).count() as u64;
                if field(&resp, "f") != Some(wantf) {
                    r.oracle_fail(&format!("key=C12-has-in-flight-wrong after remove: want {wantf}: {resp}"));
                }
            }
            7 | 8 => {
                let p = if rng.chance(1, 2) && !map.is_empty() {
                    let ks: Vec<u64> = map.keys().copied().collect();
                    *rng.pick(&ks)
                } else {
                    rng.range(map.keys().next().copied().unwrap_or(0).saturating_sub(2), next + 2)
                };
                let resp = r.op(&format!("sentpk get {sp} {p}"));
                let want = map.get(&p);
                match (want, resp.strip_prefix("some ")) {
                    (None, None) => {}
                    (Some(w), Some(s)) if pkt(s).map(|x| (x.0, x.1, x.2)) == Some((p, w.0, w.1)) => {}
                    _ => r.oracle_fail(&format!("key=C12-ring-not-a-map get {p}: want {want:?} got {resp}")),
                }
            }
            9 | 10 => {
                let (lo, hi) = bounds(rng, map.keys().next().copied().unwrap_or(next), next);
                let resp = r.op(&format!("sentpk range {sp} {lo} {hi}"));
                check_range(r, &resp, &lo, &hi, map.iter().map(|(k, v)| (*k, v.0)));
            }
            _ => {
                let resp = r.op(&format!("sentpk {} {sp}", if rng.chance(1, 2) { "values" } else { "dump" }));
                if resp.starts_with("ok ") && !resp.starts_with("ok o=") {
                    let got: Vec<u64> = resp[3..].split(',').filter(|x| *x != "-").filter_map(|s| pkt(s).map(|x| x.0)).collect();
                    let want: Vec<u64> = map.keys().copied().collect();
                    if got != want {
                        r.oracle_fail(&format!("key=C12-ring-not-a-map values: want {want:?} got {got:?}"));
                    }
                }
            }
        }
        if hole && reclaimed {
            r.nontrivial();
        }
    }
}

fn sentpk_malformed(rng: &mut Rng, r: &mut Runner, maxops: usize) {
    let mut hi = 0u64;
    for _ in 0..maxops {
        let sp = rng.below(3);
        let p = match rng.below(5) {
            0 => rng.biased(),
            1 => hi.saturating_sub(rng.below(4)),
            _ => {
                hi += rng.below(4);
                hi
            }
        };
        let g = if rng.chance(1, 3) { rng.below(3) } else { 0 };
        let line = match rng.below(14) {
            0 | 1 => format!("sentpk sent {sp} {p} {} {} {g}", size(rng), rng.below(2)),
            2 => format!("sentpk rinsert {sp} {p} {} {} {g}", size(rng), rng.below(2)),
            3 | 4 => format!("sentpk ack {sp} {p} {}", hi.saturating_sub(rng.below(6))),
            5 => format!("sentpk lost {sp} {p}"),
            6 => format!("sentpk rremove {sp} {p}"),
            7 => format!("sentpk discard {sp}"),
            8 => {
                let (lo, hi) = bounds(rng, p, hi);
                format!("sentpk range {sp} {lo} {hi}")
            }
            9 => format!("sentpk get {sp} {p}"),
            10 => format!("sentpk dump {sp}"),
            11 => format!("sentpk burst {sp} {p} {} {} {g}", rng.below(40), rng.below(3)),
            12 => format!("sentpk sent {sp} {p} {} 2 0", rng.biased()),
            _ => format!("sentpk {} {sp} {p}", rng.pick(&["ack", "frob", "sent", "range", "burst"])),
        };
        let resp = r.op(&line);
        if resp == "panic" || resp == "bad-op" {
            r.nontrivial();
        }
    }
}

// ------------------------------------------------------------------------------------------------
// cc: NewReno / Cubic / BBR through the Controller trait

pub const CC_RULE: &str = "case = one controller (reno/cubic/bbr, default config, ANY initial mtu 0..=65535, boundary-biased around initial_window/2 and initial_window/4) driven by a history of on_sent/on_ack/on_end_acks/on_congestion_event(persistent?, ecn?)/on_spurious_congestion_event/on_mtu_update with monotone timestamps (steps 0 ns .. 100 s, boundary-biased), acks of previously sent packets, byte counts from 0 to 2^64-1 for reno/cubic (overflow panics are modelled) and up to 2^20 for bbr, MTU changes over the whole u16 range; window() is read after every call and must be >= 2*mtu (the property text). Float-derived values are obtained off the record (`cc peek`) and passed as observed inputs. 1 case in 8 is 'wild' (non-monotone times, arbitrary values, no oracle). Non-trivial = a congestion event took effect and the MTU changed, and cubic reached congestion avoidance / bbr left STARTUP or entered recovery";

fn peek_obs(r: &mut Runner, line: &str, bbr: bool) -> String {
    let rest = line.strip_prefix("cc ").unwrap();
    let resp = r.ex.exec(&format!("cc peek {rest}"));
    let obs = resp.strip_prefix("obs").unwrap_or("").trim().to_string();
    if obs.split(' ').any(|t| t == "panic=1") {
        if bbr {
            return "panic=1".into();
        }
        // reno/cubic: the model predicts the panic itself
        return obs.split(' ').filter(|t| *t != "panic=1").collect::<Vec<_>>().join(" ");
    }
    obs
}

/// issue one recorded request, with the observed values appended
fn cc_op(r: &mut Runner, line: &str, bbr: bool) -> String {
    let obs = peek_obs(r, line, bbr);
    if obs.is_empty() {
        r.op(line)
    } else {
        r.op(&format!("{line} {obs}"))
    }
}

struct CcOracle {
    kind: &'static str,
    mtu: u64,
    /// bbr: an MTU increase happened while recovery_state != NotInRecovery (and recovery has not ended)
    raised_in_recovery: bool,
    enabled: bool,
}

impl CcOracle {
    /// the property itself: "never report a window below two datagrams"
    /// returns false when `window()` itself panicked (bbr: overflow inside the opaque bdp computation)
    fn check(&mut self, r: &mut Runner, state: &str, after: &str) -> bool {
        let resp = cc_op(r, "cc window", self.kind == "bbr");
        if resp == "panic" {
            return false;
        }
        if !self.enabled {
            return true;
        }
        let Some(w) = resp.strip_prefix("ok ").and_then(|w| w.parse::<u64>().ok()) else {
            return true;
        };
        if self.kind == "bbr" {
            if field(state, "rs") == Some(0) {
                self.raised_in_recovery = false;
            }
        }
        if w < 2 * self.mtu {
            let f7 = self.kind == "bbr"
                && self.raised_in_recovery
                && field(state, "rs").is_some_and(|rs| rs != 0)
                && field(state, "rw") == Some(w);
            let key = if f7 {
                "F7-bbr-window-below-two-datagrams-after-mtu-increase".to_string()
            } else {
                format!("C12-{}-window-below-two-datagrams", self.kind)
            };
            // the recorded finding is reported once per run; anything else every time
            if !(f7 && r.oracle_failures.iter().any(|f| f.contains(&key))) {
                r.oracle_fail(&format!(
                    "key={key} window() = {w} < 2*{} after `{after}` [{state}]",
                    self.mtu
                ));
            }
        }
        true
    }
}

fn step_ns(rng: &mut Rng) -> u64 {
    match rng.below(10) {
        0 => 0,
        1 => 1,
        2 => rng.range(1, 999),
        3 => rng.range(1_000, 999_999),
        4 | 5 => rng.range(1_000_000, 50_000_000),
        6 | 7 => rng.range(50_000_000, 400_000_000),
        8 => rng.range(400_000_000, 11_000_000_000),
        _ => rng.range(1, 100_000_000_000),
    }
}

fn pick_mtu(rng: &mut Rng) -> u64 {
    match rng.below(8) {
        0 => 1200,
        1 => rng.range(1200, 1500),
        2 => rng.range(1500, 9000),
        3 => 9000,
        4 => 65535,
        5 => rng.range(0, 1199),
        _ => rng.range(1200, 65535),
    }
}

/// the F7 history of /verif/corpus/cc/F7.ops (= `QM.Controllers.f7Witness`), run through the oracle
const F7_WITNESS: [&str; 12] = [
    "cc new bbr 1200",
    "cc sent 0 1200 1",
    "cc sent 1000000 1200 2",
    "cc ack 50000000 0 1200 0 50000000",
    "cc ack 51000000 1000000 1200 0 50000000",
    "cc endacks 51000000 0 0 2",
    "cc sent 60000000 1200 3",
    "cc cong 100000000 60000000 0 0 1200",
    "cc sent 110000000 1200 4",
    "cc ack 300000000 110000000 1200 0 50000000",
    "cc endacks 300000000 0 0 4",
    "cc mtu 9000",
];

fn cc_f7_witness(r: &mut Runner) {
    let mut o = CcOracle { kind: "bbr", mtu: 1200, raised_in_recovery: false, enabled: true };
    let mut state = String::new();
    for line in F7_WITNESS {
        let before = state.clone();
        let resp = if line.starts_with("cc new") { r.op(line) } else { cc_op(r, line, true) };
        state = resp.strip_prefix("ok ").unwrap_or("").to_string();
        if let Some(m) = line.strip_prefix("cc mtu ") {
            let m: u64 = m.parse().unwrap();
            if m > o.mtu && field(&before, "rs").is_some_and(|rs| rs != 0) {
                o.raised_in_recovery = true;
            }
            o.mtu = m;
        }
        o.check(r, &state.clone(), line);
    }
    r.nontrivial();
}

pub fn cc(rng: &mut Rng, r: &mut Runner, maxops: usize) {
    if rng.chance(1, 64) {
        // replay of the recorded witness (what prints the KNOWN-FINDING line even on tiny budgets)
        cc_f7_witness(r);
        return;
    }
    let kind = *rng.pick(&["reno", "cubic", "cubic", "bbr", "bbr", "bbr"]);
    let bbr = kind == "bbr";
    let wild = rng.chance(1, 8);
    // the constructors clamp the initial window to the minimum window: every initial MTU is fair game
    let mtu0 = match rng.below(6) {
        0 => rng.below(65536),
        1 => *rng.pick(&[5999, 6000, 6001, 59999, 60000, 60001, 65535, 0, 1]),
        2 => rng.range(6000, 65535),
        _ => {
            let x = rng.range(1200, 6000);
            *rng.pick(&[1200, 1200, 1280, 1452, 1500, 9000, x])
        }
    };
    let mut o = CcOracle { kind, mtu: mtu0, raised_in_recovery: false, enabled: !wild };
    let mut state = r.op(&format!("cc new {kind} {mtu0}"));
    o.check(r, &state.clone(), "new");
    let mut now: u64 = 0;
    let mut pn: u64 = rng.below(3);
    // (packet number, time sent, bytes) not yet acked or lost
    let mut flight: Vec<(u64, u64, u64)> = Vec::new();
    let mut acked_in_batch: Option<u64> = None;
    let (mut cong_effect, mut mtu_changed, mut deep) = (false, false, false);
    let big = |rng: &mut Rng| -> u64 {
        if bbr {
            match rng.below(4) {
                0 => rng.below(1 << 20),
                1 => 0,
                _ => rng.range(40, 1500),
            }
        } else {
            match rng.below(6) {
                0 => rng.biased(),
                1 => rng.next() >> rng.below(64),
                2 => u64::MAX - rng.below(3),
                _ => rng.range(1, 70_000),
            }
        }
    };
    for _ in 0..maxops {
        if wild {
            now = if rng.chance(1, 4) { rng.below(1 << 62) } else { now.saturating_add(step_ns(rng)) % (1 << 62) };
        } else {
            now = (now + step_ns(rng)).min((1 << 61) - 1);
        }
        let choice = rng.below(if bbr { 22 } else { 18 });
        let line = match choice {
            0..=4 => {
                pn += 1 + rng.below(2);
                let b = if rng.chance(3, 4) { o.mtu.max(1) } else { big(rng) };
                flight.push((pn, now, b));
                format!("cc sent {now} {b} {pn}")
            }
            5..=9 => {
                let (p, sent, b) = if !flight.is_empty() && !wild {
                    let i = if rng.chance(2, 3) { 0 } else { rng.below(flight.len() as u64) as usize };
                    flight.remove(i)
                } else {
                    (pn, if wild { rng.below(1 << 62) } else { now.saturating_sub(step_ns(rng)) }, big(rng))
                };
                acked_in_batch = Some(acked_in_batch.map_or(p, |a| a.max(p)));
                let b = if rng.chance(1, 6) { big(rng) } else { b };
                let rtt = match rng.below(4) {
                    0 => now.saturating_sub(sent),
                    1 => rng.range(0, 2_000_000),
                    2 => rng.range(1_000_000, 500_000_000),
                    _ => rng.range(0, 10_000_000_000),
                };
                format!("cc ack {now} {sent} {b} {} {rtt}", u8::from(rng.chance(1, 8)))
            }
            10..=12 => {
                let (sent, lost) = if !flight.is_empty() && rng.chance(3, 4) {
                    let i = rng.below(flight.len() as u64) as usize;
                    let (_, t, b) = flight.remove(i);
                    (t, b)
                } else {
                    (if wild { rng.below(1 << 62) } else { now.saturating_sub(step_ns(rng)) }, big(rng))
                };
                let ecn = rng.chance(1, 4);
                format!(
                    "cc cong {now} {sent} {} {} {}",
                    u8::from(rng.chance(1, 5)),
                    u8::from(ecn),
                    if ecn { 0 } else { lost }
                )
            }
            13 if kind == "cubic" && field(&state, "w") >= field(&state, "ss") && !wild => {
                // cubic in congestion avoidance: aim at the `cwnd_inc >= current_mtu` boundary. Ask (off the
                // record) what the next ack would add to the credit, make the MTU equal to the resulting
                // credit, then send that ack.
                let sent = now.saturating_sub(rng.below(1000));
                let ack = format!("cc ack {now} {sent} 1200 0 {}", rng.range(1_000_000, 100_000_000));
                // the increment depends on the MTU itself (cubic_inc and w_est scale with it): iterate
                for _ in 0..6 {
                    let obs = peek_obs(r, &ack, false);
                    let get = |k: &str| field(&obs, k);
                    let (w, inc) = (field(&state, "w").unwrap_or(0), field(&state, "inc").unwrap_or(0));
                    let cc = match (get("lt"), get("west"), get("wcubic"), get("inc")) {
                        (Some(1), Some(west), _, _) => w.max(west),
                        (Some(0), _, Some(wc), Some(i)) if w < wc => w.saturating_add(i),
                        _ => w,
                    };
                    let target = inc.saturating_add(cc - w);
                    if target == o.mtu || !(1..=65535).contains(&target) || 2 * target > w {
                        break;
                    }
                    let m = format!("cc mtu {target}");
                    let resp = cc_op(r, &m, false);
                    let Some(st) = resp.strip_prefix("ok ") else { break };
                    state = st.to_string();
                    mtu_changed = true;
                    o.mtu = target;
                    if !o.check(r, &state.clone(), &m) {
                        return;
                    }
                }
                ack
            }
            13 | 14 => format!("cc mtu {}", pick_mtu(rng)),
            15 => "cc spurious".to_string(),
            16 => format!("cc mtu {}", if rng.chance(1, 2) { o.mtu + rng.below(3) } else { o.mtu.saturating_sub(rng.below(3)) }.min(65535)),
            _ => {
                // on_end_acks closes a batch of acks (every controller gets the call; only bbr acts on it)
                let inflight: u64 = match rng.below(4) {
                    0 => flight.iter().map(|f| f.2).fold(0u64, |a, b| a.saturating_add(b)),
                    1 => rng.below(o.mtu.max(1) * 3),
                    2 => 0,
                    _ => big(rng),
                };
                let largest = match acked_in_batch.take() {
                    Some(p) if rng.chance(7, 8) => p.to_string(),
                    _ if rng.chance(1, 2) => "-".to_string(),
                    _ => pn.saturating_sub(rng.below(3)).to_string(),
                };
                format!("cc endacks {now} {inflight} {} {largest}", u8::from(rng.chance(1, 10)))
            }
        };
        let before = state.clone();
        let resp = cc_op(r, &line, bbr);
        if resp == "panic" {
            r.nontrivial();
            if bbr {
                // opaque part (bandwidth sampler, ack aggregation, bdp) overflowed: state unknown to the model
                return;
            }
            // reno/cubic: the state at the panic is modelled; keep going
            o.check(r, &before, &line);
            continue;
        }
        if !resp.starts_with("ok ") {
            r.oracle_fail(&format!("key=C12-cc-bad-response `{line}` -> {resp}"));
            return;
        }
        state = resp[3..].to_string();
        if line.starts_with("cc mtu ") {
            let m: u64 = line[7..].parse().unwrap();
            if m != o.mtu {
                mtu_changed = true;
            }
            if bbr && m > o.mtu && field(&before, "rs").is_some_and(|rs| rs != 0) {
                o.raised_in_recovery = true;
            }
            o.mtu = m;
        }
        if line.starts_with("cc cong ") && state != before {
            cong_effect = true;
        }
        match kind {
            "cubic" => deep |= line.contains(" lt="),
            "bbr" => deep |= field(&state, "mode") != Some(0) || field(&state, "rs") != Some(0),
            _ => deep = true,
        }
        if !o.check(r, &state.clone(), &line) {
            return;
        }
        if cong_effect && mtu_changed && deep {
            r.nontrivial();
        }
    }
}

/// Annotate raw `cc …` request lines (no observed values) with what the code observes, executing them:
/// used to write corpus / replay files by hand and by the shrinker.  Returns (annotated lines, responses).
pub fn cc_annotate(lines: &[String]) -> (Vec<String>, Vec<String>) {
    let mut r = Runner::new();
    r.begin_case("annotate");
    let mut bbr = false;
    let (mut out, mut resps) = (Vec::new(), Vec::new());
    for l in lines {
        let l = l.split(' ').filter(|t| !t.contains('=') && !t.is_empty()).collect::<Vec<_>>().join(" ");
        if l.starts_with("cc new ") {
            bbr = l.contains(" bbr ");
        }
        let obs = if l.starts_with("cc new ") { String::new() } else { peek_obs(&mut r, &l, bbr) };
        let full = if obs.is_empty() { l.clone() } else { format!("{l} {obs}") };
        resps.push(r.op(&full));
        out.push(full);
    }
    (out, resps)
}
