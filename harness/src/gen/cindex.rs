//! Generator + oracle for component `cindex` (endpoint routing tables, property C09).
//!
//! The generator keeps its own book of who owns what (it never looks at the tables): which
//! connection handles are live, the CIDs each one was issued and has not retired, its initial
//! DCID, its address tuple, its current peer reset token, and for zero-length-CID endpoints the
//! *owner* of every address-tuple key (the connection most recently established on it, until that
//! connection drains).  Oracle = C09 applied to the real endpoint's answers:
//!  * soundness: a datagram is handed to connection `h` only if `h` is live and the datagram is
//!    addressed to it (one of its CIDs / its initial DCID on Initial+0-RTT / its address tuple with an
//!    empty DCID / its current reset token from its remote);
//!  * completeness: a datagram addressed to a live connection's CID, or (zero-length CIDs) to the
//!    tuple it owns, is handed to exactly that connection.
use std::collections::{BTreeMap, BTreeSet};

use crate::{hex, Rng, Runner};

pub const CINDEX_RULE: &str = "case = one endpoint (CID length 0/4/8/20, rarely 1; with/without preferred-address CID), 2-8 concurrent connections from a pool of 4 remotes x 2 local addresses (forcing address-tuple collisions), ops connect(ok/TLS error)/first Initial/accept(ok, stale, auth failure, first-packet failure)/refuse/ignore/NeedIdentifiers/RetireConnectionId in any order/ResetToken from a small token pool/Drained/route probes (own CID, retired CID, drained connection's CID, leaked CID, initial DCID, tuple, reset token) with colliding CID candidates; 1 case in 10 is a malformed stream (dead handles, unknown indices, garbage); non-trivial = >= 2 connections, a slot reused after Drained, and >= 3 route probes";

const F5_KEY: &str = "F5-index-remove-deletes-tuple-entry-of-another-connection";
const LEAK_KEY: &str = "cindex-connect-error-leaves-cid-registered";

#[derive(Clone)]
struct Conn {
    server: bool,
    remote: (u32, u16),
    local: Option<u32>,
    init: Vec<u8>,
    cids: BTreeMap<u64, Vec<u8>>,
    token: Option<((u32, u16), Vec<u8>)>,
    /// a Drained of another connection removed, by address, a tuple key this connection claims
    clobbered: bool,
}

struct Book {
    cid_len: usize,
    #[allow(dead_code)]
    pref: bool,
    conns: BTreeMap<u64, Conn>,
    pending: BTreeMap<u64, ((u32, u16), Option<u32>, Vec<u8>)>,
    in_owner: BTreeMap<((u32, u16), Option<u32>), u64>,
    out_owner: BTreeMap<(u32, u16), u64>,
    used: BTreeSet<Vec<u8>>,
    retired: Vec<Vec<u8>>,
    leaked: BTreeSet<Vec<u8>>,
    old_tokens: Vec<((u32, u16), Vec<u8>)>,
    freed: BTreeSet<u64>,
    reused: bool,
    added: u32,
    probes: u32,
    counter: u64,
}

fn addr(a: (u32, u16)) -> String {
    format!("{}:{}", a.0, a.1)
}
fn local(l: Option<u32>) -> String {
    match l {
        None => "-".into(),
        Some(x) => x.to_string(),
    }
}

const REMOTES: [(u32, u16); 4] = [
    (0x0a00_0001, 4433),
    (0x0a00_0001, 4434),
    (0x0a00_0002, 4433),
    (0xc0a8_0105, 50000),
];
const LOCALS: [Option<u32>; 2] = [None, Some(0xc0a8_0001)];

fn varint(n: usize, out: &mut Vec<u8>) {
    if n < 64 {
        out.push(n as u8);
    } else {
        out.push(0x40 | (n >> 8) as u8);
        out.push(n as u8);
    }
}

/// a datagram of one packet of the given kind with the given DCID; `tail` are its last bytes
fn datagram(rng: &mut Rng, kind: &str, dcid: &[u8], tail: &[u8]) -> Vec<u8> {
    let bl = rng.below(6) as usize;
    let mut body = rng.bytes(bl);
    body.extend_from_slice(tail);
    if body.is_empty() {
        body.push(rng.next() as u8);
    }
    let mut d = Vec::new();
    match kind {
        "short" => {
            d.push(0x40 | (rng.next() as u8 & 0x3f));
            d.extend_from_slice(dcid);
            d.extend_from_slice(&body);
        }
        _ => {
            let ty = match kind {
                "initial" => 0xc0,
                "zrtt" => 0xd0,
                _ => 0xe0,
            };
            d.push(ty | (rng.next() as u8 & 0x0f));
            d.extend_from_slice(&[0, 0, 0, 1]);
            d.push(dcid.len() as u8);
            d.extend_from_slice(dcid);
            let sl = rng.below(9) as usize;
            let scid = rng.bytes(sl);
            d.push(scid.len() as u8);
            d.extend_from_slice(&scid);
            if kind == "initial" {
                d.push(0);
            }
            varint(body.len(), &mut d);
            d.extend_from_slice(&body);
        }
    }
    d
}

impl Book {
    fn fresh(&mut self, rng: &mut Rng, len: usize) -> Vec<u8> {
        loop {
            self.counter += 1;
            let mut c = rng.bytes(len);
            // keep short CIDs distinct without relying on luck
            if len >= 2 {
                c[len - 1] = self.counter as u8;
                c[len - 2] = (self.counter >> 8) as u8;
            }
            // one-byte CIDs: the space is nearly used up, repeats are unavoidable (the endpoint skips
            // candidates that are registered, exactly as `new_cid` does with its random draws)
            if len == 0 || self.used.insert(c.clone()) || (len == 1 && self.used.len() >= 240) {
                return c;
            }
        }
    }

    /// candidate list for `n` new CIDs: fresh ones, sometimes preceded by CIDs that are in use
    fn cands(&mut self, rng: &mut Rng, n: usize) -> String {
        if self.cid_len == 0 {
            return "_".into();
        }
        let mut v = Vec::new();
        for _ in 0..n {
            if rng.chance(1, 5) {
                let live: Vec<&Vec<u8>> = self.conns.values().flat_map(|c| c.cids.values()).collect();
                if !live.is_empty() {
                    v.push(hex(live[rng.below(live.len() as u64) as usize]));
                }
            }
            let len = self.cid_len;
            v.push(hex(&self.fresh(rng, len)));
        }
        if v.is_empty() {
            "_".into()
        } else {
            v.join(",")
        }
    }

    fn live_handle(&self, rng: &mut Rng) -> Option<u64> {
        let k: Vec<u64> = self.conns.keys().copied().collect();
        if k.is_empty() {
            None
        } else {
            Some(k[rng.below(k.len() as u64) as usize])
        }
    }

    fn add(&mut self, h: u64, c: Conn) {
        if self.cid_len == 0 {
            if c.server {
                self.in_owner.insert((c.remote, c.local), h);
            } else {
                self.out_owner.insert(c.remote, h);
            }
        }
        if self.freed.remove(&h) {
            self.reused = true;
        }
        self.added += 1;
        self.conns.insert(h, c);
    }

    fn drained(&mut self, h: u64) {
        let Some(c) = self.conns.remove(&h) else { return };
        self.freed.insert(h);
        self.retired.extend(c.cids.values().cloned());
        if let Some(t) = c.token.clone() {
            self.old_tokens.push(t);
        }
        if self.cid_len == 0 {
            // what ConnectionIndex::remove deletes by address, whoever it belongs to
            for (h2, c2) in self.conns.iter_mut() {
                let hit = if c2.server {
                    c2.remote == c.remote && c2.local == c.local
                } else {
                    c2.remote == c.remote
                };
                if hit && *h2 != h {
                    c2.clobbered = true;
                }
            }
            if c.server {
                if self.in_owner.get(&(c.remote, c.local)) == Some(&h) {
                    self.in_owner.remove(&(c.remote, c.local));
                }
            } else if self.out_owner.get(&c.remote) == Some(&h) {
                self.out_owner.remove(&c.remote);
            }
        }
    }

    /// is handing this datagram to `h` justified?
    fn justified(&self, h: u64, kind: &str, remote: (u32, u16), loc: Option<u32>, dcid: &[u8], data: &[u8]) -> bool {
        let Some(c) = self.conns.get(&h) else { return false };
        if !dcid.is_empty() && c.cids.values().any(|x| x == dcid) {
            return true;
        }
        if (kind == "initial" || kind == "zrtt") && c.server && !dcid.is_empty() && c.init == dcid {
            return true;
        }
        if dcid.is_empty() && ((c.server && c.remote == remote && c.local == loc) || (!c.server && c.remote == remote)) {
            return true;
        }
        if data.len() >= 16 {
            if let Some((r, t)) = &c.token {
                if *r == remote && t[..] == data[data.len() - 16..] {
                    return true;
                }
            }
        }
        false
    }

    fn nontrivial(&self) -> bool {
        self.added >= 2 && self.reused && self.probes >= 3
    }
}

/// issue a route probe and apply the oracle; `expect` = the connection that must receive it
fn probe(
    b: &mut Book,
    rng: &mut Rng,
    r: &mut Runner,
    kind: &str,
    remote: (u32, u16),
    loc: Option<u32>,
    dcid: &[u8],
    tail: &[u8],
    expect: Option<u64>,
) {
    let data = datagram(rng, kind, dcid, tail);
    let resp = r.op(&format!(
        "cindex route {kind} {} {} {} {}",
        addr(remote),
        local(loc),
        hex(dcid),
        hex(&data)
    ));
    b.probes += 1;
    check_route(b, r, &resp, kind, remote, loc, dcid, &data, expect);
}

fn check_route(
    b: &Book,
    r: &mut Runner,
    resp: &str,
    kind: &str,
    remote: (u32, u16),
    loc: Option<u32>,
    dcid: &[u8],
    data: &[u8],
    expect: Option<u64>,
) {
    let w: Vec<&str> = resp.split(' ').collect();
    let got: Option<u64> = match w.as_slice() {
        ["conn", h, via] => {
            if *via != format!("handle={h}") {
                report(r, &format!("key=cindex-handle-disagrees-with-index {resp}"));
            }
            h.parse().ok()
        }
        ["conn", h] => h.parse().ok(),
        ["none"] => None,
        ["incoming", i] => {
            let ok = (kind == "initial" || kind == "zrtt")
                && i.parse::<u64>().ok().and_then(|i| b.pending.get(&i)).is_some_and(|p| p.2 == dcid && !dcid.is_empty());
            if !ok {
                report(r, &format!("key=cindex-misroute-to-incoming dcid={} -> {resp}", hex(dcid)));
            }
            None
        }
        _ => {
            report(r, &format!("key=cindex-unexpected-response {resp}"));
            return;
        }
    };
    if let Some(h) = got {
        if !b.justified(h, kind, remote, loc, dcid, data) {
            let key = if b.leaked.contains(dcid) { LEAK_KEY } else { "cindex-misroute-to-non-owner" };
            report(r, &format!(
                "key={key} {kind} datagram from {}/{} dcid={} handed to connection {h} (live={}) which does not own it",
                addr(remote),
                local(loc),
                hex(dcid),
                b.conns.contains_key(&h)
            ));
        }
    }
    if let Some(e) = expect {
        if got != Some(e) {
            let key = if dcid.is_empty() && b.conns.get(&e).is_some_and(|c| c.clobbered) {
                F5_KEY
            } else if dcid.is_empty() {
                "cindex-tuple-owner-not-routed"
            } else {
                "cindex-issued-cid-not-routed"
            };
            report(r, &format!(
                "key={key} {kind} datagram from {}/{} dcid={} addressed to live connection {e} -> {resp}",
                addr(remote),
                local(loc),
                hex(dcid)
            ));
        }
    }
}

fn parse_ids(b: &mut Book, h: u64, resp: &str) {
    let head = resp.split(" | ").next().unwrap_or("");
    if let Some(list) = head.strip_prefix("ids ") {
        if list == "-" {
            return;
        }
        for e in list.split(',') {
            if let Some((s, c)) = e.split_once(':') {
                let cid: Vec<u8> = if c == "-" {
                    vec![]
                } else {
                    (0..c.len() / 2).map(|i| u8::from_str_radix(&c[2 * i..2 * i + 2], 16).unwrap()).collect()
                };
                if let (Ok(s), Some(conn)) = (s.parse::<u64>(), b.conns.get_mut(&h)) {
                    conn.cids.insert(s, cid);
                }
            }
        }
    }
}

pub fn cindex(rng: &mut Rng, r: &mut Runner, maxops: usize) {
    let cid_len = match rng.below(16) {
        0..=4 => 0,
        5..=7 => 4,
        8..=11 => 8,
        12..=14 => 20,
        _ => 1,
    };
    let pref = rng.chance(1, 4);
    let max_conns = rng.range(2, 8) as usize;
    let malformed = rng.chance(1, 10);
    let mut b = Book {
        cid_len,
        pref,
        conns: BTreeMap::new(),
        pending: BTreeMap::new(),
        in_owner: BTreeMap::new(),
        out_owner: BTreeMap::new(),
        used: BTreeSet::new(),
        retired: Vec::new(),
        leaked: BTreeSet::new(),
        old_tokens: Vec::new(),
        freed: BTreeSet::new(),
        reused: false,
        added: 0,
        probes: 0,
        counter: 0,
    };
    let tokens: Vec<Vec<u8>> = (0..3).map(|_| rng.bytes(16)).collect();
    r.op(&format!("cindex new {cid_len} {}", pref as u8));
    let mut n = 0;
    if cid_len == 1 && rng.chance(1, 2) {
        // fill 3/4 of the one-byte CID space so that `cids_exhausted` turns true
        let cands = b.cands(rng, 1);
        let resp = r.op(&format!("cindex connect {} {} 1 {cands}", addr(REMOTES[0]), hex(&rng.bytes(8))));
        if let Some(rest) = resp.strip_prefix("ok ") {
            let h: u64 = rest.split(' ').next().unwrap().parse().unwrap();
            b.add(h, Conn { server: false, remote: REMOTES[0], local: None, init: vec![], cids: BTreeMap::new(), token: None, clobbered: false });
            let first = first_cid(&b, &cands);
            b.conns.get_mut(&h).unwrap().cids.insert(0, first);
            for _ in 0..3 {
                let cands = b.cands(rng, 64);
                let resp = r.op(&format!("cindex issue {h} 64 {cands}"));
                parse_ids(&mut b, h, &resp);
            }
        }
    }
    while n < maxops {
        n += 1;
        if malformed && rng.chance(1, 3) {
            let h = rng.below(6);
            let line = match rng.below(9) {
                0 => format!("cindex issue {h} {} {}", rng.below(3), b.cands(rng, 2)),
                1 => format!("cindex retire {h} {} {} {}", rng.below(4), rng.below(2), b.cands(rng, 1)),
                2 => format!("cindex token {h} {} {}", addr(*rng.pick(&REMOTES)), hex(&rng.pick(&tokens[..]).clone())),
                3 => format!("cindex accept {} ok {}", rng.below(4), b.cands(rng, 2)),
                4 => format!("cindex ignore {}", rng.below(4)),
                5 => format!("cindex connect {}:{} {} 1 {}", rng.below(2) * 0x0a00_0001, rng.below(2) * 4433, hex(&rng.bytes(8)), b.cands(rng, 1)),
                6 => "cindex issue 0 65 _".to_string(),
                7 => format!("cindex token {h} {} {}", addr(REMOTES[0]), hex(&rng.bytes(15))),
                _ => format!("cindex drained {}", rng.below(12)),
            };
            let dead = !b.conns.contains_key(&h);
            let resp = r.op(&line);
            if resp == "panic" || resp == "poisoned" {
                // only the three events index `connections[ch]`; a panic for a live handle is a finding
                if !dead && !line.contains("accept") {
                    report(r, &format!("key=cindex-panic {line}"));
                }
                if b.nontrivial() {
                    r.nontrivial();
                }
                return;
            }
            // the book cannot follow arbitrary lines: stop using it
            r.op("cindex dump");
            if b.nontrivial() {
                r.nontrivial();
            }
            return;
        }
        let choice = rng.below(100);
        match choice {
            // ---- outgoing connection
            0..=9 if b.conns.len() < max_conns => {
                let remote = *rng.pick(&REMOTES);
                let init = rng.bytes(8);
                let tls = !rng.chance(1, 12);
                let cands = b.cands(rng, 1);
                let resp = r.op(&format!("cindex connect {} {} {} {cands}", addr(remote), hex(&init), tls as u8));
                if let Some(rest) = resp.strip_prefix("ok ") {
                    let h: u64 = rest.split(' ').next().unwrap().parse().unwrap();
                    b.add(h, Conn { server: false, remote, local: None, init, cids: BTreeMap::new(), token: None, clobbered: false });
                    let first = first_cid(&b, &cands);
                    b.conns.get_mut(&h).unwrap().cids.insert(0, first);
                } else if resp.starts_with("err InvalidServerName") && cid_len > 0 {
                    // nothing was established: every candidate that is not owned by a live connection
                    // must stay unrouted
                    let c = first_cid(&b, &cands);
                    b.leaked.insert(c);
                } else if resp == "panic" {
                    // with one-byte CIDs the candidate list can run dry: an artefact of the explicit CID source
                    if !(cid_len == 1 && b.used.len() >= 240) {
                        report(r, "key=cindex-panic connect");
                    }
                    return;
                }
            }
            // ---- first Initial of an incoming connection
            10..=24 if b.conns.len() + b.pending.len() < max_conns + 1 => {
                let remote = *rng.pick(&REMOTES);
                let loc = *rng.pick(&LOCALS);
                let dcid = match rng.below(10) {
                    0 => {
                        // retransmitted / colliding Initial: DCID of a pending attempt or a live connection
                        let mut known: Vec<Vec<u8>> = b.pending.values().map(|p| p.2.clone()).collect();
                        known.extend(b.conns.values().filter(|c| c.server).map(|c| c.init.clone()));
                        if known.is_empty() { rng.bytes(8) } else { known[rng.below(known.len() as u64) as usize].clone() }
                    }
                    // after Retry the DCID is one of ours (cid_len bytes, possibly empty)
                    1 => rng.bytes(cid_len),
                    2 => rng.bytes(20),
                    _ => {
                        let l = rng.range(8, 12) as usize;
                        rng.bytes(l)
                    }
                };
                let data = datagram(rng, "initial", &dcid, &[]);
                let resp = r.op(&format!("cindex first {} {} {} {}", addr(remote), local(loc), hex(&dcid), hex(&data)));
                let head = resp.split(" | ").next().unwrap_or("").to_string();
                if let Some(i) = head.strip_prefix("new ") {
                    b.pending.insert(i.parse().unwrap(), (remote, loc, dcid));
                } else if let Some(route) = head.strip_prefix("routed ") {
                    b.probes += 1;
                    check_route(&b, r, route, "initial", remote, loc, &dcid, &data, None);
                } else {
                    report(r, &format!("key=cindex-unexpected-response first -> {resp}"));
                    return;
                }
            }
            // ---- accept / refuse / ignore
            25..=39 if !b.pending.is_empty() => {
                let keys: Vec<u64> = b.pending.keys().copied().collect();
                let i = keys[rng.below(keys.len() as u64) as usize];
                let (remote, loc, dcid) = b.pending.remove(&i).unwrap();
                let mode = match rng.below(20) {
                    0 => "stale",
                    1 => "auth",
                    2 | 3 => "badpacket",
                    4 => "ignore",
                    5 => "refuse",
                    _ => "ok",
                };
                if mode == "ignore" {
                    r.op(&format!("cindex ignore {i}"));
                    continue;
                }
                if mode == "refuse" {
                    // `initial_close` draws a source CID for the CONNECTION_REFUSED packet
                    let cands = b.cands(rng, 1);
                    r.op(&format!("cindex refuse {i} {cands}"));
                    continue;
                }
                // one spare: the failing exits answer with an `initial_close` packet
                let cands = b.cands(rng, if pref { 3 } else { 2 });
                let resp = r.op(&format!("cindex accept {i} {mode} {cands}"));
                if let Some(rest) = resp.strip_prefix("ok ") {
                    let h: u64 = rest.split(' ').next().unwrap().parse().unwrap();
                    b.add(h, Conn { server: true, remote, local: loc, init: dcid, cids: BTreeMap::new(), token: None, clobbered: false });
                    let (c0, c1) = first_two_cids(&b, &cands, pref);
                    let c = b.conns.get_mut(&h).unwrap();
                    c.cids.insert(0, c0);
                    if let Some(c1) = c1 {
                        c.cids.insert(1, c1);
                    }
                } else if resp.starts_with("err first-packet") {
                    // the connection existed for an instant: it took the tuple over and gave it up
                    if cid_len == 0 {
                        b.in_owner.remove(&(remote, loc));
                        for c2 in b.conns.values_mut() {
                            if (c2.server && c2.remote == remote && c2.local == loc) || (!c2.server && c2.remote == remote) {
                                c2.clobbered = true;
                            }
                        }
                    }
                } else if resp == "panic" {
                    // with one-byte CIDs the candidate list can run dry: an artefact of the explicit CID source
                    if !(cid_len == 1 && b.used.len() >= 240) {
                        report(r, &format!("key=cindex-panic accept {mode}"));
                    }
                    return;
                }
            }
            // ---- NeedIdentifiers
            40..=49 if !b.conns.is_empty() => {
                let h = b.live_handle(rng).unwrap();
                let k = if cid_len == 1 && rng.chance(1, 3) { rng.range(20, 64) } else { rng.below(4) } as usize;
                let cands = b.cands(rng, k);
                let resp = r.op(&format!("cindex issue {h} {k} {cands}"));
                if resp == "panic" {
                    // with one-byte CIDs the candidate list can run dry: an artefact of the explicit CID source
                    if !(cid_len == 1 && b.used.len() >= 240) {
                        report(r, "key=cindex-panic issue on a live connection");
                    }
                    return;
                }
                parse_ids(&mut b, h, &resp);
            }
            // ---- RetireConnectionId, any order, sometimes unknown sequence numbers
            50..=59 if !b.conns.is_empty() => {
                let h = b.live_handle(rng).unwrap();
                let seqs: Vec<u64> = b.conns[&h].cids.keys().copied().collect();
                let seq = if seqs.is_empty() || rng.chance(1, 6) { rng.below(12) } else { seqs[rng.below(seqs.len() as u64) as usize] };
                let allow = rng.chance(2, 3);
                let cands = b.cands(rng, 1);
                let resp = r.op(&format!("cindex retire {h} {seq} {} {cands}", allow as u8));
                if resp == "panic" {
                    // with one-byte CIDs the candidate list can run dry: an artefact of the explicit CID source
                    if !(cid_len == 1 && b.used.len() >= 240) {
                        report(r, "key=cindex-panic retire on a live connection");
                    }
                    return;
                }
                if let Some(c) = b.conns.get_mut(&h).unwrap().cids.remove(&seq) {
                    b.retired.push(c);
                }
                parse_ids(&mut b, h, &resp);
            }
            // ---- ResetToken
            60..=66 if !b.conns.is_empty() => {
                let h = b.live_handle(rng).unwrap();
                let remote = if rng.chance(4, 5) { b.conns[&h].remote } else { *rng.pick(&REMOTES) };
                let tok = rng.pick(&tokens[..]).clone();
                let resp = r.op(&format!("cindex token {h} {} {}", addr(remote), hex(&tok)));
                if resp == "panic" {
                    report(r, "key=cindex-panic token on a live connection");
                    return;
                }
                let c = b.conns.get_mut(&h).unwrap();
                if let Some(old) = c.token.replace((remote, tok)) {
                    b.old_tokens.push(old);
                }
            }
            // ---- Drained
            67..=76 if !b.conns.is_empty() => {
                let h = if rng.chance(1, 10) { rng.below(10) } else { b.live_handle(rng).unwrap() };
                let resp = r.op(&format!("cindex drained {h}"));
                if resp == "panic" {
                    report(r, "key=cindex-panic drained");
                    return;
                }
                b.drained(h);
            }
            77 => {
                r.op("cindex dump");
            }
            // ---- probes
            _ => {
                let kind = *rng.pick(&["short", "short", "short", "long", "zrtt", "initial"]);
                let some_remote = *rng.pick(&REMOTES);
                let some_local = *rng.pick(&LOCALS);
                match rng.below(9) {
                    // a live connection's CID, from anywhere (migration): must reach it
                    0 | 1 | 2 if cid_len > 0 && !b.conns.is_empty() => {
                        let h = b.live_handle(rng).unwrap();
                        let cids: Vec<Vec<u8>> = b.conns[&h].cids.values().cloned().collect();
                        if cids.is_empty() {
                            continue;
                        }
                        let c = cids[rng.below(cids.len() as u64) as usize].clone();
                        let tail = if rng.chance(1, 3) { rng.pick(&tokens[..]).clone() } else { vec![] };
                        probe(&mut b, rng, r, kind, some_remote, some_local, &c, &tail, Some(h));
                    }
                    // zero-length CIDs: the tuple's owner must get it
                    0 | 1 | 2 if cid_len == 0 && !b.conns.is_empty() => {
                        let h = b.live_handle(rng).unwrap();
                        let c = b.conns[&h].clone();
                        let (loc, expect) = if c.server {
                            (c.local, (b.in_owner.get(&(c.remote, c.local)) == Some(&h)).then_some(h))
                        } else {
                            let loc = some_local;
                            let shadowed = b.in_owner.contains_key(&(c.remote, loc));
                            (loc, (b.out_owner.get(&c.remote) == Some(&h) && !shadowed).then_some(h))
                        };
                        probe(&mut b, rng, r, "short", c.remote, loc, &[], &[], expect);
                    }
                    // retired CIDs, CIDs of drained connections, CIDs left behind by failed connects
                    3 | 4 if cid_len > 0 => {
                        let mut stale: Vec<Vec<u8>> = b.retired.iter().filter(|c| c.len() == cid_len).cloned().collect();
                        stale.extend(b.leaked.iter().cloned());
                        stale.retain(|c| !b.conns.values().any(|x| x.cids.values().any(|y| y == c)));
                        if stale.is_empty() {
                            continue;
                        }
                        let c = stale[rng.below(stale.len() as u64) as usize].clone();
                        probe(&mut b, rng, r, kind, some_remote, some_local, &c, &[], None);
                    }
                    // initial DCIDs (live servers, pending attempts, gone ones)
                    5 => {
                        let mut known: Vec<Vec<u8>> = b.pending.values().map(|p| p.2.clone()).collect();
                        known.extend(b.conns.values().map(|c| c.init.clone()));
                        known.retain(|c| !c.is_empty());
                        if known.is_empty() {
                            continue;
                        }
                        let c = known[rng.below(known.len() as u64) as usize].clone();
                        let k = *rng.pick(&["initial", "zrtt", "long"]);
                        probe(&mut b, rng, r, k, some_remote, some_local, &c, &[], None);
                    }
                    // stateless resets: current and replaced tokens, right and wrong remote
                    6 | 7 => {
                        let mut toks: Vec<((u32, u16), Vec<u8>)> = b.conns.values().filter_map(|c| c.token.clone()).collect();
                        toks.extend(b.old_tokens.iter().cloned());
                        if toks.is_empty() {
                            continue;
                        }
                        let (tr, t) = toks[rng.below(toks.len() as u64) as usize].clone();
                        let remote = if rng.chance(3, 4) { tr } else { some_remote };
                        let dcid = if cid_len == 0 { vec![] } else { let l = cid_len; b.fresh(rng, l) };
                        probe(&mut b, rng, r, "short", remote, some_local, &dcid, &t, None);
                    }
                    // anything
                    _ => {
                        let dcid = if kind == "short" { rng.bytes(cid_len) } else { let l = rng.below(21) as usize; rng.bytes(l) };
                        let tail = if rng.chance(1, 2) { rng.pick(&tokens[..])[..rng.range(8, 16) as usize].to_vec() } else { vec![] };
                        probe(&mut b, rng, r, kind, some_remote, some_local, &dcid, &tail, None);
                    }
                }
            }
        }
        if b.nontrivial() {
            r.nontrivial();
        }
    }
    r.op("cindex dump");
}

/// one report per key and campaign (the first, usually shortest, case); every occurrence is counted in
/// the statistics as `oracle <key>`
fn report(r: &mut Runner, what: &str) {
    let key = what.split(' ').next().unwrap_or("").to_string();
    *r.hist.entry(format!("oracle {}", key.trim_start_matches("key="))).or_default() += 1;
    if !r.oracle_failures.iter().any(|f| f.contains(&key)) {
        r.oracle_fail(what);
    }
}

fn unhex(s: &str) -> Vec<u8> {
    if s == "-" || s == "_" {
        return vec![];
    }
    (0..s.len() / 2).map(|i| u8::from_str_radix(&s[2 * i..2 * i + 2], 16).unwrap()).collect()
}

/// `new_cid` takes the first candidate that no live connection uses (the book knows which are in use)
fn pick_free(b: &Book, cands: &[Vec<u8>], taken: &[Vec<u8>]) -> Vec<u8> {
    for c in cands {
        let in_use = b.conns.values().any(|x| x.cids.values().any(|y| y == c)) || taken.contains(c);
        if !in_use {
            return c.clone();
        }
    }
    vec![]
}

fn first_cid(b: &Book, cands: &str) -> Vec<u8> {
    if b.cid_len == 0 {
        return vec![];
    }
    let v: Vec<Vec<u8>> = cands.split(',').map(unhex).collect();
    pick_free(b, &v, &[])
}

fn first_two_cids(b: &Book, cands: &str, pref: bool) -> (Vec<u8>, Option<Vec<u8>>) {
    if b.cid_len == 0 {
        return (vec![], pref.then(Vec::new));
    }
    let v: Vec<Vec<u8>> = cands.split(',').map(unhex).collect();
    let c0 = pick_free(b, &v, &[]);
    if !pref {
        return (c0, None);
    }
    let pos = v.iter().position(|c| *c == c0).map_or(0, |p| p + 1);
    let c1 = pick_free(b, &v[pos..], &[c0.clone()]);
    (c0, Some(c1))
}
