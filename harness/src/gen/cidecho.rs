//! C14, CID-echo authentication: `Connection::handle_peer_params` and the client CID bookkeeping.
use crate::{hex, Rng, Runner};

pub const CIDECHO_RULE: &str = "case = a pool of 3..6 connection IDs (lengths 0/1/4/8/20/random 0..20, plus near-duplicates: one byte flipped, one byte shorter/longer) so that equal CIDs are common; half the cases are DECISION cases: up to maxops `check` ops on client and server connections, each a consistent tuple (recorded CIDs = echoed CIDs; servers: client parameters carry only initial_src) followed by its single-field corruptions (echoed or recorded field: flip a byte, change the length, other pool member, drop (none) / add (some)), plus pool-random and fully random tuples; the other half are BOOKKEEPING cases: a real client connection (`connect <first DCID>`) receives real packets: an honest flow (optional Retry with good tag and non-empty token, then the server's Initial, then later Initial/Handshake packets) interleaved with hostile packets (Retry with bad tag / empty token / after a server packet, forged Retry before the genuine one, Initials with another SCID before or after the genuine one, unauthenticated Initials, Handshake packets with another SCID), and `echo` ops presenting the honest server's parameters for the flow, the parameters matching the connection's own printed state, and their single-field corruptions; 1 case in 10 is MALFORMED (ops before connect, over-long CIDs, odd hex, unknown words); non-trivial = a decision case with an accepted tuple and a rejected single-field corruption of it, or a bookkeeping case with at least two packets and both an accepted and a rejected echo";

type Cid = Vec<u8>;
type OCid = Option<Cid>;

fn show(c: &OCid) -> String {
    match c {
        None => "none".into(),
        Some(c) => hex(c),
    }
}

fn pool(rng: &mut Rng) -> Vec<Cid> {
    let n = rng.range(3, 6) as usize;
    let mut p: Vec<Cid> = Vec::new();
    while p.len() < n {
        let c = match rng.below(8) {
            0 => vec![],
            1 => rng.bytes(1),
            2 => rng.bytes(4),
            3 | 4 => rng.bytes(8),
            5 => rng.bytes(20),
            _ => {
                let l = rng.below(21) as usize;
                rng.bytes(l)
            }
        };
        p.push(c);
        if p.len() < n && rng.chance(1, 3) {
            let base = p[rng.below(p.len() as u64) as usize].clone();
            p.push(mutate(rng, &base));
        }
    }
    p
}

/// a CID different from `c` (close to it)
fn mutate(rng: &mut Rng, c: &Cid) -> Cid {
    let mut d = c.clone();
    match rng.below(4) {
        0 if !d.is_empty() => {
            let i = rng.below(d.len() as u64) as usize;
            d[i] ^= 1 << rng.below(8);
        }
        1 if !d.is_empty() => {
            d.pop();
        }
        2 if d.len() < 20 => d.push(rng.next() as u8),
        _ => {
            let l = rng.below(21) as usize;
            d = rng.bytes(l);
            if d == *c {
                d = if c.len() < 20 { [&c[..], &[7u8][..]].concat() } else { c[..19].to_vec() };
            }
        }
    }
    d
}

/// a value different from `v`: another CID (near / pool), dropped, or added
fn corrupt(rng: &mut Rng, pool: &[Cid], v: &OCid) -> OCid {
    match v {
        None => Some(if rng.chance(1, 2) { rng.pick(pool).clone() } else { let l = rng.below(21) as usize; rng.bytes(l) }),
        Some(c) => match rng.below(4) {
            0 => None,
            1 => {
                let o = rng.pick(pool).clone();
                if o == *c { Some(mutate(rng, c)) } else { Some(o) }
            }
            _ => Some(mutate(rng, c)),
        },
    }
}

#[derive(Clone)]
struct Tuple {
    client: bool,
    orig_rem: Cid,
    initial_dst: Cid,
    retry_src: OCid,
    tp: [OCid; 3], // initial_src, original_dst, retry_src
}

impl Tuple {
    fn line(&self) -> String {
        format!(
            "cidecho check {} {} {} {} {} {} {}",
            if self.client { "c" } else { "s" },
            hex(&self.orig_rem),
            hex(&self.initial_dst),
            show(&self.retry_src),
            show(&self.tp[0]),
            show(&self.tp[1]),
            show(&self.tp[2])
        )
    }
    /// a field that this side authenticates differs
    fn checked_mismatch(&self) -> bool {
        self.tp[0] != Some(self.orig_rem.clone())
            || (self.client && (self.tp[1] != Some(self.initial_dst.clone()) || self.tp[2] != self.retry_src))
    }
}

/// the property applied to the implementation's own answer
fn judge(r: &mut Runner, what: &str, client: bool, mismatch: bool, honest: bool, resp: &str) {
    if resp == "ok" && mismatch && client {
        r.oracle_fail(&format!("key=C14-cid-echo-accepted-with-mismatch {what} => {resp}"));
    }
    if resp.starts_with("err") && !mismatch && honest {
        r.oracle_fail(&format!("key=C14-cid-echo-rejected-honest {what} => {resp}"));
    }
    if resp == "panic" {
        r.oracle_fail(&format!("key=C14-cid-echo-panic {what}"));
    }
}

fn decision(rng: &mut Rng, r: &mut Runner, maxops: usize, pool: &[Cid]) {
    let mut ops = 0;
    while ops < maxops {
        let client = rng.chance(2, 3);
        let orig_rem = rng.pick(pool).clone();
        let initial_dst = rng.pick(pool).clone();
        let retry_src = if rng.chance(1, 2) { None } else { Some(rng.pick(pool).clone()) };
        let honest = Tuple {
            client,
            tp: if client {
                [Some(orig_rem.clone()), Some(initial_dst.clone()), retry_src.clone()]
            } else {
                [Some(orig_rem.clone()), None, None]
            },
            orig_rem,
            initial_dst,
            retry_src,
        };
        match rng.below(10) {
            0 | 1 => {
                // pool-random / fully random tuple
                let mut t = honest.clone();
                for i in 0..3 {
                    t.tp[i] = match rng.below(4) {
                        0 => None,
                        1 => {
                            let l = rng.below(21) as usize;
                            Some(rng.bytes(l))
                        }
                        _ => Some(rng.pick(pool).clone()),
                    };
                }
                let resp = r.op(&t.line());
                judge(r, &t.line(), t.client, t.checked_mismatch(), false, &resp);
                ops += 1;
            }
            _ => {
                let resp = r.op(&honest.line());
                judge(r, &honest.line(), client, false, true, &resp);
                ops += 1;
                let accepted = resp == "ok";
                let k = 1 + rng.below(4) as usize;
                for _ in 0..k {
                    if ops >= maxops {
                        break;
                    }
                    let mut t = honest.clone();
                    // one field: 0..2 echoed parameter, 3..5 recorded CID
                    match rng.below(6) {
                        f @ 0..=2 => t.tp[f as usize] = corrupt(rng, pool, &honest.tp[f as usize]),
                        3 => t.orig_rem = mutate(rng, &honest.orig_rem),
                        4 => t.initial_dst = mutate(rng, &honest.initial_dst),
                        _ => t.retry_src = corrupt(rng, pool, &honest.retry_src),
                    }
                    let resp = r.op(&t.line());
                    judge(r, &t.line(), t.client, t.checked_mismatch(), false, &resp);
                    ops += 1;
                    if accepted && resp.starts_with("err") {
                        r.nontrivial();
                    }
                }
            }
        }
    }
}

/// dst / orig / retry / authed of a printed connection state
struct Seen {
    dst: Cid,
    orig: Cid,
    retry: OCid,
    authed: u64,
}

fn unhex(s: &str) -> Option<Cid> {
    if s == "-" {
        return Some(vec![]);
    }
    (0..s.len() / 2).map(|i| u8::from_str_radix(s.get(2 * i..2 * i + 2)?, 16).ok()).collect()
}

fn parse(resp: &str) -> Option<Seen> {
    let (mut dst, mut orig, mut retry, mut authed) = (None, None, None, None);
    for tok in resp.split(' ') {
        if let Some(v) = tok.strip_prefix("dst=") {
            dst = unhex(v);
        } else if let Some(v) = tok.strip_prefix("orig=") {
            orig = unhex(v);
        } else if let Some(v) = tok.strip_prefix("retry=") {
            retry = Some(if v == "none" { None } else { Some(unhex(v)?) });
        } else if let Some(v) = tok.strip_prefix("authed=") {
            authed = v.parse().ok();
        }
    }
    Some(Seen { dst: dst?, orig: orig?, retry: retry?, authed: authed? })
}

fn bookkeeping(rng: &mut Rng, r: &mut Runner, maxops: usize, pool: &[Cid]) {
    let d0 = rng.pick(pool).clone();
    let resp = r.op(&format!("cidecho connect {}", hex(&d0)));
    let Some(mut seen) = parse(&resp) else {
        r.oracle_fail(&format!("key=C14-cid-echo-state connect => {resp}"));
        return;
    };
    let mut seen_line = resp.clone();
    // the honest server of this case
    let with_retry = rng.chance(1, 2);
    let retry_scid = rng.pick(pool).clone();
    let server_scid = rng.pick(pool).clone();
    let hostile = rng.chance(1, 2); // hostile packets may precede the genuine ones
    let mut genuine_retry_done = !with_retry;
    let mut genuine_initial_done = false;
    let mut undisturbed = true; // no injected packet was acted on before the genuine flow completed
    let (mut packets, mut oks, mut errs) = (0, 0, 0);
    let mut ops = 1;
    while ops < maxops {
        ops += 1;
        let c = rng.below(100);
        let inject = hostile && c < 35 || (genuine_initial_done && c < 50);
        if c >= 80 || (ops == maxops && genuine_initial_done) {
            // present transport parameters
            let honest_echo: [OCid; 3] = [
                Some(server_scid.clone()),
                Some(d0.clone()),
                if with_retry { Some(retry_scid.clone()) } else { None },
            ];
            let own: [OCid; 3] = [Some(seen.orig.clone()), Some(seen.dst.clone()), seen.retry.clone()];
            let (mut tp, base_is_honest) = if genuine_initial_done && rng.chance(1, 2) { (honest_echo, true) } else { (own.clone(), false) };
            if rng.chance(1, 2) {
                let f = rng.below(3) as usize;
                tp[f] = corrupt(rng, pool, &tp[f]);
            }
            let line = format!("cidecho echo {} {} {}", show(&tp[0]), show(&tp[1]), show(&tp[2]));
            let resp = r.op(&line);
            let mismatch = tp != own;
            // an honest server's parameters for an undisturbed flow must be accepted: do not trust `seen` for that
            let must_accept = base_is_honest && undisturbed && genuine_retry_done && tp == [Some(server_scid.clone()), Some(d0.clone()), if with_retry { Some(retry_scid.clone()) } else { None }];
            judge(r, &line, true, mismatch, true, &resp);
            if must_accept && resp != "ok" {
                r.oracle_fail(&format!("key=C14-cid-echo-rejected-honest honest flow d0={} retry={} s={}: {line} => {resp}", hex(&d0), with_retry, hex(&server_scid)));
            }
            if resp == "ok" {
                oks += 1;
            } else if resp.starts_with("err") {
                errs += 1;
            }
            continue;
        }
        // a packet
        let before_retry = seen.retry.clone();
        let before_authed = seen.authed;
        let line;
        let mut bad_tag = false;
        let mut is_retry = false;
        if inject {
            let scid = if rng.chance(1, 3) { mutate(rng, &server_scid) } else { rng.pick(pool).clone() };
            line = match rng.below(7) {
                0 => { is_retry = true; bad_tag = true; { let n = rng.range(0, 40); format!("cidecho retry {} bad {}", hex(&scid), n) } }
                1 => { is_retry = true; format!("cidecho retry {} good 0", hex(&scid)) }
                2 => { is_retry = true; { let n = rng.range(1, 64); format!("cidecho retry {} good {}", hex(&scid), n) } }
                3 => format!("cidecho initial {} bad", hex(&scid)),
                4 | 5 => format!("cidecho initial {} good", hex(&scid)),
                _ => format!("cidecho hs {}", hex(&scid)),
            };
        } else if !genuine_retry_done {
            is_retry = true;
            let n = rng.range(1, 64);
            line = format!("cidecho retry {} good {}", hex(&retry_scid), n);
        } else if !genuine_initial_done {
            line = format!("cidecho initial {} good", hex(&server_scid));
        } else if rng.chance(1, 2) {
            line = format!("cidecho initial {} good", hex(&server_scid));
        } else {
            line = format!("cidecho hs {}", hex(&server_scid));
        }
        let resp = r.op(&line);
        packets += 1;
        if resp == "panic" {
            r.oracle_fail(&format!("key=C14-cid-echo-panic {line}"));
            return;
        }
        let Some(now) = parse(&resp) else {
            r.oracle_fail(&format!("key=C14-cid-echo-state {line} => {resp}"));
            return;
        };
        // property: a Retry is followed only if its tag verifies and no other server packet was processed
        if is_retry && now.retry != before_retry {
            if bad_tag {
                r.oracle_fail(&format!("key=C14-retry-followed-bad-tag {line} => {resp}"));
            }
            if before_authed > 0 {
                r.oracle_fail(&format!("key=C14-retry-followed-after-server-packet {line} => {resp}"));
            }
        }
        if now.dst != d0 {
            r.oracle_fail(&format!("key=C14-cid-echo-first-dcid-forgotten {line} => {resp}"));
        }
        if inject {
            // an injected packet that the client acted on in any way before the genuine first flight was
            // complete (a counted packet makes the genuine Retry void, an Initial fixes the remote CID, ...)
            if resp != seen_line && !genuine_initial_done {
                undisturbed = false;
            }
        } else if !genuine_retry_done {
            genuine_retry_done = true;
        } else if !genuine_initial_done {
            genuine_initial_done = true;
        }
        seen = now;
        seen_line = resp;
    }
    if packets >= 2 && oks > 0 && errs > 0 {
        r.nontrivial();
    }
}

fn malformed(rng: &mut Rng, r: &mut Runner, maxops: usize, pool: &[Cid]) {
    for _ in 0..maxops {
        let c = hex(&rng.pick(pool)[..]);
        let ll = 21 + rng.below(4) as usize;
        let long = hex(&rng.bytes(ll));
        let line = match rng.below(12) {
            0 => format!("cidecho echo {c} {c} none"),
            1 => format!("cidecho retry {c} good 3"),
            2 => format!("cidecho initial {c} good"),
            3 => format!("cidecho hs {c}"),
            4 => format!("cidecho connect {long}"),
            5 => format!("cidecho check c {long} {c} none {c} {c} none"),
            6 => format!("cidecho check c {c} {c} none {c} {long} none"),
            7 => format!("cidecho check x {c} {c} none {c} {c} none"),
            8 => format!("cidecho check c {c} {c} none {c} {c}"),
            9 => format!("cidecho check s {c} {c} none abc {c} none"),
            10 => format!("cidecho connect {c}"),
            _ => format!("cidecho retry {c} maybe 3"),
        };
        let resp = r.op(&line);
        if resp == "panic" {
            r.oracle_fail(&format!("key=C14-cid-echo-panic {line}"));
            return;
        }
    }
}

pub fn cidecho(rng: &mut Rng, r: &mut Runner, maxops: usize) {
    let p = pool(rng);
    match rng.below(20) {
        0 | 1 => malformed(rng, r, maxops, &p),
        2..=10 => decision(rng, r, maxops, &p),
        _ => bookkeeping(rng, r, maxops.max(4), &p),
    }
}
