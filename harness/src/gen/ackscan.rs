use crate::{hex, Rng, Runner};

pub const ACKSCAN_RULE: &str = "case = up to maxops requests on the ACK code of frame.rs: (a) a random ArrayRangeSet (1..12 ranges, sizes and gaps boundary-biased around the varint size edges, largest up to 2^62-1) through Ack::encode, then frame::Iter on the result plus a random tail, compared with the set (round trip); (b) hand-laid block lists with NON-minimal varint encodings through scan_ack_blocks / AckIter / Iter, including the exact boundaries smallest == gap+2 and block == smallest; (c) MALFORMED: truncation at every position class, wrong block counts (n-1, n+1, 2^62-1, u64::MAX), largest too small by one, bit flips, random bytes, AckIter on unscanned bytes. non-trivial = a multi-range round trip, an accepted hand-laid frame with a non-minimal varint, and at least one `malformed` and one `unexpected-end` rejection";

const VMAX: u64 = (1 << 62) - 1;

/// varint with at least the minimal length (`extra` picks a longer, non-minimal form when possible)
fn varint(x: u64, extra: u64) -> Vec<u8> {
    let min = if x < 1 << 6 { 0 } else if x < 1 << 14 { 1 } else if x < 1 << 30 { 2 } else { 3 };
    let k = (min + extra).min(3);
    match k {
        0 => vec![x as u8],
        1 => ((1u64 << 14) | x).to_be_bytes()[6..].to_vec(),
        2 => ((2u64 << 30) | x).to_be_bytes()[4..].to_vec(),
        _ => ((3u64 << 62) | x).to_be_bytes().to_vec(),
    }
}

fn small(rng: &mut Rng) -> u64 {
    match rng.below(8) {
        0 => 0,
        1 => 1,
        2 => 62 + rng.below(4),
        3 => 16382 + rng.below(4),
        4 => (1 << 30) - 2 + rng.below(4),
        5 => rng.below(1 << 20),
        _ => rng.below(40),
    }
}

fn fmt_ranges(v: &[(u64, u64)]) -> String {
    if v.is_empty() {
        return "-".into();
    }
    v.iter().map(|(a, b)| format!("{a}-{b}")).collect::<Vec<_>>().join(",")
}

/// descending inclusive ranges below `largest`
fn chain(rng: &mut Rng, largest: u64, n: usize) -> Option<(Vec<(u64, u64)>, Vec<u64>, Vec<u64>)> {
    // returns (ranges, blocks, gaps) with blocks.len() == ranges.len(), gaps.len() == ranges.len()-1
    let mut out = Vec::new();
    let (mut blocks, mut gaps) = (Vec::new(), Vec::new());
    let mut hi = largest;
    for i in 0..n {
        let block = small(rng).min(hi);
        let lo = hi - block;
        out.push((lo, hi));
        blocks.push(block);
        if i + 1 == n {
            break;
        }
        if lo < 2 {
            break;
        }
        let gap = small(rng).min(lo - 2);
        gaps.push(gap);
        hi = lo - gap - 2;
    }
    Some((out, blocks, gaps))
}

pub fn ackscan(rng: &mut Rng, r: &mut Runner, maxops: usize) {
    let (mut rt, mut nonmin, mut malf, mut uend) = (false, false, false, false);
    let mut ops = 0;
    while ops < maxops {
        ops += 1;
        let largest = match rng.below(6) {
            0 => VMAX - rng.below(3),
            1 => rng.below(10),
            2 => rng.biased().min(VMAX),
            3 => (1 << 30) + rng.below(1 << 20),
            _ => rng.below(1 << 24),
        };
        let nmax = if rng.chance(1, 10) { 40 } else { 6 };
        let n = 1 + rng.below(nmax) as usize;
        let Some((ranges, blocks, gaps)) = chain(rng, largest, n) else { continue };
        match rng.below(10) {
            0 | 1 | 2 => {
                // (a) round trip through the real encoder
                let asc: Vec<(u64, u64)> = ranges.iter().rev().map(|(lo, hi)| (*lo, *hi + 1)).collect();
                let delay = rng.biased().min(VMAX);
                let ecn = if rng.chance(1, 3) { Some((small(rng), rng.biased().min(VMAX), small(rng))) } else { None };
                let ecn_s = ecn.map_or("none".to_string(), |(a, b, c)| format!("{a},{b},{c}"));
                let resp = r.op(&format!("ackscan enc {delay} {ecn_s} {}", fmt_ranges(&asc)));
                let Some(h) = resp.strip_prefix("ok ") else {
                    r.oracle_fail(&format!("key=ackscan-encode-panic {resp} for {}", fmt_ranges(&asc)));
                    continue;
                };
                let tail_n = rng.below(4) as usize;
                let tail = rng.bytes(tail_n);
                let t = if tail.is_empty() { String::new() } else { hex(&tail) };
                let resp = r.op(&format!("ackscan dec {h}{t}"));
                ops += 1;
                let expect = format!("ok {largest} {delay} {ecn_s} {} {}", fmt_ranges(&ranges), tail.len());
                if resp != expect {
                    r.oracle_fail(&format!("key=ackscan-roundtrip expected `{expect}` got `{resp}`"));
                }
                if ranges.len() > 1 {
                    rt = true;
                }
            }
            3 | 4 | 5 => {
                // (b) hand-laid, possibly non-minimal
                let mut body = Vec::new();
                let mut any_nonmin = false;
                let mut enc = |x: u64, rng: &mut Rng, body: &mut Vec<u8>| {
                    let e = if rng.chance(1, 3) { rng.range(1, 3) } else { 0 };
                    let v = varint(x, e);
                    if e > 0 && x < (1 << 30) {
                        any_nonmin = true;
                    }
                    body.extend_from_slice(&v);
                };
                enc(blocks[0], rng, &mut body);
                for i in 0..gaps.len() {
                    enc(gaps[i], rng, &mut body);
                    enc(blocks[i + 1], rng, &mut body);
                }
                let tail_n = rng.below(4) as usize;
                let tail = rng.bytes(tail_n);
                let mut all = body.clone();
                all.extend_from_slice(&tail);
                let resp = r.op(&format!("ackscan scan {largest} {} {}", gaps.len(), hex(&all)));
                if resp != format!("ok {}", body.len()) {
                    r.oracle_fail(&format!("key=ackscan-scan valid blocks rejected or mis-sized: {resp} (expected ok {})", body.len()));
                }
                let resp = r.op(&format!("ackscan iter {largest} {}", hex(&body)));
                ops += 1;
                if resp != format!("ok {}", fmt_ranges(&ranges)) {
                    r.oracle_fail(&format!("key=ackscan-iter expected {} got {resp}", fmt_ranges(&ranges)));
                }
                // whole frame
                let mut f = vec![if rng.chance(1, 2) { 2u8 } else { 3u8 }];
                let delay = small(rng);
                f.extend(varint(largest, if rng.chance(1, 4) { 1 } else { 0 }));
                f.extend(varint(delay, 0));
                f.extend(varint(gaps.len() as u64, rng.below(2)));
                f.extend_from_slice(&body);
                let mut ecn_s = "none".to_string();
                if f[0] == 3 {
                    let (a, b, c) = (small(rng), small(rng), small(rng));
                    f.extend(varint(a, 0));
                    f.extend(varint(b, rng.below(2)));
                    f.extend(varint(c, 0));
                    ecn_s = format!("{a},{b},{c}");
                }
                f.extend_from_slice(&tail);
                let resp = r.op(&format!("ackscan dec {}", hex(&f)));
                ops += 1;
                let expect = format!("ok {largest} {delay} {ecn_s} {} {}", fmt_ranges(&ranges), tail.len());
                if resp != expect {
                    r.oracle_fail(&format!("key=ackscan-dec expected `{expect}` got `{resp}`"));
                }
                if any_nonmin {
                    nonmin = true;
                }
            }
            _ => {
                // (c) malformed
                let mut body = Vec::new();
                body.extend(varint(blocks[0], rng.below(2)));
                for i in 0..gaps.len() {
                    body.extend(varint(gaps[i], rng.below(2)));
                    body.extend(varint(blocks[i + 1], 0));
                }
                let mut n = gaps.len() as u64;
                let mut lg = largest;
                match rng.below(9) {
                    0 if !body.is_empty() => {
                        let cut = rng.below(body.len() as u64) as usize;
                        body.truncate(cut);
                    }
                    1 => n += 1 + rng.below(2),
                    2 => n = *rng.pick(&[VMAX, u64::MAX, 1 << 32, n.saturating_sub(1)]),
                    3 => {
                        // too small by one somewhere: shrink largest below what the chain needs
                        let need: u64 = blocks.iter().sum::<u64>() + gaps.iter().map(|g| g + 2).sum::<u64>();
                        lg = need.saturating_sub(1 + rng.below(2));
                    }
                    4 if !body.is_empty() => {
                        let i = rng.below(body.len() as u64) as usize;
                        body[i] ^= 1 << rng.below(8);
                    }
                    5 => {
                        let k = rng.below(24) as usize;
                        body = rng.bytes(k);
                        n = rng.below(6);
                    }
                    6 => {
                        // exact fit: largest is exactly what the chain needs (boundary, must be accepted)
                        lg = blocks.iter().sum::<u64>() + gaps.iter().map(|g| g + 2).sum::<u64>();
                    }
                    _ => {
                        body.extend(rng.bytes(3));
                    }
                }
                let resp = r.op(&format!("ackscan scan {lg} {n} {}", hex(&body)));
                if resp == "panic" {
                    r.oracle_fail(&format!("key=ackscan-scan-panic scan {lg} {n} {}", hex(&body)));
                    continue;
                }
                if resp == "err malformed" {
                    malf = true;
                }
                if resp == "err unexpected-end" {
                    uend = true;
                }
                if let Some(k) = resp.strip_prefix("ok ").and_then(|x| x.parse::<usize>().ok()) {
                    // oracle: bounded by the input; the accepted prefix iterates without underflow into n+1
                    // descending disjoint ranges
                    if k > body.len() {
                        r.oracle_fail(&format!("key=ackscan-scan-bound consumed {k} > {}", body.len()));
                        continue;
                    }
                    let resp = r.op(&format!("ackscan iter {lg} {}", hex(&body[..k])));
                    ops += 1;
                    match resp.strip_prefix("ok ") {
                        None => r.oracle_fail(&format!("key=ackscan-iter-underflow scan accepted {lg} {n} {} but iter: {resp}", hex(&body[..k]))),
                        Some(rs) => {
                            let v: Vec<(u64, u64)> = rs
                                .split(',')
                                .filter_map(|x| x.split_once('-'))
                                .filter_map(|(a, b)| Some((a.parse().ok()?, b.parse().ok()?)))
                                .collect();
                            let ok = v.len() as u64 == n + 1
                                && v.iter().all(|(a, b)| a <= b)
                                && v.windows(2).all(|w| w[1].1 + 2 <= w[0].0)
                                && v[0].1 == lg;
                            if !ok {
                                r.oracle_fail(&format!("key=ackscan-iter-shape n={n} largest={lg}: {rs}"));
                            }
                        }
                    }
                }
                // the same bytes as a whole frame: never a panic
                let mut f = vec![2u8 + rng.below(2) as u8];
                f.extend(varint(lg.min(VMAX), 0));
                f.extend(varint(0, 0));
                f.extend(varint(n.min(VMAX), 0));
                f.extend_from_slice(&body);
                if rng.chance(1, 3) {
                    let c = rng.below(f.len() as u64 + 1) as usize;
                    f.truncate(c.max(1));
                }
                let resp = r.op(&format!("ackscan dec {}", hex(&f)));
                ops += 1;
                if resp == "panic" {
                    r.oracle_fail(&format!("key=ackscan-dec-panic {}", hex(&f)));
                }
                if resp == "err malformed" {
                    malf = true;
                }
                if resp == "err unexpected-end" {
                    uend = true;
                }
                if rng.chance(1, 4) {
                    // AckIter on bytes nobody scanned: a panic here is expected (precondition of AckIter)
                    r.op(&format!("ackscan iter {} {}", rng.biased().min(VMAX), hex(&body)));
                    ops += 1;
                }
            }
        }
        if rt && nonmin && malf && uend {
            r.nontrivial();
        }
    }
}
