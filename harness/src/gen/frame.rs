//! Generator for the `frame` component (C10): every frame kind of quinn-proto/src/frame.rs.
use crate::{hex, Rng, Runner};

pub const FRAME_RULE: &str = "case = up to maxops steps; a step is (a) a well-formed frame of a random kind (all 24 kinds, every OFF/LEN/FIN and ECN/dir/close-form combination) with boundary-biased fields (varint size boundaries 2^6/2^14/2^30/2^62, payload lengths around 63/64 and 16383/16384, cid length 1/20, ack chains that end exactly at 0) -> enc, dec(enc ++ tail), oracle decode(encode f) renders f and consumes exactly the encoding; (b) the same as last frame of a packet (length-less STREAM/DATAGRAM); (c) CONNECTION/APPLICATION_CLOSE under a max_len around the truncation threshold (error codes of every varint size), oracles: same code, reason = the announced prefix, and the encoding occupies at most max_len bytes; (d) a packet payload of several frames through Iter, oracle: the same list; (e) encoder preconditions violated (values >= 2^62, ill-formed ack chains) -> err/panic agreement only; (f) malformed: random bytes with a plausible type byte, truncated / bit-flipped / spliced valid encodings -> dec and iter, oracle: never panics. non-trivial = a multi-byte varint, a payload, or an error response occurred";

const V62: u64 = 1 << 62;

/// boundary-biased value below 2^62
fn v(rng: &mut Rng) -> u64 {
    let x = rng.biased();
    if x < V62 {
        x
    } else {
        V62 - 1 - (x & 3)
    }
}

fn data_len(rng: &mut Rng) -> usize {
    match rng.below(40) {
        0..=7 => 0,
        8..=15 => rng.range(1, 8) as usize,
        16..=23 => rng.range(60, 67) as usize,
        24..=35 => rng.below(300) as usize,
        36..=38 => rng.range(1000, 1500) as usize,
        _ => {
            if rng.chance(1, 8) {
                rng.range(16380, 16388) as usize
            } else {
                rng.below(64) as usize
            }
        }
    }
}

fn data(rng: &mut Rng) -> String {
    let n = data_len(rng);
    hex(&rng.bytes(n))
}

fn dir(rng: &mut Rng) -> &'static str {
    if rng.chance(1, 2) {
        "bi"
    } else {
        "uni"
    }
}

pub const KINDS: usize = 24;

/// A well-formed frame of kind `k` in canonical text; `.1` = has a length-less form
pub fn wf_frame(rng: &mut Rng, k: usize) -> (String, bool) {
    match k {
        0 => ("padding".into(), false),
        1 => ("ping".into(), false),
        2 => ("immediate_ack".into(), false),
        3 => ("handshake_done".into(), false),
        4 => {
            let largest = v(rng);
            let first = match rng.below(4) {
                0 => 0,
                1 => largest,
                2 => rng.below(70).min(largest),
                _ => v(rng).min(largest),
            };
            let mut smallest = largest - first;
            let nblocks = match rng.below(8) {
                0 | 1 => 0,
                7 => rng.range(20, 70),
                _ => rng.range(1, 5),
            };
            let mut blocks = Vec::new();
            for _ in 0..nblocks {
                if smallest < 2 {
                    break;
                }
                let room = smallest - 2;
                let gap = match rng.below(4) {
                    0 => 0,
                    1 => room,
                    2 => rng.below(70).min(room),
                    _ => v(rng).min(room),
                };
                let room = room - gap;
                let len = match rng.below(4) {
                    0 => 0,
                    1 => room,
                    2 => rng.below(70).min(room),
                    _ => v(rng).min(room),
                };
                blocks.push(format!("{gap}:{len}"));
                smallest = room - len;
            }
            let blocks = if blocks.is_empty() {
                "-".to_string()
            } else {
                blocks.join(",")
            };
            let ecn = if rng.chance(1, 2) {
                "-".to_string()
            } else {
                format!("{}:{}:{}", v(rng), v(rng), v(rng))
            };
            (format!("ack {largest} {} {first} {blocks} {ecn}", v(rng)), false)
        }
        5 => (format!("reset_stream {} {} {}", v(rng), v(rng), v(rng)), false),
        6 => (format!("stop_sending {} {}", v(rng), v(rng)), false),
        7 => (format!("crypto {} {}", v(rng), data(rng)), false),
        8 => (format!("new_token {}", data(rng)), false),
        9 => {
            let off = if rng.chance(1, 3) { 0 } else { v(rng) };
            (
                format!("stream {} {off} {} {}", v(rng), rng.below(2), data(rng)),
                true,
            )
        }
        10 => (format!("max_data {}", v(rng)), false),
        11 => (format!("max_stream_data {} {}", v(rng), v(rng)), false),
        12 => (format!("max_streams {} {}", dir(rng), v(rng)), false),
        13 => (format!("data_blocked {}", v(rng)), false),
        14 => (format!("stream_data_blocked {} {}", v(rng), v(rng)), false),
        15 => (format!("streams_blocked {} {}", dir(rng), v(rng)), false),
        16 => {
            let seq = v(rng);
            let retire = match rng.below(3) {
                0 => 0,
                1 => seq,
                _ => rng.below(seq + 1),
            };
            let n = match rng.below(4) {
                0 => 1,
                1 => 20,
                _ => rng.range(1, 20),
            } as usize;
            (
                format!(
                    "new_cid {seq} {retire} {} {}",
                    hex(&rng.bytes(n)),
                    hex(&rng.bytes(16))
                ),
                false,
            )
        }
        17 => (format!("retire_cid {}", v(rng)), false),
        18 => (format!("path_challenge {}", path_token(rng)), false),
        19 => (format!("path_response {}", path_token(rng)), false),
        20 => {
            let ty = if rng.chance(1, 3) {
                "-".to_string()
            } else {
                v(rng).max(1).to_string()
            };
            (format!("close_conn {} {ty} {}", v(rng), data(rng)), false)
        }
        21 => (format!("close_app {} {}", v(rng), data(rng)), false),
        22 => (format!("datagram {}", data(rng)), true),
        _ => (
            format!("ack_frequency {} {} {} {}", v(rng), v(rng), v(rng), v(rng)),
            false,
        ),
    }
}

/// QUIC varint (x < 2^62), optionally in a longer-than-needed form
fn varint(rng: &mut Rng, x: u64, out: &mut Vec<u8>) {
    let min = if x < 1 << 6 {
        0
    } else if x < 1 << 14 {
        1
    } else if x < 1 << 30 {
        2
    } else {
        3
    };
    let k = if rng.chance(1, 8) { rng.range(min, 3) } else { min };
    let n = 1usize << k;
    let b = (x | (k << (8 * n as u64 - 2))).to_be_bytes();
    out.extend_from_slice(&b[8 - n..]);
}

/// ACK / ACK_ECN bytes built by hand: the block chain ends `slack` above (+) or below (-) zero
fn raw_ack(rng: &mut Rng) -> Vec<u8> {
    let mut out = Vec::new();
    let ecn = rng.chance(1, 3);
    out.push(if ecn { 3 } else { 2 });
    let largest = match rng.below(3) {
        0 => rng.below(200),
        1 => rng.below(1 << 20),
        _ => v(rng),
    };
    varint(rng, largest, &mut out);
    let delay = rng.below(1000);
    varint(rng, delay, &mut out);
    let nblocks = rng.below(4);
    // declared count: usually right, sometimes off by one
    let declared = match rng.below(8) {
        0 => nblocks + 1,
        1 => nblocks.saturating_sub(1),
        _ => nblocks,
    };
    varint(rng, declared, &mut out);
    // split `largest + slack` into first + sum(gap + 2 + len)
    let slack = match rng.below(5) {
        0 => 1i64,
        1 => 2,
        2 => -1,
        _ => 0,
    };
    let mut budget = (largest as i128 + slack as i128).max(0) as u64;
    budget = budget.min(V62 - 1);
    let mut parts = Vec::new();
    for _ in 0..nblocks {
        if budget < 2 {
            break;
        }
        let room = budget - 2;
        let gap = if rng.chance(1, 2) { rng.below(4).min(room) } else { rng.below(room + 1) };
        let len = if rng.chance(1, 2) { rng.below(4).min(room - gap) } else { rng.below(room - gap + 1) };
        parts.push((gap, len));
        budget = room - gap - len;
    }
    // whatever is left is the first block (so the chain ends exactly `slack` away from zero),
    // unless we deliberately stay above zero
    let first = if rng.chance(3, 4) { budget } else { rng.below(budget + 1) };
    varint(rng, first, &mut out);
    for (g, l) in parts {
        varint(rng, g, &mut out);
        varint(rng, l, &mut out);
    }
    if ecn {
        for _ in 0..3 {
            let x = v(rng);
            varint(rng, x, &mut out);
        }
    }
    if rng.chance(1, 6) {
        let n = rng.below(out.len() as u64) as usize;
        out.truncate(n.max(1));
    }
    out
}

fn path_token(rng: &mut Rng) -> u64 {
    match rng.below(4) {
        0 => u64::MAX - rng.below(3),
        1 => rng.below(3),
        2 => rng.biased(),
        _ => rng.next(),
    }
}

fn hexlen(h: &str) -> usize {
    if h == "-" {
        0
    } else {
        h.len() / 2
    }
}

fn cat(a: &str, b: &str) -> String {
    match (a, b) {
        ("-", x) => x.to_string(),
        (x, "-") => x.to_string(),
        (x, y) => format!("{x}{y}"),
    }
}

fn note_nontrivial(r: &mut Runner, enc: &str) {
    if hexlen(enc) > 2 {
        r.nontrivial();
    }
}

/// (a)/(b): encode, decode with a tail, compare
fn roundtrip(rng: &mut Rng, r: &mut Runner, text: &str, lenless: bool) -> Option<String> {
    let op = if lenless { "enclast" } else { "enc" };
    let resp = r.op(&format!("frame {op} {text}"));
    let Some(h) = resp.strip_prefix("ok ") else {
        r.oracle_fail(&format!("key=frame-enc-wellformed well-formed frame `{text}` not encoded: {resp}"));
        return None;
    };
    let h = h.to_string();
    note_nontrivial(r, &h);
    let tail = if lenless {
        "-".to_string()
    } else {
        let n = rng.below(4) as usize;
        hex(&rng.bytes(n))
    };
    let input = cat(&h, &tail);
    if input == "-" {
        return Some(h);
    }
    let d = r.op(&format!("frame dec {input}"));
    let expect = format!("ok {} {text}", hexlen(&h));
    if d != expect {
        r.oracle_fail(&format!(
            "key=frame-roundtrip `{text}` encoded {h} decoded `{d}` (expected `{expect}`)"
        ));
    }
    Some(h)
}

fn mutate(rng: &mut Rng, h: &str) -> String {
    let mut b: Vec<u8> = (0..hexlen(h))
        .map(|i| u8::from_str_radix(&h[2 * i..2 * i + 2], 16).unwrap())
        .collect();
    if b.is_empty() {
        return "-".into();
    }
    match rng.below(5) {
        0 => {
            // truncate
            let n = rng.below(b.len() as u64) as usize;
            b.truncate(n);
        }
        1 => {
            let i = rng.below(b.len() as u64) as usize;
            b[i] ^= 1 << rng.below(8);
        }
        2 => {
            let i = rng.below(b.len().min(12) as u64) as usize;
            b[i] = rng.next() as u8;
        }
        3 => {
            // length / count fields live near the front: bump one of the first bytes
            let i = rng.below(b.len().min(6) as u64) as usize;
            b[i] = b[i].wrapping_add(*rng.pick(&[1u8, 0xff, 0x40, 0x80, 0xc0]));
        }
        _ => {
            let i = rng.below(b.len() as u64 + 1) as usize;
            let n = rng.range(1, 3) as usize;
            for x in rng.bytes(n) {
                b.insert(i, x);
            }
        }
    }
    hex(&b)
}

const TYPE_BYTES: [u8; 40] = [
    0x00, 0x01, 0x02, 0x03, 0x04, 0x05, 0x06, 0x07, 0x08, 0x09, 0x0a, 0x0b, 0x0c, 0x0d, 0x0e, 0x0f,
    0x10, 0x11, 0x12, 0x13, 0x14, 0x15, 0x16, 0x17, 0x18, 0x19, 0x1a, 0x1b, 0x1c, 0x1d, 0x1e, 0x1f,
    0x30, 0x31, 0x40, 0x20, 0x2f, 0x32, 0x80, 0xc0,
];

fn no_panic(r: &mut Runner, what: &str, resp: &str) {
    if resp == "panic" {
        r.oracle_fail(&format!("key=frame-decoder-panic {what} panicked"));
    }
    if resp.starts_with("err") {
        r.nontrivial();
    }
}

pub fn frame(rng: &mut Rng, r: &mut Runner, maxops: usize) {
    let mut steps = 0;
    while steps < maxops {
        steps += 1;
        match rng.below(20) {
            // (a) every kind, with length
            0..=6 => {
                let k = rng.below(KINDS as u64) as usize;
                let (text, _) = wf_frame(rng, k);
                if let Some(h) = roundtrip(rng, r, &text, false) {
                    if rng.chance(1, 3) {
                        let m = mutate(rng, &h);
                        if m != "-" {
                            let d = r.op(&format!("frame dec {m}"));
                            no_panic(r, &format!("dec {m}"), &d);
                        }
                    }
                }
            }
            // (b) last frame of a packet
            7 | 8 => {
                let k = if rng.chance(1, 2) { 9 } else { 22 };
                let (text, _) = wf_frame(rng, k);
                roundtrip(rng, r, &text, true);
            }
            // (c) close truncation
            9 | 10 => {
                let app = rng.chance(1, 2);
                let code = if rng.chance(2, 3) { rng.below(64) } else { v(rng) };
                let ty = if app || rng.chance(1, 3) {
                    None
                } else {
                    Some(if rng.chance(1, 2) { rng.range(1, 63) } else { v(rng).max(1) })
                };
                let n = data_len(rng).min(400);
                let reason = rng.bytes(n);
                let max_len = match rng.below(4) {
                    0 => rng.range(20, 40),
                    1 => n as u64 + rng.below(24),
                    2 => rng.below(n as u64 + 30),
                    _ => rng.range(0, 12),
                };
                let text = if app {
                    format!("close_app {code} {}", hex(&reason))
                } else {
                    format!(
                        "close_conn {code} {} {}",
                        ty.map_or("-".to_string(), |t| t.to_string()),
                        hex(&reason)
                    )
                };
                let resp = r.op(&format!("frame encclose {max_len} {text}"));
                r.nontrivial();
                if let Some(h) = resp.strip_prefix("ok ") {
                    let h = h.to_string();
                    // oracle (close_fits_max_len): a close written under max_len occupies at most max_len bytes
                    // (CONNECTION_CLOSE: for the transport error codes the crate can construct, <= 0x1ff)
                    if (app || code <= 0x1ff) && hexlen(&h) as u64 > max_len {
                        r.oracle_fail(&format!(
                            "key=frame-close-exceeds-max-len `{text}` written under max_len {max_len} occupies {} bytes",
                            hexlen(&h)
                        ));
                    }
                    let d = r.op(&format!("frame dec {h}"));
                    // oracle (close_truncation): decodes to the same code / frame type and a prefix of the reason
                    let w: Vec<&str> = d.split(' ').collect();
                    let ok = w.len() >= 4
                        && w[0] == "ok"
                        && w[1] == hexlen(&h).to_string()
                        && w[2] == if app { "close_app" } else { "close_conn" }
                        && w[3] == code.to_string()
                        && (app || w[4] == ty.map_or("-".to_string(), |t| t.to_string()))
                        && {
                            let got = *w.last().unwrap();
                            let full = hex(&reason);
                            got == "-" || full.starts_with(got)
                        };
                    if !ok {
                        r.oracle_fail(&format!(
                            "key=frame-close-truncation `{text}` max_len {max_len} encoded {h} decoded `{d}`"
                        ));
                    }
                }
            }
            // (d) a whole payload
            11 | 12 => {
                let n = rng.range(1, 6) as usize;
                let mut texts = Vec::new();
                let mut payload = String::from("-");
                for _ in 0..n {
                    let k = rng.below(KINDS as u64) as usize;
                    let (text, _) = wf_frame(rng, k);
                    let resp = r.op(&format!("frame enc {text}"));
                    steps += 1;
                    if let Some(h) = resp.strip_prefix("ok ") {
                        note_nontrivial(r, h);
                        payload = cat(&payload, h);
                        texts.push(text);
                    } else {
                        r.oracle_fail(&format!("key=frame-enc-wellformed `{text}` -> {resp}"));
                    }
                }
                // optionally end with a length-less frame
                if rng.chance(1, 3) {
                    let k = if rng.chance(1, 2) { 9 } else { 22 };
                    let (text, _) = wf_frame(rng, k);
                    let resp = r.op(&format!("frame enclast {text}"));
                    if let Some(h) = resp.strip_prefix("ok ") {
                        payload = cat(&payload, h);
                        texts.push(text);
                    }
                }
                if payload != "-" {
                    let d = r.op(&format!("frame iter {payload}"));
                    let mut expect = format!("ok {}", texts.len());
                    for t in &texts {
                        expect.push_str(" ; ");
                        expect.push_str(t);
                    }
                    if d != expect {
                        r.oracle_fail(&format!(
                            "key=frame-iter payload {payload} iterated `{d}` expected `{expect}`"
                        ));
                    }
                    if rng.chance(1, 3) {
                        let m = mutate(rng, &payload);
                        if m != "-" {
                            let d = r.op(&format!("frame iter {m}"));
                            no_panic(r, &format!("iter {m}"), &d);
                        }
                    }
                }
            }
            // (e) encoder preconditions violated: agreement only
            13 => {
                let k = rng.range(4, KINDS as u64 - 1) as usize;
                let (text, lenless) = wf_frame(rng, k);
                let mut w: Vec<String> = text.split(' ').map(|s| s.to_string()).collect();
                // replace one numeric field by a value >= 2^62 (or anything biased)
                let idx: Vec<usize> = match w[0].as_str() {
                    "ack" | "reset_stream" => vec![1, 2, 3],
                    "stop_sending" | "stream" | "max_stream_data" | "stream_data_blocked" | "new_cid" => vec![1, 2],
                    "max_streams" | "streams_blocked" => vec![2],
                    "close_conn" if w[2] != "-" => vec![1, 2],
                    "ack_frequency" => vec![1, 2, 3, 4],
                    "new_token" | "datagram" => vec![],
                    _ => vec![1],
                };
                if !idx.is_empty() {
                    let i = *rng.pick(&idx);
                    w[i] = match rng.below(4) {
                        0 => V62.to_string(),
                        1 => u64::MAX.to_string(),
                        2 => (V62 + rng.below(1000)).to_string(),
                        _ => rng.biased().to_string(),
                    };
                }
                let op = if lenless && rng.chance(1, 2) { "enclast" } else { "enc" };
                let resp = r.op(&format!("frame {op} {}", w.join(" ")));
                if !resp.starts_with("ok") {
                    r.nontrivial();
                }
            }
            14 => {
                // ill-formed ack chains
                let largest = rng.biased();
                let first = rng.biased();
                let nb = rng.below(4);
                let blocks: Vec<String> = (0..nb)
                    .map(|_| format!("{}:{}", rng.biased() >> rng.below(40), rng.biased() >> rng.below(40)))
                    .collect();
                let blocks = if blocks.is_empty() { "-".to_string() } else { blocks.join(",") };
                let resp = r.op(&format!("frame enc ack {largest} {} {first} {blocks} -", rng.below(100)));
                if let Some(h) = resp.strip_prefix("ok ") {
                    let h = h.to_string();
                    let d = r.op(&format!("frame dec {h}"));
                    no_panic(r, &format!("dec {h}"), &d);
                } else {
                    r.nontrivial();
                }
            }
            15 => {
                // hand-built ACKs around the point where the block chain reaches zero
                let b = raw_ack(rng);
                let h = hex(&b);
                let d = r.op(&format!("frame dec {h}"));
                no_panic(r, &format!("dec {h}"), &d);
                r.nontrivial();
            }
            // (f) malformed
            _ => {
                let n = match rng.below(6) {
                    0 => rng.range(1, 3),
                    1 => rng.range(1, 60),
                    _ => rng.range(1, 24),
                } as usize;
                let mut b = rng.bytes(n);
                if rng.chance(5, 6) {
                    b[0] = *rng.pick(&TYPE_BYTES);
                }
                if n > 1 && rng.chance(1, 2) {
                    // keep the next varint small so that length / count fields are plausible
                    b[1] &= 0x3f;
                    if rng.chance(1, 2) {
                        b[1] &= 0x0f;
                    }
                }
                if n > 2 && rng.chance(1, 3) {
                    b[2] &= 0x1f;
                }
                let h = hex(&b);
                let op = if rng.chance(1, 2) { "dec" } else { "iter" };
                let d = r.op(&format!("frame {op} {h}"));
                no_panic(r, &format!("{op} {h}"), &d);
                r.nontrivial();
            }
        }
    }
}
