use crate::{Rng, Runner};

pub const ACKFREQ_RULE: &str = "case = AckFrequencyState::new, the peer's transport parameters (max_ack_delay 0..16383 ms, min_ack_delay none / <= / around / above 25 ms (above max(rtt, 25 ms) = the zone of the fixed defect F1), always through the real TransportParameters::read), a local AckFrequencyConfig (max_ack_delay none or set), then up to maxops events as Connection issues them: poll_transmit (should_send_ack_frequency(rtt); if true next_sequence_number, candidate_max_ack_delay(rtt), ack_frequency_sent), ACKs (on_acked with matching / other packet numbers), received ACK_FREQUENCY frames (sequence numbers increasing, repeated, stale; request_max_ack_delay around 1 ms and up to 2^62-1; arbitrary thresholds), PTO queries; rtt around 25 ms, around the peer's min_ack_delay and boundary-biased; pending/desired pairs placed at the 0.8/1.2 ratio edges of the f32 test. 1 case in 8 is the MALFORMED stream (parameters that read() must reject, frames before parameters, huge values). non-trivial = an accepted, a stale and a rejected ACK_FREQUENCY frame or a float-path should_send evaluation plus a matching on_acked";

const MS: u64 = 1_000_000;

/// F1 (clamp(min, max) with the peer's min_ack_delay above max(rtt, 25 ms)) is FIXED in quinn: the key is kept so that a
/// regression is reported as a violation; once per campaign (the first case that reaches it), with its case id
fn report_f1(r: &mut Runner, what: &str) {
    if !r.oracle_failures.iter().any(|f| f.contains("key=F1-ack-frequency-clamp-panics")) {
        r.oracle_fail(&format!("key=F1-ack-frequency-clamp-panics {what}"));
    }
}

pub fn ackfreq(rng: &mut Rng, r: &mut Runner, maxops: usize) {
    let malformed = rng.chance(1, 8);
    let dflt = if rng.chance(3, 4) { 25 * MS } else { rng.below(1 << 34) };
    r.op(&format!("ackfreq new {dflt}"));
    // ---- peer transport parameters
    let max_ms = match rng.below(6) {
        0 => 0,
        1 => 25,
        2 => 16383,
        3 => rng.below(26),
        4 => rng.range(1, 16383),
        _ => rng.range(20, 1000),
    };
    let mut peer_min: Option<u64> = match rng.below(8) {
        0 => None,
        1 => Some(rng.below(1000).min(max_ms * 1000)),
        2 => Some(25_000u64.saturating_sub(rng.below(3)).min(max_ms * 1000)),
        3 => Some((25_000 + rng.below(3)).min(max_ms * 1000)),
        4 => Some(rng.below(max_ms * 1000 + 1)),
        5 => Some(max_ms * 1000),
        _ => Some(rng.below(25_001).min(max_ms * 1000)),
    };
    let mut peer_mad = dflt;
    if !(malformed && rng.chance(1, 3)) {
        let resp = r.op(&format!("ackfreq peer {max_ms} {}", peer_min.map_or("none".into(), |x| x.to_string())));
        if !resp.starts_with("ok") {
            r.oracle_fail(&format!("key=ackfreq-tp-rejected valid parameters max_ack_delay={max_ms}ms min_ack_delay={peer_min:?}us: {resp}"));
            return;
        }
        peer_mad = max_ms * MS;
    } else {
        peer_min = None;
    }
    if malformed {
        // parameters that TransportParameters::read must reject: min_ack_delay > max_ack_delay, max_ack_delay >= 2^14
        let (mx, mn) = match rng.below(3) {
            0 => (rng.below(1 << 14), Some(rng.below(1 << 14) * 1000 + 1 + rng.below(5) + (1 << 14) * 1000)),
            1 => ((1 << 14) + rng.below(4), Some(0)),
            _ => {
                let mx = rng.below(1000);
                (mx, Some(mx * 1000 + 1 + rng.below(3)))
            }
        };
        let resp = r.op(&format!("ackfreq peer {mx} {}", mn.map_or("none".into(), |x: u64| x.to_string())));
        if !resp.starts_with("err TRANSPORT_PARAMETER_ERROR") {
            r.oracle_fail(&format!("key=ackfreq-tp-accepted invalid parameters max_ack_delay={mx}ms min_ack_delay={mn:?}us accepted: {resp}"));
        }
    }
    // ---- local config
    let mut cfg: Option<u64> = None;
    if rng.chance(1, 2) {
        cfg = Some(match rng.below(4) {
            0 => rng.below(50 * MS),
            1 => 25 * MS,
            2 => rng.biased() >> 2,
            _ => rng.range(MS, 2000 * MS),
        });
        r.op(&format!("ackfreq cfg {}", cfg.unwrap()));
    }
    let min_ns = peer_min.unwrap_or(0) * 1000;
    let mut pn: u64 = rng.below(100);
    let mut inflight: Option<(u64, u64)> = None;
    let mut next_seq: u64 = 0;
    let mut peer_seq: u64 = if rng.chance(1, 5) { rng.biased() >> 2 } else { 0 };
    let mut last: Option<u64> = None;
    let (mut acc, mut stale, mut rej, mut fpath, mut matched) = (false, false, false, false, false);
    for _ in 0..maxops {
        let rtt = match rng.below(8) {
            0 => 25 * MS - rng.below(3),
            1 => 25 * MS + rng.below(3),
            2 => min_ns.saturating_sub(rng.below(3)),
            3 => min_ns + rng.below(3),
            4 => rng.below(300 * MS),
            5 => rng.biased() >> 2,
            6 => rng.range(MS, 100 * MS),
            _ => rng.below(40 * MS),
        };
        // the old F1 zone: the peer's min_ack_delay exceeds max(rtt, 25 ms); must not panic any more
        let f1_zone = min_ns > rtt.max(25 * MS);
        let upper = rtt.max(25 * MS).max(min_ns);
        let c = rng.below(100);
        if c < 30 {
            // poll_transmit
            let resp = r.op(&format!("ackfreq should {rtt}"));
            if resp == "panic" {
                if f1_zone && next_seq != 0 {
                    report_f1(r, &format!("should_send_ack_frequency: peer min_ack_delay {}us > max(rtt {rtt}ns, 25ms)", peer_min.unwrap_or(0)));
                } else {
                    r.oracle_fail(&format!("key=ackfreq-panic-other should_send_ack_frequency rtt={rtt} min_ack_delay={peer_min:?} next_seq={next_seq}"));
                }
                return;
            }
            if next_seq != 0 {
                fpath = true;
            }
            if resp == "true" {
                let resp = r.op("ackfreq nextseq");
                if resp == "panic" {
                    r.oracle_fail("key=ackfreq-panic-other next_sequence_number");
                    return;
                }
                next_seq += 1;
                let resp = r.op(&format!("ackfreq cand {rtt}"));
                if resp == "panic" {
                    if f1_zone {
                        report_f1(r, &format!("candidate_max_ack_delay: peer min_ack_delay {}us > max(rtt {rtt}ns, 25ms)", peer_min.unwrap_or(0)));
                    } else {
                        r.oracle_fail(&format!("key=ackfreq-panic-other candidate_max_ack_delay rtt={rtt} min_ack_delay={peer_min:?}"));
                    }
                    return;
                }
                let d: u64 = resp.strip_prefix("ok ").and_then(|x| x.parse().ok()).unwrap_or(0);
                // oracle: the requested delay lies within [peer min_ack_delay, max(rtt, 25ms, peer min_ack_delay)]
                if d < min_ns || d > upper {
                    r.oracle_fail(&format!("key=ackfreq-candidate-range {d} not in [{min_ns}, {upper}]"));
                }
                pn += 1 + rng.below(3);
                r.op(&format!("ackfreq sent {pn} {d}"));
                inflight = Some((pn, d));
            }
        } else if c < 40 {
            // place pending/desired at the edges of the f32 ratio test
            let desired = cfg.unwrap_or(peer_mad).clamp(min_ns, upper);
            if desired > 100 {
                let base = if rng.chance(1, 2) { desired / 6 * 5 } else { desired / 4 * 5 };
                let p = (base + rng.below(7)).saturating_sub(3);
                pn += 1;
                r.op(&format!("ackfreq sent {pn} {p}"));
                inflight = Some((pn, p));
                if next_seq == 0 {
                    r.op("ackfreq nextseq");
                    next_seq += 1;
                }
                let resp = r.op(&format!("ackfreq should {rtt}"));
                if resp == "panic" {
                    if f1_zone {
                        report_f1(r, &format!("should_send_ack_frequency: peer min_ack_delay {}us > max(rtt {rtt}ns, 25ms)", peer_min.unwrap_or(0)));
                    } else {
                        r.oracle_fail(&format!("key=ackfreq-panic-other should_send_ack_frequency rtt={rtt} min_ack_delay={peer_min:?}"));
                    }
                    return;
                }
                fpath = true;
                // oracle (loose, integer): far outside the 20% band must say true, well inside must say false
                let (d, p) = (desired as u128, p as u128);
                if p > 0 {
                    if (d * 100 > p * 121 || d * 100 < p * 79) && resp != "true" {
                        r.oracle_fail(&format!("key=ackfreq-should-send desired={d} pending={p} -> {resp}"));
                    }
                    if (d * 100 < p * 119 && d * 100 > p * 81) && resp != "false" {
                        r.oracle_fail(&format!("key=ackfreq-should-send desired={d} pending={p} -> {resp}"));
                    }
                }
            }
        } else if c < 55 {
            // ACK processing
            let p = match (inflight, rng.below(3)) {
                (Some((p, _)), 0) | (Some((p, _)), 1) => p,
                _ => rng.below(pn + 3),
            };
            let resp = r.op(&format!("ackfreq acked {p}"));
            if resp == "panic" {
                r.oracle_fail("key=ackfreq-panic-other on_acked");
                return;
            }
            if let Some((ip, d)) = inflight {
                if ip == p {
                    matched = true;
                    inflight = None;
                    peer_mad = d;
                    if !resp.contains(&format!("inflight=none next={next_seq} peer_mad={d} ")) {
                        r.oracle_fail(&format!("key=ackfreq-on-acked expected peer_mad={d}: {resp}"));
                    }
                }
            }
        } else if c < 90 {
            // ACK_FREQUENCY from the peer
            let seq = match rng.below(6) {
                0 => peer_seq,
                1 => peer_seq.saturating_sub(rng.range(1, 3)),
                2 => {
                    peer_seq += 1 + rng.below(3);
                    peer_seq
                }
                3 => rng.below(peer_seq + 2),
                4 if malformed => rng.biased().min((1 << 62) - 1),
                _ => {
                    peer_seq += 1;
                    peer_seq
                }
            }
            .min((1 << 62) - 1);
            let req = match rng.below(6) {
                0 => 999 - rng.below(2),
                1 => 1000 + rng.below(2),
                2 => 0,
                3 => (1 << 62) - 1 - rng.below(2),
                4 => rng.biased().min((1 << 62) - 1),
                _ => rng.range(1000, 100_000),
            };
            let aet = if rng.chance(1, 3) { rng.biased().min((1 << 62) - 1) } else { rng.below(20) };
            let reord = if rng.chance(1, 3) { rng.biased().min((1 << 62) - 1) } else { rng.below(5) };
            let resp = r.op(&format!("ackfreq recv {seq} {aet} {req} {reord}"));
            if resp == "panic" {
                r.oracle_fail(&format!("key=ackfreq-panic-other ack_frequency_received seq={seq} req={req}"));
                return;
            }
            // oracle: stale frames ignored; too small a delay is PROTOCOL_VIOLATION; otherwise applied
            let is_stale = last.map_or(false, |h| seq <= h);
            let expect = if is_stale {
                "ok false".to_string()
            } else if req < 1000 {
                "err PROTOCOL_VIOLATION".to_string()
            } else {
                format!("ok true")
            };
            if !resp.starts_with(&expect) {
                r.oracle_fail(&format!("key=ackfreq-recv-decision seq={seq} last={last:?} req={req}: expected {expect}, got {resp}"));
            }
            if !is_stale {
                last = Some(seq);
                if req >= 1000 {
                    acc = true;
                    if !resp.ends_with(&format!("mad={} thr={aet},{reord}", req as u128 * 1000)) {
                        r.oracle_fail(&format!("key=ackfreq-recv-applied {resp}"));
                    }
                } else {
                    rej = true;
                }
            } else {
                stale = true;
            }
            peer_seq = peer_seq.max(seq.min(1 << 61));
        } else {
            let resp = r.op("ackfreq pto");
            let expect = inflight.map_or(peer_mad, |(_, d)| d.max(peer_mad));
            if resp != format!("ok {expect}") {
                r.oracle_fail(&format!("key=ackfreq-pto expected {expect}: {resp}"));
            }
        }
        if (acc && stale && rej) || (fpath && matched) {
            r.nontrivial();
        }
    }
}
