//! component `keyupd`: key updates in the 1-RTT receive pipeline (C04; RFC 9001 section 6) on a real established
//! `Connection` whose packet keys are harness fakes (see quinn-proto/src/connection/verif/keyupd.rs).
//!
//! The generator plays a PEER that follows RFC 9001 (packet numbers increase, a generation is used for a contiguous
//! range of them, it updates only after one of its packets of the current generation was answered by us, it follows
//! our updates), the NETWORK (reordering, duplication, replay of old packets, loss), an ATTACKER without keys
//! (forged tags with either key-phase bit, genuine packets with the key-phase bit flipped, tags of generations
//! that are not installed) and the LOCAL side (`force_key_update`, sending, the clock, timeouts).  Now and then the
//! peer turns hostile while holding the keys (RFC 9001 6.2 / 6.4 violations).
//!
//! Oracles.  None of them looks at the model; what "installed" means is taken from RFC 9001 section 6 (current
//! generation, the next one, the previous one while the implementation reports it as retained):
//!  * `C04-forged-packet-changed-state`   a packet whose tag belongs to no installed generation, or whose key-phase
//!        bit is not the one of the generation it was sealed with (the header is authenticated data), changes nothing
//!        of the printed state but the failure counter - unless the counter passes the integrity limit, where RFC 9001
//!        6.6 demands that the connection is abandoned (AEAD_LIMIT_REACHED, no CONNECTION_CLOSE).
//!  * `C04-packet-processed-twice`        the frames of one packet number are processed at most once per connection,
//!        whatever happens to the keys in between.
//!  * `C04-genuine-packet-rejected`       a packet of the conforming peer that was not processed before and is not older
//!        than the duplicate window is processed if it is sealed with the current generation, the previous one while
//!        retained, or the next one (the peer's update).
//!  * `C04-key-update-error-class`        RFC 9001 6.4: a packet that opens under the NEXT keys although a higher-numbered
//!        packet was already opened under the current ones => KEY_UPDATE_ERROR; RFC 9001 6.2: a second update by the peer
//!        before we sent anything in the generation of its first one => KEY_UPDATE_ERROR; and a conforming peer never
//!        causes any connection error.
//!  * `C04-old-keys-dropped-early` / `C04-old-keys-kept-too-long`   RFC 9001 6.1 / 6.5: the previous receive keys stay
//!        until a packet of the new generation has been opened, and are gone once timeouts are serviced three PTOs later.
//!  * `C04-local-update-before-ack`       RFC 9001 6.1: a local update (forced or routine) takes effect only if no key
//!        update took place before or a packet we sent in the current key phase was acknowledged (ledger of the generator's
//!        own `send` / `ackd` requests).
//!  * `C04-acked-with-old-keys`           RFC 9001 6.2: after a packet of generation g was processed nothing is sent with
//!        keys older than g.
use std::collections::{BTreeMap, BTreeSet};

use crate::{Rng, Runner};

pub const KEYUPD_RULE: &str = "case = one established connection: genuine in-order and reordered 1-RTT packets of a conforming peer, key updates by both sides (forced, routine after 6 packets, the peer's), replays, forged packets with either key-phase bit, genuine packets with a flipped key-phase bit, stale and future generations, clock steps around 3 PTO with timeouts, sometimes a hostile key-holding peer (consecutive update, lower-numbered packet under newer keys) and a flood of forgeries beyond the integrity limit, plus ill-formed requests; non-trivial = at least one key update took effect and a forged, replayed or stale packet arrived after it";

/// PTO(Data) of the executor's connection in microseconds: initial_rtt 100 ms -> 100 + max(4 * 50, 1) ms, plus the
/// default max_ack_delay of the peer (25 ms).  The executor checks it (`env`).
const PTO: u64 = 325_000;
const LIMIT: u64 = 12;
const PHASE: u64 = 6;
/// width of the duplicate window an implementation must at least cover for the "genuine packet rejected" oracle
const WINDOW: u64 = 100;

#[derive(Clone, Debug, PartialEq, Default)]
struct View {
    head: String,
    ph: u64,
    cur: Option<u64>,
    prev: Option<(u64, Option<u64>, bool)>,
    next: Option<u64>,
    swk: u64,
    npn: u64,
    la: Option<u64>,
    rx: u64,
    authed: u64,
    fail: u64,
    dd: String,
    kd: Option<u64>,
    st: String,
    err: String,
}

fn opt(s: &str) -> Option<Option<u64>> {
    if s == "-" {
        Some(None)
    } else {
        s.parse().ok().map(Some)
    }
}

fn parse(resp: &str) -> Option<View> {
    let (head, rest) = resp.split_once(" | ")?;
    let mut v = View { head: head.to_string(), ..Default::default() };
    let mut seen = 0;
    for tok in rest.split_ascii_whitespace() {
        let (k, x) = tok.split_once('=')?;
        seen += 1;
        match k {
            "ph" => v.ph = x.parse().ok()?,
            "cur" => v.cur = opt(x)?,
            "prev" => {
                v.prev = if x == "-" {
                    None
                } else {
                    let mut it = x.split(':');
                    let g = it.next()?.parse().ok()?;
                    let e = opt(it.next()?)?;
                    let u = it.next()? == "1";
                    Some((g, e, u))
                }
            }
            "next" => v.next = opt(x)?,
            "swk" => v.swk = x.parse().ok()?,
            "npn" => v.npn = x.parse().ok()?,
            "la" => v.la = opt(x)?,
            "rx" => v.rx = x.parse().ok()?,
            "authed" => v.authed = x.parse().ok()?,
            "fail" => v.fail = x.parse().ok()?,
            "dd" => v.dd = x.to_string(),
            "kd" => v.kd = opt(x)?,
            "st" => v.st = x.to_string(),
            "err" => v.err = x.to_string(),
            _ => return None,
        }
    }
    (seen == 14).then_some(v)
}

/// the printed state without the response head
fn state(v: &View) -> View {
    View { head: String::new(), ..v.clone() }
}

#[derive(Clone, Copy, Debug)]
struct Sent {
    pn: u64,
    gen: u64,
}

struct Sim<'a> {
    r: &'a mut Runner,
    v: View,
    t: u64,
    // the peer
    peer_gen: u64,
    peer_pn: u64,
    sent: Vec<Sent>,
    undelivered: Vec<Sent>,
    gaps: Vec<u64>,
    conforming: bool,
    // what the peer has learnt from us
    /// highest generation of ours a packet of which reached the peer
    peer_saw_gen: Option<u64>,
    /// the peer's packet of its current generation was answered by us (it may update)
    peer_acked: bool,
    // ledger
    processed: BTreeSet<u64>,
    gen_of_pn: BTreeMap<u64, u64>,
    max_processed: Option<u64>,
    max_gen_processed: u64,
    /// a packet of peer generation g was processed and we have not sent since
    owe_ack_for: Option<u64>,
    last_sent_gen: Option<u64>,
    /// our current generation was reached by the peer's update and we have sent nothing since
    remote_update_unanswered: bool,
    /// time at which the first packet of our current generation was opened (None: none yet)
    first_new_gen_at: Option<u64>,
    updates: u32,
    /// packets we sent so far (= the packet number of the next one: the executor never skips a number)
    sends: u64,
    /// number of packets sent before the latest key update of either side: packets numbered from here on are the
    /// ones "sent with keys of the current key phase"
    phase_first: u64,
    /// highest packet number of ours that reached the peer / that an ACK of the peer reported to us
    peer_got_pn: Option<u64>,
    acked_max: Option<u64>,
    blocked_updates: u32,
    hostile_after_update: bool,
    dead: bool,
}

fn parity(g: u64) -> u64 {
    g % 2
}

impl<'a> Sim<'a> {
    fn fail(&mut self, key: &str, what: String) {
        self.r.oracle_fail(&format!("key={key} {what}"));
        self.dead = true;
    }

    fn exec(&mut self, line: &str) -> Option<(View, View)> {
        let before = self.v.clone();
        let resp = self.r.op(line);
        let Some(v) = parse(&resp) else {
            if resp != "panic" {
                self.fail("keyupd-parse", format!("unparsable response [{resp}] to [{line}]"));
            }
            self.dead = true;
            return None;
        };
        self.v = v.clone();
        // previous keys: never dropped before a packet of the new generation was opened
        if before.prev.is_some() && v.prev.is_none() && self.first_new_gen_at.is_none() && self.conforming {
            self.fail(
                "C04-old-keys-dropped-early",
                format!("[{line}] discarded the previous receive keys although no packet of the current generation has been opened yet (RFC 9001 6.1); before [{before:?}] after [{v:?}]"),
            );
        }
        Some((before, v))
    }

    fn installed(v: &View) -> Vec<u64> {
        let mut g = Vec::new();
        g.extend(v.cur);
        g.extend(v.next);
        g.extend(v.prev.map(|p| p.0));
        g
    }

    /// deliver one packet: (pn, key-phase bit, tag)
    fn rx(&mut self, pn: u64, bit: u64, tag: Option<u64>, rsv: bool, genuine_conforming: bool) {
        let line = format!(
            "keyupd rx {pn} {bit} {}{}",
            tag.map_or("forged".to_string(), |g| g.to_string()),
            if rsv { " rsv" } else { "" }
        );
        let Some((b, a)) = self.exec(&line) else { return };
        let processed = a.head == "o:1 p:1";
        let opened = a.head.starts_with("o:1");
        // ---- at most once
        if processed {
            if !self.processed.insert(pn) {
                self.fail(
                    "C04-packet-processed-twice",
                    format!("packet number {pn} was processed a second time by [{line}] (first under generation {:?})", self.gen_of_pn.get(&pn)),
                );
                return;
            }
            if let Some(g) = tag {
                self.gen_of_pn.insert(pn, g);
                self.max_gen_processed = self.max_gen_processed.max(g);
                if b.st == "est" {
                    self.owe_ack_for = Some(self.owe_ack_for.map_or(g, |x| x.max(g)));
                }
            }
            self.max_processed = Some(self.max_processed.map_or(pn, |x| x.max(pn)));
        }
        // ---- forged: no effect beyond the counter
        let authentic_possible = tag.is_some_and(|g| Self::installed(&b).contains(&g) && parity(g) == bit);
        if !authentic_possible {
            let mut want = state(&b);
            want.fail += 1;
            let mut ok = a.head == "o:0 p:0" && state(&a) == want;
            if !ok && b.st == "est" && want.fail > LIMIT {
                // RFC 9001 6.6: the integrity limit is exceeded: the connection is abandoned at once
                want.st = "drained".into();
                want.err = "AEAD_LIMIT_REACHED".into();
                want.kd = None;
                ok = a.head == "o:0 p:0" && state(&a) == want;
            }
            if !ok {
                self.fail(
                    "C04-forged-packet-changed-state",
                    format!("[{line}] cannot authenticate (installed generations {:?}, key phase bit of generation g is g mod 2) but changed more than the failure counter: before [{b:?}] after [{a:?}]", Self::installed(&b)),
                );
            }
            return;
        }
        // ---- a conforming peer's fresh packet is processed and never ends the connection
        if genuine_conforming && self.conforming && b.st == "est" && !rsv {
            let g = tag.unwrap();
            let fresh = !self.processed.contains(&pn) || processed;
            let recent = self.max_processed.map_or(true, |m| pn + WINDOW > m);
            let retained = b.cur == Some(g) || b.prev.is_some_and(|p| p.0 == g) || b.next == Some(g) && b.cur == Some(g - 1);
            if a.err != "-" {
                self.fail(
                    "C04-key-update-error-class",
                    format!("[{line}] is a packet of a peer that follows RFC 9001 but the connection ended with {}: before [{b:?}] after [{a:?}]", a.err),
                );
                return;
            }
            if fresh && recent && retained && !processed {
                self.fail(
                    "C04-genuine-packet-rejected",
                    format!("[{line}] is a genuine packet (generation {g}, installed {:?}) that was not processed before, yet it was not processed: before [{b:?}] after [{a:?}]", Self::installed(&b)),
                );
                return;
            }
        }
        // ---- bookkeeping of our generation
        if a.cur != b.cur {
            self.updates += 1;
            self.phase_first = self.sends;
            // reached through the peer's packet
            self.remote_update_unanswered = true;
            self.first_new_gen_at = Some(self.t);
        } else if opened && tag == a.cur && self.first_new_gen_at.is_none() {
            self.first_new_gen_at = Some(self.t);
        }
        if a.st != "est" {
            self.conforming = false;
        }
    }

    /// RFC 9001 6.1: "An endpoint MUST NOT initiate a subsequent key update unless it has received an acknowledgment for a
    /// packet that was sent protected with keys from the current key phase."  Called when a LOCAL update took effect.
    fn local_update_took_effect(&mut self, line: &str, a: &View) {
        if self.updates > 0 && self.acked_max.map_or(true, |x| x < self.phase_first) {
            self.fail(
                "C04-local-update-before-ack",
                format!("[{line}] started a key update (now generation {:?}) although {} key update(s) took place before and no packet sent in the current key phase (packet numbers >= {}) was acknowledged (largest acknowledged: {:?}): [{a:?}]", a.cur, self.updates, self.phase_first, self.acked_max),
            );
        }
        self.updates += 1;
        self.phase_first = self.sends;
        self.remote_update_unanswered = false;
        self.first_new_gen_at = None;
    }

    /// an ACK frame of the peer for our packet `pn` arrives
    fn ackd(&mut self, pn: u64) {
        if self.exec(&format!("keyupd ackd {pn}")).is_some() && pn < self.sends {
            self.acked_max = Some(self.acked_max.map_or(pn, |x| x.max(pn)));
        }
    }

    fn peer_send(&mut self, rng: &mut Rng) -> Sent {
        if rng.chance(1, 6) {
            self.gaps.push(self.peer_pn);
            self.peer_pn += 1;
        }
        let s = Sent { pn: self.peer_pn, gen: self.peer_gen };
        self.peer_pn += 1;
        self.sent.push(s);
        s
    }

    fn deliver(&mut self, s: Sent) {
        self.rx(s.pn, parity(s.gen), Some(s.gen), false, true);
    }

    /// the peer's packets carry ACK frames for what it received from us
    fn maybe_ack(&mut self, rng: &mut Rng) {
        if let Some(pn) = self.peer_got_pn {
            if !self.dead && self.v.st == "est" && self.acked_max.map_or(true, |a| a < pn) && rng.chance(1, 2) {
                self.ackd(pn);
            }
        }
    }

    fn local_send(&mut self, rng: &mut Rng) {
        let Some((b, a)) = self.exec("keyupd send") else { return };
        if b.st != "est" {
            return;
        }
        let w: Vec<&str> = a.head.split_ascii_whitespace().collect();
        let (Some(bit), Some(g)) = (w.get(1).and_then(|x| x.parse::<u64>().ok()), w.get(2).and_then(|x| x.parse::<u64>().ok())) else {
            self.fail("keyupd-parse", format!("send answered [{}]", a.head));
            return;
        };
        if w[0] != "sent" || bit != parity(g) {
            self.fail("keyupd-parse", format!("send answered [{}]", a.head));
            return;
        }
        if g < self.max_gen_processed {
            self.fail(
                "C04-acked-with-old-keys",
                format!("a packet of generation {} was processed, then a packet was sent with the keys of generation {g} (RFC 9001 6.2: sending keys are updated before the acknowledgement): [{a:?}]", self.max_gen_processed),
            );
            return;
        }
        if a.cur != b.cur {
            // routine update (takes place before the packet is built)
            self.local_update_took_effect("keyupd send", &a);
        }
        let pn = self.sends;
        self.sends += 1;
        if a.npn != self.sends {
            self.fail("keyupd-parse", format!("the executor's next packet number {} is not the number of packets sent {}", a.npn, self.sends));
            return;
        }
        self.last_sent_gen = Some(g);
        self.remote_update_unanswered = false;
        // does it reach the peer?
        if rng.chance(3, 4) {
            self.peer_got_pn = Some(pn);
            self.peer_saw_gen = Some(self.peer_saw_gen.map_or(g, |x| x.max(g)));
            if let Some(owed) = self.owe_ack_for.take() {
                if owed == self.peer_gen {
                    self.peer_acked = true;
                }
            }
            if g > self.peer_gen && self.conforming {
                // the peer follows our update
                self.peer_gen = g;
                self.peer_acked = false;
            }
        }
    }

    fn local_update(&mut self) {
        let Some((b, a)) = self.exec("keyupd update") else { return };
        if a.cur != b.cur {
            self.local_update_took_effect("keyupd update", &a);
        } else if b.st == "est" && b.prev.is_none() {
            self.blocked_updates += 1;
        }
    }

    fn tick(&mut self, us: u64) {
        self.t += us;
        self.exec(&format!("keyupd tick {us}"));
    }

    fn timeout(&mut self) {
        let Some((b, a)) = self.exec("keyupd timeout") else { return };
        if let (Some(t0), Some(p)) = (self.first_new_gen_at, a.prev) {
            if b.st == "est" && self.conforming && self.t >= t0 + 3 * PTO {
                self.fail(
                    "C04-old-keys-kept-too-long",
                    format!("the first packet of generation {:?} was opened at {t0} us, timeouts were serviced at {} us >= 3 PTO later, but the receive keys of generation {} are still installed (RFC 9001 6.5): [{a:?}]", a.cur, self.t, p.0),
                );
            }
        }
    }
}

pub fn keyupd(rng: &mut Rng, r: &mut Runner, maxops: usize) {
    if rng.chance(1, 40) {
        // ill-formed requests
        let bad = [
            "keyupd rx", "keyupd rx 1 2 0", "keyupd rx 1073741824 0 0", "keyupd rx 1 0 4294967296", "keyupd rx 1 0 0 rsv x",
            "keyupd rx -1 0 0", "keyupd tick 1000000001", "keyupd tick", "keyupd env 1 2", "keyupd frob", "keyupd", "keyupd update now",
            "keyupd send 1", "keyupd timeout 3", "keyupd rx 1 0 forgedx", "keyupd ackd", "keyupd ackd 0", "keyupd ackd x",
        ];
        for _ in 0..1 + rng.below(4) {
            let l = *rng.pick(&bad);
            r.op(l);
        }
        r.op("keyupd view");
        return;
    }
    let budget = 4 + maxops * 5;
    let first = r.op(&format!("keyupd env {PTO} {LIMIT} {PHASE}"));
    let Some(v) = parse(&first) else {
        r.oracle_fail(&format!("key=keyupd-parse unparsable response [{first}]"));
        return;
    };
    if v.head != "ok" {
        r.oracle_fail(&format!("key=keyupd-env the executor's connection does not have the announced PTO / integrity limit / phase size: [{first}]"));
        return;
    }
    let mut s = Sim {
        r,
        v,
        t: 0,
        peer_gen: 0,
        peer_pn: rng.below(3),
        sent: Vec::new(),
        undelivered: Vec::new(),
        gaps: Vec::new(),
        conforming: true,
        peer_saw_gen: None,
        peer_acked: false,
        processed: BTreeSet::new(),
        gen_of_pn: BTreeMap::new(),
        max_processed: None,
        max_gen_processed: 0,
        owe_ack_for: None,
        last_sent_gen: None,
        remote_update_unanswered: false,
        first_new_gen_at: None,
        updates: 0,
        sends: 0,
        phase_first: 0,
        peer_got_pn: None,
        acked_max: None,
        blocked_updates: 0,
        hostile_after_update: false,
        dead: false,
    };
    let hostile_peer = rng.chance(1, 6);
    let flood = rng.chance(1, 12);
    let mut ops = 0;
    while ops < budget && !s.dead {
        ops += 1;
        let closed = s.v.st != "est";
        let k = rng.below(100);
        match k {
            // ---- genuine traffic of the peer
            0..=29 if !closed && s.conforming => {
                let p = s.peer_send(rng);
                match rng.below(10) {
                    0..=6 => {
                        s.deliver(p);
                        s.maybe_ack(rng);
                    }
                    7 | 8 => s.undelivered.push(p), // delayed (or lost)
                    _ => {
                        // duplicated by the network
                        s.deliver(p);
                        if !s.dead {
                            s.deliver(p);
                        }
                    }
                }
            }
            // ---- a delayed packet arrives
            30..=37 if !s.undelivered.is_empty() => {
                let i = rng.below(s.undelivered.len() as u64) as usize;
                let p = s.undelivered.swap_remove(i);
                s.deliver(p);
            }
            // ---- the peer updates its keys (after one of its packets of this generation was answered)
            38..=45 if !closed && s.conforming => {
                let cur = s.v.cur.unwrap_or(0);
                if s.peer_acked && (cur == s.peer_gen || cur == s.peer_gen + 1) {
                    s.peer_gen += 1;
                    s.peer_acked = false;
                    let p = s.peer_send(rng);
                    s.deliver(p);
                } else {
                    s.local_send(rng);
                }
            }
            // ---- local side
            46..=55 => s.local_send(rng),
            56..=61 => s.local_update(),
            62..=69 => {
                let us = match rng.below(7) {
                    0 => 1,
                    1 => PTO,
                    2 => 3 * PTO - 1,
                    3 => 3 * PTO,
                    4 => 3 * PTO + 1,
                    5 => rng.below(3 * PTO),
                    _ => rng.below(10 * PTO),
                };
                s.tick(us);
                if rng.chance(2, 3) && !s.dead {
                    s.timeout();
                }
            }
            70..=72 => s.timeout(),
            73 => {
                if s.sends > 0 && rng.chance(3, 4) {
                    let pn = rng.below(s.sends);
                    s.ackd(pn);
                } else {
                    // acknowledges a packet that was never sent: refused by the executor (bad-op)
                    let line = format!("keyupd ackd {}", s.sends + rng.below(3));
                    s.r.op(&line);
                }
            }
            // ---- replay of a genuine packet that was sent earlier (any generation)
            74..=80 if !s.sent.is_empty() => {
                let p = *rng.pick(&s.sent);
                if s.updates > 0 {
                    s.hostile_after_update = true;
                }
                s.rx(p.pn, parity(p.gen), Some(p.gen), false, true);
            }
            // ---- attacker without keys
            81..=92 => {
                let rx = s.v.rx;
                let pn = match rng.below(5) {
                    0 => rx + 1,
                    1 => rx,
                    2 => rx.saturating_sub(rng.below(5)),
                    3 => s.v.prev.and_then(|p| p.1).map_or(rx + 2, |e| if rng.chance(1, 2) { e } else { e.saturating_sub(1) }),
                    _ => rng.below(1 << 20),
                };
                let cur = s.v.cur.unwrap_or(0);
                let (bit, tag) = match rng.below(8) {
                    0 | 1 => (rng.below(2), None),
                    2 => (1 - parity(cur), Some(cur)),                 // current keys, flipped bit
                    3 => (parity(cur + 1), Some(cur + 2)),             // a generation that does not exist yet
                    4 => (rng.below(2), Some(cur + 2 + rng.below(3))),
                    5 if cur >= 2 => (parity(cur), Some(cur - 2)),     // stale generation, same bit as the current one
                    6 if cur >= 1 => (rng.below(2), Some(cur - 1)),    // previous generation (retained or not), either bit
                    _ => (rng.below(2), Some(cur + 1)),                // next generation, either bit (only the right bit may open)
                };
                if s.updates > 0 {
                    s.hostile_after_update = true;
                }
                // a tag of an installed generation with the right bit IS a genuine-key packet: then it is the (possibly
                // hostile) peer speaking; keep those for the hostile-peer arm
                let installed = Sim::installed(&s.v);
                if tag.is_some_and(|g| installed.contains(&g) && parity(g) == bit) {
                    s.rx(pn, bit, None, false, false);
                } else {
                    s.rx(pn, bit, tag, rng.chance(1, 10), false);
                }
            }
            // ---- the key-holding peer violates RFC 9001
            93..=96 if hostile_peer && !closed && s.conforming => {
                let cur = s.v.cur.unwrap_or(0);
                let b = s.v.clone();
                match rng.below(3) {
                    0 => {
                        // 6.2: consecutive update: our generation was reached through the peer's update and we sent nothing since
                        let pn = s.peer_pn.max(b.rx + 1);
                        s.peer_pn = pn + 1;
                        let demand = s.remote_update_unanswered && b.prev.is_some_and(|p| p.0 + 1 == cur);
                        s.conforming = false;
                        s.rx(pn, parity(cur + 1), Some(cur + 1), false, false);
                        if demand && !s.dead && s.v.err != "KEY_UPDATE_ERROR" {
                            s.fail(
                                "C04-key-update-error-class",
                                format!("the peer updated to generation {cur}, we sent nothing since, and it updated again (packet {pn}, generation {}): RFC 9001 6.2 KEY_UPDATE_ERROR expected: before [{b:?}] after [{:?}]", cur + 1, s.v),
                            );
                        }
                    }
                    1 => {
                        // 6.4: a lower-numbered packet under newer keys than a higher-numbered one already opened
                        let Some(&pn) = s.gaps.iter().find(|&&g| g < b.rx && !s.processed.contains(&g)) else { continue };
                        let demand = b.prev.is_none() && s.max_processed.is_some_and(|m| m > pn) && s.gen_of_pn.values().all(|&g| g <= cur);
                        s.conforming = false;
                        s.rx(pn, parity(cur + 1), Some(cur + 1), false, false);
                        if demand && !s.dead && s.v.err != "KEY_UPDATE_ERROR" {
                            s.fail(
                                "C04-key-update-error-class",
                                format!("packet {pn} opens under the next keys (generation {}) although packet {} was already opened under generation <= {cur}: RFC 9001 6.4 KEY_UPDATE_ERROR expected: before [{b:?}] after [{:?}]", cur + 1, b.rx, s.v),
                            );
                        }
                    }
                    _ => {
                        // authentic packet with the reserved bits set: PROTOCOL_VIOLATION (RFC 9000 17.3.1), only after AEAD success
                        let pn = s.peer_pn;
                        s.peer_pn += 1;
                        s.conforming = false;
                        s.rx(pn, parity(cur), Some(cur), true, false);
                        if !s.dead && s.v.err != "PROTOCOL_VIOLATION" {
                            s.fail(
                                "C04-key-update-error-class",
                                format!("an authentic packet with reserved bits set must end the connection with PROTOCOL_VIOLATION: [{:?}]", s.v),
                            );
                        }
                    }
                }
                // (a packet that did not open - e.g. the next generation offered while our own update is unconfirmed, so
                // that the previous keys are tried - only counts as a failed authentication, which may be the one that
                // passes the integrity limit)
                if !s.dead && s.v.head.starts_with("o:1") && s.v.err != "-" && s.v.err != "KEY_UPDATE_ERROR" && s.v.err != "PROTOCOL_VIOLATION" {
                    let v = s.v.clone();
                    s.fail("C04-key-update-error-class", format!("unexpected error class: [{v:?}]"));
                }
            }
            // ---- flood of forgeries up to the integrity limit
            97..=99 if flood => {
                for _ in 0..LIMIT + 2 {
                    if s.dead {
                        break;
                    }
                    let rx = s.v.rx;
                    s.rx(rx + 1 + rng.below(3), rng.below(2), None, false, false);
                }
            }
            _ => {
                let p = s.peer_send(rng);
                if !closed && s.conforming {
                    s.deliver(p);
                } else {
                    s.local_send(rng);
                }
            }
        }
    }
    if s.updates > 0 && s.hostile_after_update {
        s.r.nontrivial();
    }
    let _ = s.blocked_updates;
}
