//! Generator + C01 oracles for `Assembler` (component `asm`).
//!
//! The implementation chooses chunk boundaries and when to defragment; requests therefore carry the
//! implementation's observed choice (`Runner::op_observed`) and the model validates it.
//! A1/A2 were defects of the pinned code (re-delivery in unordered mode); they are repaired in
//! assembler.rs, the oracle keys stay so that a regression is reported under the same name.
use super::sbuf::ground;
use crate::{hex, Rng, Runner};

pub const ASM_RULE: &str = "case = up to maxops Assembler ops over a ground stream of 20..400 bytes: STREAM frames of a random framing plus re-framed retransmissions and exact duplicates, delivered in random order with allocation sizes len, len+small, 1200 or 40000 (forces defragmentation), interleaved with ordered/unordered reads (max_length 0,1,2,3,5,10,100,2^62), ensure_ordering, rare clear; empty frames (incl. FIN-only) in both modes; case 0/1 of a run replay the witnesses of the repaired defects A1/A2, 1 case in 300 drives >1024 chunks (TooManyChunks); 10% malformed (boundary-biased offsets up to 2^64, alloc < len). non-trivial = out-of-order arrival + overlapping retransmission + at least 3 data reads";

const KEY_A1: &str = "A1-stale-chunk-after-ordered-to-unordered-switch";
const KEY_A2: &str = "A2-empty-frame-poisons-received-ranges";

fn obs_insert(resp: &str) -> String {
    if resp.starts_with("ok") {
        "ok".into()
    } else if resp.starts_with("err TooManyChunks") {
        "toomany".into()
    } else {
        "panic".into()
    }
}

fn obs_read(resp: &str) -> String {
    let w: Vec<&str> = resp.split(' ').collect();
    match w.first().copied() {
        Some("ok") if w.len() > 3 => format!("{} {}", w[1], w[2]),
        Some("none") => "none".into(),
        Some("err") => "err".into(),
        _ => "panic".into(),
    }
}

struct Track {
    /// offsets inserted since the last clear (and not known to be dropped as already read)
    have: Vec<bool>,
    /// offsets handed to the application
    delivered: Vec<bool>,
    /// ordered mode: the read index; length of the concatenated ordered output
    next: u64,
    unordered: bool,
    /// read index when unordered mode was entered (everything below was read in ordered mode)
    switch_at: Option<u64>,
    empty_in_unordered: bool,
    cleared: bool,
    reads: u32,
    /// key of the finding under which a duplicate delivery was reported in this case
    dup_key: Option<&'static str>,
}

fn fail_once(r: &mut Runner, key: &str, what: &str) {
    let tag = format!("key={key} ");
    if !r.oracle_failures.iter().any(|f| f.contains(&tag)) {
        r.oracle_fail(&format!("{tag}{what}"));
    }
}

fn do_insert(r: &mut Runner, t: &mut Track, off: u64, len: u64, alloc: u64) -> String {
    let resp = r.op_observed(
        &format!("asm insert {off} {len} {alloc}"),
        Some(&obs_insert),
    );
    if resp.starts_with("ok") || resp.starts_with("err TooManyChunks") {
        if t.unordered && len == 0 {
            t.empty_in_unordered = true;
        }
        for x in off..off + len {
            if (x as usize) < t.have.len() {
                t.have[x as usize] = true;
            }
        }
    }
    resp
}

/// ordered / unordered read with the C01 oracles applied to the implementation's answer
fn do_read(r: &mut Runner, t: &mut Track, max: u64, ordered: bool) -> String {
    let m = if ordered { "ord" } else { "unord" };
    let resp = r.op_observed(&format!("asm read {max} {m}"), Some(&obs_read));
    let w: Vec<&str> = resp.split(' ').collect();
    match w[0] {
        "err" => {
            // ordered read after an unordered one must be refused, and only then
            if !(ordered && t.unordered) {
                fail_once(
                    r,
                    "asm-illegal-ordered",
                    &format!("read refused although legal: {resp}"),
                );
            }
        }
        "none" => {
            if ordered && t.unordered {
                fail_once(
                    r,
                    "asm-illegal-ordered",
                    "ordered read after unordered read was not refused",
                );
            }
            t.unordered |= !ordered;
            if !t.cleared || ordered {
                let pending = if ordered {
                    t.have.get(t.next as usize).copied().unwrap_or(false)
                } else {
                    (0..t.have.len()).any(|x| t.have[x] && !t.delivered[x])
                };
                if pending {
                    fail_once(r, "asm-lost-data", &format!("read returned nothing although received data is waiting (read index {})", t.next));
                }
            }
        }
        "ok" => {
            if ordered && t.unordered {
                fail_once(
                    r,
                    "asm-illegal-ordered",
                    "ordered read after unordered read was not refused",
                );
            }
            t.unordered |= !ordered;
            let off: u64 = w[1].parse().unwrap();
            let len: u64 = w[2].parse().unwrap();
            let want: Vec<u8> = (off..off + len).map(ground).collect();
            if w[3] != hex(&want) {
                fail_once(
                    r,
                    "asm-content",
                    &format!(
                        "chunk at {off} len {len} differs from the bytes written at that offset"
                    ),
                );
            }
            if len > max || (len == 0 && max != 0) {
                fail_once(
                    r,
                    "asm-max-length",
                    &format!("chunk of {len} bytes for max_length {max}"),
                );
            }
            if len > 0 {
                t.reads += 1;
            }
            if ordered {
                if off != t.next {
                    fail_once(r, "asm-ordered-prefix", &format!("ordered read returned offset {off}, expected {} (gap, duplicate or reordering)", t.next));
                }
                t.next = off + len;
            } else {
                let dup = (off..off + len)
                    .find(|&x| t.delivered.get(x as usize).copied().unwrap_or(false));
                if let Some(x) = dup {
                    if t.switch_at.is_some_and(|r| x < r) {
                        t.dup_key = Some(KEY_A1);
                        fail_once(r, KEY_A1, &format!("offset {x} was read in ordered mode and is returned again by an unordered read (chunk {off}+{len})"));
                    } else if t.empty_in_unordered {
                        t.dup_key = Some(KEY_A2);
                        fail_once(r, KEY_A2, &format!("offset {x} returned twice by unordered reads after an empty frame was received (chunk {off}+{len})"));
                    } else {
                        fail_once(
                            r,
                            "asm-duplicate-delivery",
                            &format!("offset {x} returned twice (chunk {off}+{len})"),
                        );
                    }
                }
            }
            for x in off..off + len {
                if (x as usize) < t.delivered.len() {
                    t.delivered[x as usize] = true;
                }
            }
        }
        _ => {}
    }
    resp
}

fn enter_unordered_bookkeeping(t: &mut Track) {
    if !t.unordered && t.switch_at.is_none() {
        t.switch_at = Some(t.next);
    }
}

pub fn asm(rng: &mut Rng, r: &mut Runner, maxops: usize) {
    let idx: u64 = r
        .case_id
        .rsplit('-')
        .next()
        .and_then(|x| x.parse().ok())
        .unwrap_or(u64::MAX);
    let mut t = Track {
        have: vec![false; 2600],
        delivered: vec![false; 2600],
        next: 0,
        unordered: false,
        switch_at: None,
        empty_in_unordered: false,
        cleared: false,
        reads: 0,
        dup_key: None,
    };
    if idx == 0 {
        // witness of finding A1
        do_insert(r, &mut t, 0, 10, 10);
        do_insert(r, &mut t, 2, 4, 4);
        do_read(r, &mut t, 100, true);
        enter_unordered_bookkeeping(&mut t);
        do_read(r, &mut t, 100, false);
        do_read(r, &mut t, 100, false);
        r.nontrivial();
        return;
    }
    if idx == 1 {
        // witness of finding A2
        enter_unordered_bookkeeping(&mut t);
        r.op("asm ensure unord");
        t.unordered = true;
        do_insert(r, &mut t, 20, 0, 0);
        do_insert(r, &mut t, 25, 5, 5);
        do_read(r, &mut t, 100, false);
        do_insert(r, &mut t, 15, 15, 15);
        do_read(r, &mut t, 100, false);
        do_read(r, &mut t, 100, false);
        r.nontrivial();
        return;
    }
    if rng.chance(1, 10) {
        return malformed(rng, r, maxops);
    }
    if rng.chance(1, 300) {
        return too_many(rng, r, &mut t);
    }
    // ---- a sender's frames: framing of [0,L) + retransmissions with another framing + duplicates
    let total = rng.range(20, 400);
    let mut frames: Vec<(u64, u64)> = Vec::new();
    let framings = 1 + rng.below(3);
    for _ in 0..framings {
        let mut o = 0;
        let big = rng.chance(1, 3);
        while o < total {
            let len = if big {
                rng.range(1, 120)
            } else {
                rng.range(1, 25)
            }
            .min(total - o);
            if frames.is_empty() || rng.chance(2, 3) || framings == 1 {
                frames.push((o, len));
            }
            o += len;
        }
    }
    let base = frames.clone();
    for _ in 0..rng.below(4) {
        let f = *rng.pick(&base);
        frames.push(f); // exact duplicate (spurious retransmission)
    }
    if rng.chance(1, 4) {
        frames.push((rng.below(total), 0)); // empty frame
        frames.push((total, 0)); // FIN-only frame
    }
    // delivery order: mostly in order with local swaps, sometimes fully shuffled
    if rng.chance(1, 3) {
        for i in (1..frames.len()).rev() {
            let j = rng.below(i as u64 + 1) as usize;
            frames.swap(i, j);
        }
    } else {
        frames.sort();
        for _ in 0..frames.len() / 3 {
            let i = rng.below(frames.len() as u64) as usize;
            let j = (i + 1 + rng.below(3) as usize).min(frames.len() - 1);
            frames.swap(i, j);
        }
    }
    let go_unordered_at = if rng.chance(1, 3) {
        Some(rng.below(maxops as u64 + 1) as usize)
    } else {
        None
    };
    let mut want_unordered = rng.chance(1, 8);
    let (mut ooo, mut overlap) = (false, false);
    let mut hi = 0u64;
    let mut fi = 0;
    for n in 0..maxops {
        if Some(n) == go_unordered_at {
            want_unordered = true;
        }
        let ordered = !want_unordered;
        let resp = match rng.below(100) {
            0..=54 if fi < frames.len() => {
                let (off, len) = frames[fi];
                fi += 1;
                if off < hi {
                    ooo = true;
                }
                if (off..off + len).any(|x| t.have[x as usize]) {
                    overlap = true;
                }
                hi = hi.max(off + len);
                let alloc = match rng.below(8) {
                    0 => 40000,
                    1 => 1200.max(len),
                    2 => len + rng.below(8),
                    _ => len,
                };
                do_insert(r, &mut t, off, len, alloc)
            }
            55..=92 | 0..=54 => {
                let max = match rng.below(10) {
                    0 if rng.chance(1, 3) => 0,
                    0 | 1 => 1,
                    2 => rng.range(2, 3),
                    3 => 5,
                    4 => 10,
                    5 => 1 << 62,
                    _ => 100,
                };
                if !ordered {
                    enter_unordered_bookkeeping(&mut t);
                }
                do_read(r, &mut t, max, ordered)
            }
            93..=95 => {
                if !ordered {
                    enter_unordered_bookkeeping(&mut t);
                    t.unordered = true;
                }
                let resp = r.op(&format!(
                    "asm ensure {}",
                    if ordered { "ord" } else { "unord" }
                ));
                if resp.starts_with("err") != (ordered && t.unordered) {
                    fail_once(
                        r,
                        "asm-illegal-ordered",
                        &format!("ensure_ordering({ordered}) -> {resp}"),
                    );
                }
                resp
            }
            96 => {
                let q = r.op("asm q");
                if ordered && !t.unordered && q != format!("ok {}", t.next) {
                    fail_once(
                        r,
                        "asm-bytes-read",
                        &format!("bytes_read {q}, ordered output has {} bytes", t.next),
                    );
                }
                continue;
            }
            97 if rng.chance(1, 4) => {
                t.cleared = true;
                for x in t.have.iter_mut() {
                    *x = false;
                }
                r.op("asm clear")
            }
            _ => {
                // a late re-framed retransmission of something already sent
                let off = rng.below(total);
                let len = rng.range(1, 30).min(total - off);
                if (off..off + len).any(|x| t.have[x as usize]) {
                    overlap = true;
                }
                do_insert(r, &mut t, off, len, len + rng.below(3))
            }
        };
        if resp == "panic" {
            // after a duplicate delivery bytes_read exceeds end and `self.end - self.bytes_read`
            // underflows in `insert` (debug builds): a consequence of that finding
            match t.dup_key {
                Some(k) => fail_once(r, k, "Assembler::insert panicked (end - bytes_read underflow) after the duplicate delivery"),
                None => fail_once(r, "asm-panic", "Assembler panicked on well-formed stream frames"),
            }
            return;
        }
        if ooo && overlap && t.reads >= 3 {
            r.nontrivial();
        }
    }
}

fn too_many(rng: &mut Rng, r: &mut Runner, t: &mut Track) {
    // more than 1024 disjoint one-byte chunks with exact allocations, then one over-allocated frame
    let n = 1025 + rng.below(40);
    if rng.chance(1, 2) {
        r.op("asm ensure unord");
        t.unordered = true;
    }
    for i in 0..n {
        do_insert(r, t, 2 * i + 1, 1, 1);
    }
    let resp = do_insert(r, t, 2 * n + 5, 3, 40000);
    if !resp.starts_with("err TooManyChunks") {
        // not a C01 matter; the model only says when the error is *allowed*
    }
    do_read(r, t, 10, !t.unordered);
    let ordered = !t.unordered;
    do_insert(r, t, 0, 1, 1);
    do_read(r, t, 10, ordered);
    r.nontrivial();
}

fn malformed(rng: &mut Rng, r: &mut Runner, maxops: usize) {
    for _ in 0..maxops {
        let resp = match rng.below(10) {
            0..=4 => {
                let off = match rng.below(3) {
                    0 => rng.biased(),
                    1 => u64::MAX - rng.below(40),
                    _ => rng.below(60),
                };
                let len = rng.below(40);
                let alloc = if rng.chance(1, 10) {
                    rng.below(len + 1)
                } else {
                    len + rng.below(3)
                };
                r.op_observed(
                    &format!("asm insert {off} {len} {alloc}"),
                    Some(&obs_insert),
                )
            }
            5..=7 => {
                let max = if rng.chance(1, 2) {
                    rng.biased()
                } else {
                    rng.below(50)
                };
                let m = if rng.chance(2, 3) { "ord" } else { "unord" };
                r.op_observed(&format!("asm read {max} {m}"), Some(&obs_read))
            }
            8 => r.op(&format!(
                "asm ensure {}",
                if rng.chance(1, 2) { "ord" } else { "unord" }
            )),
            _ => {
                if rng.chance(1, 3) {
                    r.op("asm clear")
                } else {
                    r.op("asm q")
                }
            }
        };
        r.nontrivial();
        if resp == "panic" {
            return;
        }
    }
}
