//! Generator and oracles for the `streams` component (StreamsState through Streams / SendStream /
//! RecvStream and the frame-level entry points).
use std::collections::{BTreeMap, BTreeSet};

use crate::{Rng, Runner};

pub const STREAMS_RULE: &str = "case = new(side, limits) + set_params + up to maxops operations of both roles: application (open/accept/write/finish/reset/stopped/prio/read/stop/received_reset/poll), peer frames (STREAM/RESET_STREAM/STOP_SENDING/MAX_DATA/MAX_STREAM_DATA/MAX_STREAMS, mostly valid for the tracked stream state, offsets one below/at/above every advertised limit, plus a malformed share), packetisation (transmit with observed frames then ack/lost of exactly those frames, control-frame flush, re-queued MAX_*), window changes, and for clients the 0-RTT ops (rejected + new params, Retry retransmit_all); limits drawn from 0/1/small/varint boundaries; non-trivial = some write was accepted or some frame carried new bytes, and at least one error, Blocked, none or boundary outcome was observed";

const V62: u64 = (1 << 62) - 1;

#[derive(Default, Clone, Debug)]
pub struct View {
    pub result: String,
    pub kv: BTreeMap<String, String>,
    pub send: BTreeMap<u64, BTreeMap<String, String>>,
    pub recv: BTreeMap<u64, BTreeMap<String, String>>,
    pub pend: BTreeMap<String, String>,
}

impl View {
    pub fn parse(resp: &str) -> Option<Self> {
        let mut parts = resp.split(" | ");
        let result = parts.next()?.to_string();
        let state = parts.next()?;
        let pend = parts.next()?;
        let mut v = Self {
            result,
            ..Self::default()
        };
        // global part: up to the first " S<digit>" / " R<digit>" entry
        let mut rest = state;
        let mut entries: Vec<&str> = Vec::new();
        if let Some(i) = find_entry(state) {
            rest = &state[..i];
            let mut e = &state[i + 1..];
            loop {
                match find_entry(e) {
                    Some(j) => {
                        entries.push(&e[..j]);
                        e = &e[j + 1..];
                    }
                    None => {
                        entries.push(e);
                        break;
                    }
                }
            }
        }
        for tok in rest.split(' ') {
            if let Some((k, val)) = tok.split_once('=') {
                v.kv.insert(k.to_string(), val.to_string());
            }
        }
        for e in entries {
            let br = e.find('[')?;
            let id: u64 = e[1..br].parse().ok()?;
            let body = &e[br + 1..e.len() - 1];
            let mut m = BTreeMap::new();
            for tok in body.split(' ') {
                if let Some((k, val)) = tok.split_once('=') {
                    m.insert(k.to_string(), val.to_string());
                }
            }
            if e.starts_with('S') {
                v.send.insert(id, m);
            } else {
                v.recv.insert(id, m);
            }
        }
        for tok in pend.split(' ') {
            if let Some((k, val)) = tok.split_once('=') {
                v.pend.insert(k.to_string(), val.to_string());
            }
        }
        Some(v)
    }
    pub fn n(&self, k: &str) -> u64 {
        self.kv.get(k).and_then(|s| s.parse().ok()).unwrap_or(0)
    }
    pub fn two(&self, k: &str) -> [u64; 2] {
        let s = self.kv.get(k).cloned().unwrap_or_default();
        let mut it = s.split(',').map(|x| x.parse().unwrap_or(0));
        [it.next().unwrap_or(0), it.next().unwrap_or(0)]
    }
    pub fn sn(&self, id: u64, k: &str) -> Option<u64> {
        self.send.get(&id)?.get(k)?.parse().ok()
    }
    pub fn ss(&self, id: u64, k: &str) -> Option<&str> {
        self.send.get(&id)?.get(k).map(|s| s.as_str())
    }
    pub fn rn(&self, id: u64, k: &str) -> Option<u64> {
        self.recv.get(&id)?.get(k)?.parse().ok()
    }
    pub fn rs(&self, id: u64, k: &str) -> Option<&str> {
        self.recv.get(&id)?.get(k).map(|s| s.as_str())
    }
    pub fn closed(&self) -> bool {
        self.pend.get("closed").map_or(false, |c| c == "1")
    }
}

/// byte index of the next " S<digit>" or " R<digit>" (start of a stream entry)
fn find_entry(s: &str) -> Option<usize> {
    let b = s.as_bytes();
    (0..b.len().saturating_sub(2)).find(|&i| b[i] == b' ' && (b[i + 1] == b'S' || b[i + 1] == b'R') && b[i + 2].is_ascii_digit())
}

fn sid(side: u64, dir: u64, index: u64) -> u64 {
    index * 4 + dir * 2 + side
}

/// small or boundary value for a limit
fn limit(rng: &mut Rng) -> u64 {
    match rng.below(10) {
        0 => 0,
        1 => 1,
        2 => rng.range(2, 40),
        3 => rng.range(40, 400),
        4 => rng.range(400, 70_000),
        5 => *rng.pick(&[63, 64, 16383, 16384, (1 << 30) - 1, 1 << 30]),
        6 => V62 - rng.below(3),
        7 => rng.biased().min(V62),
        _ => rng.range(10, 3000),
    }
}

fn count(rng: &mut Rng) -> u64 {
    match rng.below(8) {
        0 => 0,
        1 => 1,
        2 => 2,
        3 => rng.range(3, 8),
        4 => rng.range(8, 40),
        _ => rng.range(1, 5),
    }
}

struct G<'a> {
    rng: &'a mut Rng,
    r: &'a mut Runner,
    side: u64,
    v: View,
    rfc: Rfc,
    /// send halves this test finished or reset (successfully) itself
    closed_halves: BTreeSet<u64>,
    /// what this test wrote / finished / reset itself per stream, and which streams saw an acknowledgement
    wrote: BTreeMap<u64, u64>,
    finished_halves: BTreeSet<u64>,
    reset_halves: BTreeSet<u64>,
    acked_streams: BTreeSet<u64>,
    /// frames in flight: (id, a, b, fin)
    flight: Vec<(u64, u64, u64, bool)>,
    /// ids returned by open / accept
    local: Vec<u64>,
    accepted: Vec<u64>,
    /// local ids returned by open whose send half was never instantiated or freed so far
    fresh: BTreeSet<u64>,
    // ghost state of the properties (what the peer conveyed)
    peer_max_data: u64,
    peer_max_streams: [u64; 2],
    peer_stream_limit: BTreeMap<u64, u64>,
    params: [u64; 6],
    after_rejection: bool,
    max_rw: u64,
    dead: bool,
    early: bool,
    saw_progress: bool,
    saw_edge: bool,
    finished_events: BTreeSet<u64>,
    stopped_events: BTreeSet<u64>,
    sent_md: bool,
    sent_msd: BTreeSet<u64>,
    sent_ms: [bool; 2],
    /// C02 ghost: streams whose last write was refused (Blocked) and that have not been reported Writable since;
    /// directions whose last open was refused and that have not been reported Available since
    c02_blocked: BTreeSet<u64>,
    c02_open_blocked: [bool; 2],
    /// whole-history ghost: C11 Finished / concurrency slot, C02 lost Readable (gen/streams_hist.rs)
    h11: super::streams_hist::Hist11,
}

impl G<'_> {
    fn op(&mut self, line: &str) -> Option<View> {
        if self.dead {
            return None;
        }
        let words: Vec<&str> = line.split(' ').collect();
        let rfc_expect = self.rfc.expect(&words);
        let resp = self.r.op(&format!("streams {line}"));
        if resp == "panic" || resp == "bad-op" {
            self.dead = true;
            self.saw_edge = true;
            return None;
        }
        let nv = View::parse(&resp)?;
        let prev = std::mem::replace(&mut self.v, nv.clone());
        let rfc_expect_ok = rfc_expect.as_ref().map_or(true, |e| e.is_empty());
        if let Some(errs) = rfc_expect {
            if !self.rfc.diverged {
                self.rfc_compare(line, &words, &errs, &prev, &nv);
            }
        }
        // a frame the RFC refuses counts as never sent (the connection would be closed); the facts follow
        // the legal behaviour only
        let legal = rfc_expect_ok;
        self.rfc.update(&words, &nv.result, legal);
        if let Some(id) = words.get(1).and_then(|x| x.parse::<u64>().ok()) {
            if matches!(words[0], "finish" | "reset") && nv.result == "ok" {
                self.closed_halves.insert(id);
                if words[0] == "finish" {
                    self.finished_halves.insert(id);
                } else {
                    self.reset_halves.insert(id);
                }
            }
            if words[0] == "write" {
                if let Some(k) = nv.result.strip_prefix("ok ").and_then(|k| k.parse::<u64>().ok()) {
                    *self.wrote.entry(id).or_insert(0) += k;
                }
            }
            if matches!(words[0], "ack" | "rstack" | "stopsend") {
                self.acked_streams.insert(id);
            }
        }
        self.invariants(line, &prev, &nv);
        self.c02_notified(&words, &prev, &nv);
        let diverged = self.rfc.diverged;
        for (key, what) in self.h11.step(&words, &prev, &nv, legal, diverged) {
            self.fail(key, what);
        }
        Some(nv)
    }

    /// the implementation's answer against the RFC verdict (`errs` = acceptable error codes)
    fn rfc_compare(&mut self, line: &str, w: &[&str], errs: &[&'static str], prev: &View, v: &View) {
        let got_err: Option<&str> = v.result.strip_prefix("err ").map(|r| r.split(' ').next().unwrap_or(""));
        let unchanged = v.send == prev.send && v.recv == prev.recv && v.pend == prev.pend
            && ["ds", "md", "ua", "lmd", "dr", "nr", "mr", "nx", "mx"].iter().all(|k| v.kv.get(*k) == prev.kv.get(*k));
        let id: u64 = w.get(1).and_then(|x| x.parse().ok()).unwrap_or(u64::MAX);
        let facts = format!(
            "impl_recv_state={:?} adv_streams={:?} adv_max_data={} adv_msd={} opened={:?} sent_hw={:?} final={:?} total={}",
            prev.rs(id, "st").map(|s| format!("{s} sp={}", prev.rn(id, "sp").unwrap_or(0))),
            self.rfc.adv_streams, self.rfc.adv_max_data, self.rfc.msd(id), self.rfc.opened,
            self.rfc.hw.get(&id), self.rfc.fin.get(&id), self.rfc.total
        );
        match (errs.is_empty(), got_err) {
            (true, None) => {}
            (false, Some(e)) if errs.contains(&e) => {}
            (true, Some(e)) => {
                self.fail("C06-rfc-decision", format!("{line}: RFC accepts the frame, implementation answers {e} ({facts})"));
            }
            (false, Some(e)) => {
                self.fail("C06-rfc-decision", format!("{line}: RFC verdict {errs:?}, implementation answers {e} ({facts})"));
            }
            (false, None) => {
                // classes of leniency, each with its own key so that they can be judged one by one
                let d = (id / 2 % 2) as usize;
                let end: u64 = match w[0] {
                    "stream" => w[2].parse::<u64>().unwrap_or(0).saturating_add(w[3].parse::<u64>().unwrap_or(0)),
                    "rst" => w[3].parse().unwrap_or(0),
                    _ => 0,
                };
                let hw = self.rfc.hw.get(&id).cloned().unwrap_or(0);
                // the implementation's own (printed) limits, used ONLY to name the kind of leniency
                let within_internal_count = id / 4 < prev.two("mr")[d];
                let within_internal_conn = prev.n("dr").saturating_add(end.saturating_sub(prev.rn(id, "end").unwrap_or(hw))) <= prev.n("lmd");
                let data_frame = matches!(w[0], "stream" | "rst");
                let only = |allowed: &[&str]| errs.iter().all(|e| allowed.contains(e));
                let over_adv_conn = self.rfc.total.saturating_add(end.saturating_sub(hw)) > self.rfc.adv_max_data;
                let reset_recvd = prev.rs(id, "st").map_or(false, |s| s.starts_with("x:"));
                // Each leniency has its own narrow key: it fires only on exactly the described pattern; every
                // other disagreement is reported under the hard key `C06-rfc-decision`.
                let key = if w[0] == "stopsend" && unchanged {
                    // checked one level up (Connection::process_payload), nothing happened here
                    return;
                } else if matches!(w[0], "stream" | "rst" | "maxsd" | "stopsend") && only(&[E_LIMIT]) && within_internal_count {
                    // RFC 9000 4.6 — id above the advertised count, below the count quinn is about to advertise
                    "C06-lenient-max-streams-raised-before-advertised"
                } else if data_frame && errs.contains(&E_LIMIT) && only(&[E_LIMIT, E_FLOW]) && within_internal_count
                    && end <= self.rfc.msd(id) && over_adv_conn && within_internal_conn {
                    "C06-lenient-max-streams-and-max-data-raised-before-advertised"
                } else if data_frame && only(&[E_FLOW]) && end <= self.rfc.msd(id) && over_adv_conn && within_internal_conn {
                    // RFC 9000 4.1 — above the advertised MAX_DATA, within the value quinn is about to advertise
                    "C06-lenient-max-data-raised-before-advertised"
                } else if data_frame && only(&[E_FINAL, E_FLOW, E_ENC]) && !prev.recv.contains_key(&id) && unchanged {
                    // RFC 9000 4.5 — "Generating these errors is not mandatory" once the stream is closed
                    "C06-lenient-frame-for-closed-stream-ignored"
                } else if w[0] == "stream" && only(&[E_FINAL, E_FLOW, E_ENC]) && reset_recvd && unchanged {
                    // STREAM data after RESET_STREAM (reset not yet read by the application) is dropped unchecked
                    "C06-lenient-stream-frame-after-reset-ignored"
                } else {
                    "C06-rfc-decision"
                };
                if key == "C06-lenient-frame-for-closed-stream-ignored" {
                    // RFC 9000 4.5: "Generating these errors is not mandatory" once the stream is closed and its state
                    // dropped — the endpoint cannot know the final size any more; not a violation
                    return;
                }
                if !unchanged {
                    self.rfc.diverged = true;
                }
                self.fail(key, format!("{line}: RFC verdict {errs:?}, implementation accepts (state {}; {facts})", if unchanged { "unchanged" } else { "changed" }));
            }
        }
    }

    /// C02 (no lost application event, no withheld credit at the stream layer): an application that was refused and
    /// polls until nothing is reported must have been told once the PEER'S FRAMES (ghost credit, not the view) make
    /// room. Keys `C02-writable-lost`, `C02-available-lost`.
    fn c02_notified(&mut self, w: &[&str], prev: &View, v: &View) {
        let id: Option<u64> = w.get(1).and_then(|x| x.parse().ok());
        match w[0] {
            "write" => {
                if let Some(id) = id {
                    if v.result == "err Blocked" && !prev.closed() {
                        self.c02_blocked.insert(id);
                    } else {
                        self.c02_blocked.remove(&id);
                    }
                }
            }
            "open" => {
                let d = if w.get(1) == Some(&"bi") { 0 } else { 1 };
                self.c02_open_blocked[d] = v.result == "none" && !prev.closed();
            }
            // the half is closed by the application, or the peer stopped it (the writer is told `Stopped` instead)
            "finish" | "reset" | "stopsend" | "stopped" => {
                if let Some(id) = id {
                    self.c02_blocked.remove(&id);
                }
            }
            "poll" => {
                let mut it = v.result.split(' ');
                match it.next() {
                    Some("Writable") => {
                        if let Some(id) = it.next().and_then(|x| x.parse::<u64>().ok()) {
                            self.c02_blocked.remove(&id);
                        }
                    }
                    Some("Available") => {
                        if let Some(d) = it.next().and_then(|x| x.parse::<usize>().ok()) {
                            self.c02_open_blocked[d.min(1)] = false;
                        }
                    }
                    Some("none") if !v.closed() => {
                        // budget at connection level: the peer's MAX_DATA (ghost) against what was written, and the
                        // local send window
                        let conn = self.peer_max_data.saturating_sub(v.n("ds")).min(v.n("sw").saturating_sub(v.n("ua")));
                        for id in self.c02_blocked.clone() {
                            let Some(limit) = self.peer_stream_limit.get(&id).cloned() else { continue };
                            let (Some(off), Some(st)) = (v.sn(id, "off"), v.ss(id, "st")) else { continue };
                            let stopped = v.ss(id, "sr").map_or(false, |x| x != "-");
                            if conn > 0 && limit > off && st == "R" && !stopped && !self.closed_halves.contains(&id) {
                                self.fail("C02-writable-lost", format!("write on stream {id} was refused (Blocked); now the peer's limits leave room (stream {limit} > offset {off}, connection budget {conn}) and poll reports nothing: no Writable {id}"));
                            }
                        }
                        for d in 0..2 {
                            if self.c02_open_blocked[d] && self.peer_max_streams[d] > v.two("nx")[d] {
                                self.fail("C02-available-lost", format!("open {} was refused; now the peer's MAX_STREAMS {} > {} opened and poll reports nothing: no Available", ["bi", "uni"][d], self.peer_max_streams[d], v.two("nx")[d]));
                            }
                        }
                    }
                    _ => {}
                }
            }
            // frames and calls that leave the streams in place
            "maxdata" | "maxsd" | "maxstreams" | "ack" | "lost" | "transmit" | "stream" | "read" | "rst" | "rstack" | "rreset"
            | "stop" | "accept" | "prio" | "ctrl" | "view" | "sendwin" | "recvwin" | "maxconc" | "cansend" | "canflow" | "qmsi" | "pend" => {}
            // a new connection, new transport parameters, 0-RTT rejection, connection close: everything starts again
            _ => {
                self.c02_blocked.clear();
                self.c02_open_blocked = [false, false];
            }
        }
    }

    fn fail(&mut self, key: &str, what: String) {
        let tag = format!("key={key} ");
        if self.r.oracle_failures.iter().any(|f| f.contains(&tag)) {
            return; // one report per key and campaign
        }
        self.r.oracle_fail(&format!("{tag}{what}"));
    }

    /// the applicable initial stream limit for a send half on `id` under the current params
    fn initial_limit(&self, id: u64) -> u64 {
        let remote = id % 2 != self.side;
        if id / 2 % 2 == 1 {
            self.params[0]
        } else if remote {
            self.params[1]
        } else {
            self.params[2]
        }
    }

    /// state invariants of C05 / C06 applied to the implementation's printed accounting
    fn invariants(&mut self, line: &str, prev: &View, v: &View) {
        let w: Vec<&str> = line.split(' ').collect();
        // ---- C05: sender side
        let (ds, md) = (v.n("ds"), v.n("md"));
        if self.after_rejection && md > self.peer_max_data {
            self.fail(
                "F10-max_data-not-reset-on-0rtt-rejection",
                format!("after 0-RTT rejection max_data={md} > largest value conveyed since ({})", self.peer_max_data),
            );
        } else if md != self.peer_max_data {
            self.fail("C05-max_data-differs-from-conveyed", format!("max_data={md} conveyed max={} after {line}", self.peer_max_data));
        }
        if ds > self.peer_max_data {
            let key = if self.after_rejection && md > self.peer_max_data {
                "F10-max_data-not-reset-on-0rtt-rejection"
            } else {
                "C05-data_sent-exceeds-peer-max_data"
            };
            self.fail(key, format!("data_sent={ds} > peer MAX_DATA {} after {line}", self.peer_max_data));
        }
        let (nx, mx) = (v.two("nx"), v.two("mx"));
        for d in 0..2 {
            if nx[d] > self.peer_max_streams[d] || mx[d] != self.peer_max_streams[d] {
                self.fail("C05-stream-count", format!("next={nx:?} max={mx:?} peer MAX_STREAMS={:?} after {line}", self.peer_max_streams));
            }
        }
        let ids: Vec<u64> = v.send.keys().cloned().collect();
        for id in ids {
            self.fresh.remove(&id);
            let off = v.sn(id, "off").unwrap_or(0);
            let smd = v.sn(id, "md").unwrap_or(0);
            if !self.peer_stream_limit.contains_key(&id) {
                let l = self.initial_limit(id);
                self.peer_stream_limit.insert(id, l);
            }
            let ghost = self.peer_stream_limit[&id];
            if off > smd || off > ghost {
                self.fail("C05-stream-offset-exceeds-limit", format!("stream {id} offset={off} max_data={smd} conveyed={ghost} after {line}"));
            }
        }
        // retransmission / loss / acks never consume credit
        if matches!(w[0], "lost" | "transmit" | "ack" | "rstack" | "rtx0" | "ctrl" | "poll") {
            if v.n("ds") != prev.n("ds") || v.n("md") != prev.n("md") {
                self.fail("C05-retransmit-consumed-credit", format!("{line}: data_sent {}->{}", prev.n("ds"), v.n("ds")));
            }
            let mut bad: Vec<String> = Vec::new();
            for id in v.send.keys() {
                if let (Some(a), Some(b)) = (prev.sn(*id, "off"), v.sn(*id, "off")) {
                    if a != b {
                        bad.push(format!("{line}: stream {id} offset {a}->{b}"));
                    }
                }
            }
            for b in bad {
                self.fail("C05-retransmit-consumed-credit", b);
            }
        }
        // ---- C06: receiver accounting
        let (dr, lmd) = (v.n("dr"), v.n("lmd"));
        if dr > lmd {
            self.fail("C06-data_recvd-exceeds-local_max_data", format!("data_recvd={dr} local_max_data={lmd} after {line}"));
        }
        self.max_rw = self.max_rw.max(v.n("rw"));
        let srw = v.n("srw");
        let mut buffered: u128 = 0;
        let mut bad: Vec<String> = Vec::new();
        for (id, rcv) in &v.recv {
            let g = |k: &str| rcv.get(k).and_then(|x| x.parse::<u64>().ok()).unwrap_or(0);
            let (end, br, sm, sp) = (g("end"), g("br"), g("sm"), g("sp"));
            if end > sm || sm > br.saturating_add(srw) || br > end {
                bad.push(format!("stream {id} end={end} sent_max_stream_data={sm} bytes_read={br} window={srw} after {line}"));
            }
            if sp == 0 && !rcv.get("st").map_or(false, |s| s.starts_with('x')) {
                buffered += (end - br.min(end)) as u128;
            }
        }
        for b in bad {
            self.fail("C06-stream-bound", b);
        }
        // a known final size bounds what was received and what was handed to the application
        for (id, rcv) in &v.recv {
            let g = |k: &str| rcv.get(k).and_then(|x| x.parse::<u64>().ok()).unwrap_or(0);
            let fin_known: Option<u64> = rcv.get("st").and_then(|s| s.split(':').nth(1)).and_then(|s| s.parse().ok());
            if let Some(f) = fin_known {
                if g("end") > f || g("br") > f {
                    self.fail("C06-final-size-below-received", format!("stream {id} final size {f} but end={} bytes_read={} after {line}", g("end"), g("br")));
                }
            }
        }
        if buffered > self.max_rw as u128 {
            self.fail("C06-buffered-exceeds-receive-window", format!("buffered unread={buffered} > receive window {} after {line}", self.max_rw));
        }
        // credit is issued only for consumed or discarded data (and explicit window growth)
        let dl = lmd.saturating_sub(prev.n("lmd"));
        if dl > 0 && w[0] != "new" {
            let id: u64 = w.get(1).and_then(|x| x.parse().ok()).unwrap_or(u64::MAX);
            let (key, allowed): (&str, u64) = match w[0] {
                "read" => ("C06-credit-without-consumption", v.result.split(' ').nth(1).and_then(|x| x.parse().ok()).unwrap_or(0)),
                // stop discards what is buffered unread; after a reset there is nothing left to discard
                "stop" => {
                    let receiving = prev.rs(id, "st").map_or(true, |s| s.starts_with('r'));
                    let unread = prev.rn(id, "end").unwrap_or(0).saturating_sub(prev.rn(id, "br").unwrap_or(0));
                    ("F15-stop-after-reset-double-credit", if receiving { unread } else { 0 })
                }
                "stream" => ("C06-credit-without-consumption", dr.saturating_sub(prev.n("dr"))),
                // a reset discards what was not yet consumed or discarded: everything beyond the read
                // offset, or beyond the high-water mark if the stream was stopped before
                "rst" => {
                    let credited = if prev.rn(id, "sp") == Some(1) { prev.rn(id, "end").unwrap_or(0) } else { prev.rn(id, "br").unwrap_or(0) };
                    ("F14-reset-after-stop-double-credit", w[3].parse::<u64>().unwrap_or(0).saturating_sub(credited))
                }
                // an expansion first cancels unpaid shrink debt
                "recvwin" => {
                    let growth = v.n("rw").saturating_sub(prev.n("rw"));
                    ("F12-receive-window-expand-ignores-shrink-debt", growth - growth.min(prev.n("debt")))
                }
                _ => ("C06-credit-without-consumption", 0),
            };
            if dl > allowed {
                self.fail(key, format!("{line}: local_max_data grew by {dl}, consumed/discarded/granted {allowed}"));
            }
        }
        // no frame of any type opens more peer-initiated streams than were advertised
        if w[0] != "new" {
            let (nr, mr) = (v.two("nr"), v.two("mr"));
            for d in 0..2 {
                if nr[d] > mr[d] {
                    self.fail("C06-remote-streams-opened-beyond-limit", format!("{line}: next_remote {nr:?} > max_remote {mr:?}"));
                }
            }
        }
        // MAX_STREAMS credit only after a remote stream became fully closed (or the limit was raised)
        let (mr, pmr) = (v.two("mr"), prev.two("mr"));
        for d in 0..2 {
            if mr[d] > pmr[d] && !matches!(w[0], "new" | "maxconc") {
                // one more remote stream permitted: its predecessor must be gone from both maps
                let freed = prev.two("arc")[d] + (mr[d] - pmr[d]) - v.two("arc")[d];
                if freed == 0 || mr[d] - pmr[d] > freed {
                    self.fail("C06-max-streams-without-close", format!("{line}: max_remote {pmr:?}->{mr:?} allocated {:?}->{:?}", prev.two("arc"), v.two("arc")));
                }
            }
        }
        // C02 (no withheld stream-count update): a slot that an APPLICATION call gives back to the peer (stop, read to
        // the end, received_reset; a dropped handle is stop) is queued for announcement by that very call, not at the
        // end of the next incoming packet: a peer parked on the stream limit sends nothing, so that packet may never
        // come. Demanded only for a raise the endpoint announces at all (documented batching: the unannounced part
        // reaches an eighth of the concurrency limit — the rule of C06-max-streams-raise-not-announced), judged
        // against what the peer was told (MAX_STREAMS frames seen leaving, transport parameters).
        if matches!(w[0], "open" | "accept" | "write" | "finish" | "reset" | "stopped" | "prio" | "read" | "stop" | "rreset" | "poll") {
            let msi: Vec<&str> = v.pend.get("msi").map(|s| s.split(',').collect()).unwrap_or_default();
            for d in 0..2 {
                if mr[d] > pmr[d] {
                    let diff = mr[d].saturating_sub(self.rfc.adv_streams[d].max(v.two("smr")[d]));
                    let significant = diff > 0 && diff >= v.two("mcr")[d] / 8;
                    if significant && msi.get(d) != Some(&"1") {
                        self.fail("C02-max-streams-not-queued", format!("{line}: the call freed a {} stream of the peer (max_remote {pmr:?}->{mr:?}, announced {:?}, concurrency {:?}) and no MAX_STREAMS is queued (msi={:?}): the peer learns of the slot only after the next packet it sends", ["bidirectional", "unidirectional"][d], v.two("smr"), v.two("mcr"), msi));
                    }
                }
            }
        }
    }

    fn pick_send_id(&mut self) -> u64 {
        if self.early {
            // before the handshake completes only locally initiated streams exist
            if self.local.is_empty() || self.rng.chance(1, 12) {
                return sid(self.side, self.rng.below(2), self.rng.below(4));
            }
            return *self.rng.pick(&self.local);
        }
        let mut c: Vec<u64> = self.local.clone();
        c.extend(self.accepted.iter().filter(|i| *i / 2 % 2 == 0));
        c.extend(self.v.send.keys());
        if c.is_empty() || self.rng.chance(1, 12) {
            return self.any_id();
        }
        *self.rng.pick(&c)
    }

    fn any_id(&mut self) -> u64 {
        let (s, d, i) = (self.rng.below(2), self.rng.below(2), self.rng.below(6));
        if self.rng.chance(1, 10) {
            return self.rng.biased().min(V62);
        }
        sid(s, d, i)
    }

    /// an id the peer may send on: remote-initiated of either direction or local bidirectional
    fn pick_recv_id(&mut self) -> u64 {
        let mr = self.v.two("mr");
        let nx = self.v.two("nx");
        match self.rng.below(12) {
            0 => self.any_id(),
            1 => {
                // at / just past the stream-count limit
                let d = self.rng.below(2);
                sid(1 - self.side, d, (mr[d as usize] + self.rng.below(2)).saturating_sub(self.rng.below(2)))
            }
            2 | 3 if nx[0] > 0 => sid(self.side, 0, self.rng.below(nx[0])),
            _ => {
                let d = self.rng.below(2);
                let known: Vec<u64> = self.v.recv.keys().cloned().collect();
                if !known.is_empty() && self.rng.chance(2, 3) {
                    *self.rng.pick(&known)
                } else {
                    sid(1 - self.side, d, self.rng.below(mr[d as usize].max(1).min(6)))
                }
            }
        }
    }

    fn write(&mut self) {
        let id = self.pick_send_id();
        let prev = self.v.clone();
        // credit as the code computes it, from the accounting printed before the call
        let conn = prev.n("md").saturating_sub(prev.n("ds")).min(prev.n("sw").saturating_sub(prev.n("ua")));
        let inst = prev.send.contains_key(&id);
        let stream_credit = if inst {
            prev.sn(id, "md").unwrap_or(0).saturating_sub(prev.sn(id, "off").unwrap_or(0))
        } else {
            self.initial_limit(id)
        };
        let credit = conn.min(stream_credit);
        let n = match self.rng.below(8) {
            0 => 0,
            1 => credit,
            2 => credit.saturating_add(1),
            3 => credit.saturating_sub(1),
            4 => self.rng.range(1, 20),
            5 => self.rng.range(1, 70_000),
            _ => self.rng.range(1, 2000),
        }
        .min(1 << 17);
        self.write_exact(id, n);
    }

    fn write_exact(&mut self, id: u64, n: u64) {
        let prev = self.v.clone();
        let conn = prev.n("md").saturating_sub(prev.n("ds")).min(prev.n("sw").saturating_sub(prev.n("ua")));
        let inst = prev.send.contains_key(&id);
        let stream_credit = if inst {
            prev.sn(id, "md").unwrap_or(0).saturating_sub(prev.sn(id, "off").unwrap_or(0))
        } else {
            self.initial_limit(id)
        };
        let credit = conn.min(stream_credit);
        let known = inst || self.fresh.contains(&id);
        let Some(v) = self.op(&format!("write {id} {n}")) else { return };
        let st = prev.ss(id, "st").unwrap_or("R").to_string();
        let stop_code = prev.ss(id, "sr").filter(|s| *s != "-").map(|s| s.to_string());
        if known {
            // decision table of write (C05 write_accepts_min, C11)
            // a stream whose `Stopped` event the application has seen must never park a writer: the
            // stop is reported whatever the connection-level credit is
            if self.stopped_events.contains(&id) && !prev.closed() && st == "R" && v.result == "err Blocked" {
                self.fail("C11-write-blocked-on-stopped-stream", format!("write {id} {n} after the Stopped event: credit conn={conn} stream={stream_credit}, got {}", v.result));
            }
            // C11: "report a closed stream after finish, reset or full acknowledgement" — the test itself
            // finished or reset this half earlier; the answer must not depend on connection-level credit
            if self.closed_halves.contains(&id) && !prev.closed() && v.result != "err ClosedStream" {
                self.fail("C11-write-on-closed-half-blocked", format!("write {id} {n} after finish/reset of that half: credit conn={conn} stream={stream_credit}, got {}", v.result));
            }
            // the result is determined by the state of the half; only the accepted amount depends on credit
            let expect = if prev.closed() {
                "err Blocked".to_string()
            } else if st != "R" {
                "err ClosedStream".to_string()
            } else if let Some(c) = stop_code.as_ref() {
                format!("err Stopped {c}")
            } else if conn == 0 {
                "err Blocked".to_string()
            } else if stream_credit == 0 {
                "err Blocked".to_string()
            } else {
                format!("ok {}", n.min(credit))
            };
            if v.result != expect {
                self.fail("C05-write-accepts-min", format!("write {id} {n}: credit conn={conn} stream={stream_credit}, expected {expect}, got {}", v.result));
            }
        }
        if let Some(k) = v.result.strip_prefix("ok ").and_then(|k| k.parse::<u64>().ok()) {
            if k > 0 {
                self.saw_progress = true;
            }
            if k < n {
                self.saw_edge = true;
            }
            if self.rng.chance(1, 6) {
                self.op(&format!("finish {id}"));
            }
            if k > n || k > credit {
                self.fail("C05-write-accepts-min", format!("write {id} {n} accepted {k} > credit {credit}"));
            }
            if v.n("ua") > prev.n("sw").max(prev.n("ua")) {
                self.fail("C05-send-window", format!("write {id} {n}: unacked {} -> {} window {}", prev.n("ua"), v.n("ua"), prev.n("sw")));
            }
            if v.n("ds") != prev.n("ds") + k || v.sn(id, "off") != Some(prev.sn(id, "off").unwrap_or(0) + k) {
                self.fail("C05-accounting", format!("write {id} {n} -> ok {k}: data_sent {} -> {}", prev.n("ds"), v.n("ds")));
            }
        } else {
            self.saw_edge = true;
        }
    }

    fn open(&mut self) {
        let d = self.rng.below(2);
        self.open_dir(d);
    }

    fn open_dir(&mut self, d: u64) {
        let prev = self.v.clone();
        let Some(v) = self.op(&format!("open {}", ["bi", "uni"][d as usize])) else { return };
        let exhausted = prev.two("nx")[d as usize] >= prev.two("mx")[d as usize];
        let none = v.result == "none";
        if none != (exhausted || prev.closed()) {
            self.fail("C05-open-none-iff", format!("open {d}: next={:?} max={:?} -> {}", prev.two("nx"), prev.two("mx"), v.result));
        }
        if let Some(id) = v.result.strip_prefix("ok ").and_then(|x| x.parse::<u64>().ok()) {
            if id != sid(self.side, d, prev.two("nx")[d as usize]) {
                self.fail("C11-open-id", format!("open {d} returned {id}"));
            }
            self.local.push(id);
            self.fresh.insert(id);
        } else {
            self.saw_edge = true;
        }
    }

    fn accept(&mut self) {
        let d = self.rng.below(2);
        let Some(v) = self.op(&format!("accept {}", ["bi", "uni"][d as usize])) else { return };
        if let Some(id) = v.result.strip_prefix("ok ").and_then(|x| x.parse::<u64>().ok()) {
            self.accepted.push(id);
        }
    }

    /// a STREAM frame aimed around the limits of the chosen stream
    fn stream_frame(&mut self) {
        let id = self.pick_recv_id();
        let prev = self.v.clone();
        let (end, sm) = (prev.rn(id, "end").unwrap_or(0), prev.rn(id, "sm").unwrap_or(prev.n("srw")));
        let conn_left = prev.n("lmd").saturating_sub(prev.n("dr"));
        let fin_known: Option<u64> = prev.rs(id, "st").and_then(|s| s.strip_prefix("r:")).and_then(|s| s.parse().ok());
        // target end offset
        let target = match self.rng.below(12) {
            0 => sm,
            1 => sm.saturating_add(1),
            2 => sm.saturating_sub(1),
            3 => end.saturating_add(conn_left),
            4 => end.saturating_add(conn_left).saturating_add(1),
            5 => fin_known.unwrap_or(end),
            6 => fin_known.unwrap_or(end).saturating_add(1),
            7 => end.saturating_sub(self.rng.below(4)),
            8 => V62 - self.rng.below(2),
            _ => end.saturating_add(self.rng.range(0, 50)),
        }
        .min(V62 + 1);
        let len = match self.rng.below(5) {
            0 => 0,
            1 => target.min(1 << 17),
            _ => self.rng.range(0, 60).min(target),
        }
        .min(target)
        .min(1 << 17);
        let off = (target - len).min(V62);
        let fin = self.rng.chance(1, 5);
        let Some(v) = self.op(&format!("stream {id} {off} {len} {}", fin as u8)) else { return };
        let tgt_end = off + len;
        // C06 decision table, for streams whose state was visible before the frame
        let remote = id % 2 != self.side;
        let over_count = remote && id / 4 >= prev.two("mr")[(id / 2 % 2) as usize];
        if over_count && !v.result.starts_with("err STREAM_LIMIT_ERROR") {
            self.fail("C06-stream-id-over-limit", format!("stream {id} beyond max_remote {:?} -> {}", prev.two("mr"), v.result));
        }
        if let Some(st) = prev.rs(id, "st") {
            if st.starts_with("r:") && !over_count {
                // RFC 9000 4.5: data beyond the final size, a different final size, or a final size
                // below data already received
                let final_err = fin_known.map_or(false, |f| tgt_end > f || (fin && tgt_end != f)) || (fin && tgt_end < end);
                let new_bytes = tgt_end.saturating_sub(end);
                let flow_err = tgt_end > sm || prev.n("dr").saturating_add(new_bytes) > prev.n("lmd");
                let expect = if tgt_end >= 1 << 62 {
                    Some("err FLOW_CONTROL_ERROR")
                } else if final_err {
                    Some("err FINAL_SIZE_ERROR")
                } else if flow_err {
                    Some("err FLOW_CONTROL_ERROR")
                } else {
                    None
                };
                match expect {
                    Some(e) => {
                        self.saw_edge = true;
                        if !v.result.starts_with(e) {
                            self.fail("C06-decision", format!("stream {id} {off} {len} {}: expected {e}, got {} (end={end} sm={sm} final={fin_known:?} dr={} lmd={})", fin as u8, v.result, prev.n("dr"), prev.n("lmd")));
                        }
                        // no delivery after error: nothing about the stream may change
                        if v.recv.get(&id) != prev.recv.get(&id) || v.n("dr") != prev.n("dr") {
                            self.fail("C06-delivery-after-error", format!("stream {id} {off} {len}: state changed although {}", v.result));
                        }
                    }
                    None => {
                        if v.result.starts_with("err") {
                            self.fail("C06-decision", format!("stream {id} {off} {len} {}: within limits but {}", fin as u8, v.result));
                        }
                        if new_bytes > 0 {
                            self.saw_progress = true;
                        }
                    }
                }
            }
        }
        if v.result.starts_with("err") {
            self.saw_edge = true;
        }
    }

    fn reset_frame(&mut self) {
        let id = self.pick_recv_id();
        let prev = self.v.clone();
        let (end, sm) = (prev.rn(id, "end").unwrap_or(0), prev.rn(id, "sm").unwrap_or(prev.n("srw")));
        let fin_known: Option<u64> = prev.rs(id, "st").and_then(|s| s.split(':').nth(1)).and_then(|s| s.parse().ok());
        let fo = match self.rng.below(8) {
            0 => end,
            1 => end.saturating_sub(1),
            2 => sm,
            3 => sm.saturating_add(1),
            4 => fin_known.unwrap_or(end),
            5 => fin_known.unwrap_or(end).saturating_add(1),
            _ => end.saturating_add(self.rng.below(40)),
        }
        .min(V62);
        let code = self.rng.below(100);
        let Some(v) = self.op(&format!("rst {id} {code} {fo}")) else { return };
        // a retransmitted RESET_STREAM (stream already reset, same final size) is a no-op
        if prev.rs(id, "st").map_or(false, |s| s.starts_with("x:")) && fin_known == Some(fo) {
            if v.result != "ok 0" || v.recv != prev.recv || v.kv != prev.kv {
                self.fail("C06-duplicate-reset-not-noop", format!("rst {id} {code} {fo} on a stream already reset with final size {fo}: {} (dr {}->{} lmd {}->{})", v.result, prev.n("dr"), v.n("dr"), prev.n("lmd"), v.n("lmd")));
            }
        }
        if let Some(st) = prev.rs(id, "st") {
            let remote = id % 2 != self.side;
            let over_count = remote && id / 4 >= prev.two("mr")[(id / 2 % 2) as usize];
            if !over_count {
                let final_err = match fin_known {
                    Some(f) => f != fo,
                    None => end > fo,
                };
                let new_bytes = fo.saturating_sub(end);
                // a stream that is already reset charged its final size before: no second flow-control test
                let already_reset = st.starts_with("x:");
                let flow_err = !already_reset && (fo > sm || prev.n("dr").saturating_add(new_bytes) > prev.n("lmd"));
                let expect = if final_err {
                    Some("err FINAL_SIZE_ERROR")
                } else if flow_err {
                    Some("err FLOW_CONTROL_ERROR")
                } else {
                    None
                };
                match expect {
                    Some(e) => {
                        self.saw_edge = true;
                        if !v.result.starts_with(e) {
                            self.fail("C06-decision", format!("rst {id} {fo}: expected {e}, got {} (st={st} end={end} sm={sm})", v.result));
                        }
                        if v.recv.get(&id) != prev.recv.get(&id) || v.n("dr") != prev.n("dr") {
                            self.fail("C06-delivery-after-error", format!("rst {id} {fo}: state changed although {}", v.result));
                        }
                    }
                    None => {
                        if v.result.starts_with("err") {
                            self.fail("C06-decision", format!("rst {id} {fo}: within limits but {}", v.result));
                        }
                    }
                }
            }
        }
    }

    fn read(&mut self) {
        let known: Vec<u64> = self.v.recv.keys().cloned().collect();
        let id = if !known.is_empty() && self.rng.chance(5, 6) { *self.rng.pick(&known) } else { self.pick_recv_id() };
        let prev = self.v.clone();
        let avail = prev.rn(id, "end").unwrap_or(0).saturating_sub(prev.rn(id, "br").unwrap_or(0));
        let budget = match self.rng.below(6) {
            0 => 0,
            1 => avail,
            2 => avail.saturating_add(1),
            3 => self.rng.range(1, 10),
            4 => u64::MAX >> self.rng.below(3),
            _ => self.rng.range(1, 3000),
        };
        let Some(v) = self.op(&format!("read {id} {budget}")) else { return };
        let mut it = v.result.split(' ');
        if it.next() == Some("ok") {
            let k: u64 = it.next().and_then(|x| x.parse().ok()).unwrap_or(0);
            // bytes obtainable through read never exceed what was received within the limits
            if k > avail || k > budget {
                self.fail("C06-read-more-than-received", format!("read {id} {budget} -> {k} bytes, only {avail} received and unread"));
            }
            if k > 0 {
                self.saw_progress = true;
            }
            let end = it.next().unwrap_or("");
            if end == "fin" || end.starts_with("reset") {
                // one terminal outcome: the half is gone afterwards
                if v.recv.contains_key(&id) {
                    self.fail("C11-terminal-read-keeps-state", format!("read {id}: {end} but stream still present"));
                }
                let r2 = self.op(&format!("read {id} 1"));
                if let Some(r2) = r2 {
                    if r2.result != "err ClosedStream" {
                        self.fail("C11-one-terminal-outcome", format!("read {id} after {end} -> {}", r2.result));
                    }
                }
            }
        } else {
            self.saw_edge = true;
        }
    }

    fn transmit(&mut self) {
        let max = match self.rng.below(5) {
            0 => self.rng.range(0, 60),
            1 => self.rng.range(26, 200),
            2 => 1200,
            3 => self.rng.range(1000, 1500),
            _ => self.rng.range(26, 70_000),
        };
        let fair = self.rng.chance(3, 4);
        let Some(v) = self.op(&format!("transmit {max} {}", fair as u8)) else { return };
        for f in v.result.split(' ').skip(2) {
            let p: Vec<u64> = f.split(':').filter_map(|x| x.parse().ok()).collect();
            if p.len() == 4 {
                self.flight.push((p[0], p[1], p[2], p[3] == 1));
            }
        }
        // every so often the whole flight is acknowledged at once (streams run to completion)
        if !self.early && self.rng.chance(1, 4) {
            while !self.flight.is_empty() && !self.dead {
                self.ack_or_lose_valid(true);
            }
        }
    }

    /// a Retry: everything sent in 0-RTT is sent again. C17 ("delivered ... exactly once ... including across a
    /// Retry"): after `retransmit_all_for_0rtt` and a flush, for every stream this test wrote to or finished
    /// (and did not reset, and that never saw an acknowledgement) the re-sent ranges cover [0, written) and
    /// carry the FIN if the stream was finished — judged from the test's own record of its writes.
    fn retry(&mut self) {
        if self.op("rtx0").is_none() {
            return;
        }
        self.flight.clear();
        let mut seen: BTreeMap<u64, (Vec<(u64, u64)>, bool)> = BTreeMap::new();
        for _ in 0..64 {
            let Some(v) = self.op("transmit 70000 1") else { return };
            let mut any = false;
            for f in v.result.split(' ').skip(2) {
                let p: Vec<u64> = f.split(':').filter_map(|x| x.parse().ok()).collect();
                if p.len() == 4 {
                    any = true;
                    self.flight.push((p[0], p[1], p[2], p[3] == 1));
                    let e = seen.entry(p[0]).or_insert((Vec::new(), false));
                    e.0.push((p[1], p[2]));
                    e.1 |= p[3] == 1;
                }
            }
            if !any {
                break;
            }
        }
        let ids: BTreeSet<u64> = self.wrote.keys().cloned().chain(self.finished_halves.iter().cloned()).collect();
        for id in ids {
            if self.reset_halves.contains(&id) || self.acked_streams.contains(&id) || self.v.closed() {
                continue;
            }
            let w = self.wrote.get(&id).cloned().unwrap_or(0);
            let (mut ranges, fin) = seen.get(&id).cloned().unwrap_or((Vec::new(), false));
            ranges.sort();
            let mut covered = 0u64;
            for (a, b) in ranges {
                if a <= covered {
                    covered = covered.max(b);
                }
            }
            let want_fin = self.finished_halves.contains(&id);
            if covered < w || (want_fin && !fin) {
                self.fail("C17-retry-did-not-resend", format!("stream {id}: wrote {w} bytes{}, after the Retry re-sent [0,{covered}) fin={fin}", if want_fin { " and finished" } else { "" }));
            }
        }
    }

    /// ack (or lose) one frame that is in flight
    fn ack_or_lose_valid(&mut self, ack: bool) {
        let i = self.rng.below(self.flight.len() as u64) as usize;
        let (id, a, b, fin) = self.flight.swap_remove(i);
        if ack {
            let prev = self.v.clone();
            let Some(v) = self.op(&format!("ack {id} {a} {b} {}", fin as u8)) else { return };
            // C11: Finished only after a finish was fully acknowledged, at most once
            let had = prev.kv.get("ev").map_or(0, |e| e.matches(&format!("F.{id}")).count());
            let has = v.kv.get("ev").map_or(0, |e| e.matches(&format!("F.{id}")).count());
            if has > had {
                let st = prev.ss(id, "st").unwrap_or("");
                if !(st == "D0" || st == "D1") || !(st == "D1" || fin) {
                    self.fail("C11-finished-without-full-ack", format!("ack {id} {a} {b} {}: Finished emitted from st={st}", fin as u8));
                }
                if !self.finished_events.insert(id) {
                    self.fail("C11-finished-twice", format!("second Finished for {id}"));
                }
                if v.send.contains_key(&id) {
                    self.fail("C11-finished-keeps-state", format!("stream {id} still present after Finished"));
                }
            }
        } else {
            self.op(&format!("lost {id} {a} {b} {}", fin as u8));
        }
    }

    fn ack_or_lose(&mut self) {
        if self.flight.is_empty() || self.rng.chance(1, 25) {
            // Frames that were never sent. Acknowledging or losing bytes that are not in flight
            // breaks the SendBuffer precondition and makes write_stream_frames spin forever
            // (`while offsets.start != offsets.end` with `get` returning an empty slice), so only
            // the harmless shapes are generated: empty ranges and streams without a live send half.
            let what = if self.rng.chance(1, 2) { "ack" } else { "lost" };
            let fin = self.rng.chance(1, 4);
            if self.rng.chance(1, 2) {
                let id = self.pick_send_id();
                self.op(&format!("{what} {id} 0 0 {}", fin as u8));
            } else {
                let id = self.any_id();
                let live = self.v.send.get(&id).map_or(false, |s| s.get("st").map_or(true, |x| x != "X"));
                if !live {
                    let a = self.rng.below(50);
                    let b = a + self.rng.below(50);
                    self.op(&format!("{what} {id} {a} {b} {}", fin as u8));
                }
            }
            return;
        }
        let ack = self.rng.chance(2, 3);
        self.ack_or_lose_valid(ack);
    }

    fn poll(&mut self) {
        // half of the time the application polls until nothing is reported (the C02 oracles judge that point)
        let rounds = if self.rng.chance(1, 2) { 24 } else { 1 };
        for _ in 0..rounds {
            let Some(v) = self.op("poll") else { return };
            let mut it = v.result.split(' ');
            match it.next() {
                Some("Stopped") => {
                    let id: u64 = it.next().and_then(|x| x.parse().ok()).unwrap_or(0);
                    if !self.stopped_events.insert(id) {
                        self.fail("C11-stopped-twice", format!("second Stopped for {id}"));
                    }
                }
                Some("none") => break,
                _ => {}
            }
        }
    }

    /// the application polls until nothing is reported
    fn drain_events(&mut self) {
        for _ in 0..32 {
            let Some(v) = self.op("poll") else { return };
            let mut it = v.result.split(' ');
            match it.next() {
                Some("Stopped") => {
                    let id: u64 = it.next().and_then(|x| x.parse().ok()).unwrap_or(0);
                    if !self.stopped_events.insert(id) {
                        self.fail("C11-stopped-twice", format!("second Stopped for {id}"));
                    }
                }
                Some("none") => break,
                _ => {}
            }
        }
    }

    fn step(&mut self, zero_rtt_phase: bool) {
        let k = self.rng.below(if zero_rtt_phase { 45 } else { 100 });
        match k {
            0..=5 => self.open(),
            6..=19 => self.write(),
            20..=23 => {
                let id = self.pick_send_id();
                let prev = self.v.clone();
                if let Some(v) = self.op(&format!("finish {id}")) {
                    if let Some(st) = prev.ss(id, "st") {
                        let stop = prev.ss(id, "sr").filter(|s| *s != "-");
                        let expect = match (stop, st) {
                            (Some(c), _) => format!("err Stopped {c}"),
                            (None, "R") => "ok".to_string(),
                            _ => "err ClosedStream".to_string(),
                        };
                        if v.result != expect {
                            self.fail("C11-finish-table", format!("finish {id} in st={st}: expected {expect}, got {}", v.result));
                        }
                    }
                }
            }
            24..=26 => {
                let id = self.pick_send_id();
                let prev = self.v.clone();
                let code = self.rng.below(50);
                if let Some(v) = self.op(&format!("reset {id} {code}")) {
                    if let Some(st) = prev.ss(id, "st") {
                        let expect = if st == "X" { "err ClosedStream" } else { "ok" };
                        if v.result != expect {
                            self.fail("C11-reset-table", format!("reset {id} in st={st}: got {}", v.result));
                        }
                    }
                }
            }
            27..=34 => self.transmit(),
            35..=36 => {
                let id = self.pick_send_id();
                let p = self.rng.range(0, 6) as i64 - 3;
                self.op(&format!("prio {id} {p}"));
            }
            37..=38 => {
                let id = self.pick_send_id();
                self.op(&format!("stopped {id}"));
            }
            39..=41 => self.poll(),
            42 => {
                self.op("cansend");
            }
            43 => {
                let n = limit(self.rng);
                let n = if self.rng.chance(1, 2) { n } else { self.rng.next() >> self.rng.below(64) };
                self.op(&format!("sendwin {n}"));
            }
            44 => {
                if zero_rtt_phase && self.rng.chance(1, 2) {
                    self.retry();
                } else {
                    self.op("view");
                }
            }
            // ---- peer frames and receiver-side application ops
            45..=58 => self.stream_frame(),
            59..=61 => self.reset_frame(),
            62..=63 => {
                let id = if self.rng.chance(4, 5) { self.pick_send_id() } else { self.any_id() };
                let code = self.rng.below(50);
                // crossing orders (C11 "Stopped once per stopped stream"): the application abandons or finishes the half
                // just before the peer's STOP_SENDING arrives (RESET_STREAM / FIN still unacknowledged)
                match self.rng.below(8) {
                    0 | 1 => {
                        let c2 = self.rng.below(50);
                        self.op(&format!("reset {id} {c2}"));
                    }
                    2 => {
                        self.op(&format!("finish {id}"));
                    }
                    _ => {}
                }
                self.op(&format!("stopsend {id} {code}"));
                // ... and often the application then polls until nothing is reported (the point the oracle judges)
                if self.rng.chance(1, 3) {
                    self.drain_events();
                }
            }
            64..=66 => {
                let n = match self.rng.below(4) {
                    0 => self.v.n("md") + self.rng.below(3),
                    1 => self.v.n("md").saturating_sub(self.rng.below(3)),
                    2 => self.v.n("ds") + self.rng.below(200),
                    _ => limit(self.rng),
                }
                .min(V62);
                self.peer_max_data = self.peer_max_data.max(n);
                self.op(&format!("maxdata {n}"));
            }
            67..=70 => {
                let mut id = self.pick_send_id();
                if !self.early && self.rng.chance(1, 6) {
                    // a peer-initiated bidirectional stream at or beyond the advertised count
                    id = sid(1 - self.side, 0, self.v.two("mr")[0] + [0, 1, 1000][self.rng.below(3) as usize]);
                }
                let prev_mr = self.v.two("mr");
                let cur = self.v.sn(id, "md").unwrap_or(self.initial_limit(id));
                let n = match self.rng.below(4) {
                    0 => cur + self.rng.below(3),
                    1 => cur.saturating_sub(self.rng.below(3)),
                    2 => self.v.sn(id, "off").unwrap_or(0) + self.rng.below(300),
                    _ => limit(self.rng),
                }
                .min(V62);
                if let Some(v) = self.op(&format!("maxsd {id} {n}")) {
                    let over_count = id % 2 != self.side && id / 2 % 2 == 0 && id / 4 >= prev_mr[0];
                    if over_count && !v.result.starts_with("err STREAM_LIMIT_ERROR") {
                        self.fail("C06-stream-id-over-limit", format!("maxsd {id} beyond max_remote {prev_mr:?} -> {}", v.result));
                    }
                    if v.result == "ok" && v.send.contains_key(&id) {
                        let l = self.peer_stream_limit.get(&id).cloned().unwrap_or(0);
                        self.peer_stream_limit.insert(id, l.max(n));
                    }
                }
            }
            71..=73 => {
                let d = self.rng.below(2) as usize;
                let cur = self.v.two("mx")[d];
                let n = match self.rng.below(5) {
                    0 => cur + 1,
                    1 => cur,
                    2 => cur.saturating_sub(1),
                    3 => (1u64 << 60) + self.rng.below(2),
                    _ => cur + self.rng.below(4),
                };
                if n <= 1 << 60 {
                    self.peer_max_streams[d] = self.peer_max_streams[d].max(n);
                }
                if let Some(v) = self.op(&format!("maxstreams {} {n}", ["bi", "uni"][d])) {
                    if (v.result == "ok") != (n <= 1 << 60) {
                        self.fail("C05-max-streams-bound", format!("maxstreams {d} {n} -> {}", v.result));
                    }
                    if v.result != "ok" {
                        self.saw_edge = true;
                    }
                }
            }
            74..=79 => self.ack_or_lose(),
            80 => {
                let id = self.pick_send_id();
                self.op(&format!("rstack {id}"));
            }
            81..=88 => self.read(),
            89..=90 => {
                let id = self.pick_recv_id();
                let code = self.rng.below(50);
                self.op(&format!("stop {id} {code}"));
            }
            91 => {
                let id = self.pick_recv_id();
                self.op(&format!("rreset {id}"));
            }
            92..=93 => self.accept(),
            94..=95 => {
                if let Some(v) = self.op("ctrl") {
                    // remember which control frames went out (only those can be lost and re-queued)
                    for f in v.result.split(' ').skip(1) {
                        let mut p = f.split('.');
                        match p.next() {
                            Some("MD") => self.sent_md = true,
                            Some("MSD") => {
                                if let Some(id) = p.next().and_then(|x| x.parse().ok()) {
                                    self.sent_msd.insert(id);
                                }
                            }
                            Some("MS") => {
                                if let Some(d) = p.next().and_then(|x| x.parse::<usize>().ok()) {
                                    self.sent_ms[d.min(1)] = true;
                                }
                            }
                            _ => {}
                        }
                    }
                }
            }
            96 => {
                // a raise of the peer-stream limit that the peer has not been told about and that amounts to an
                // eighth of the concurrency limit (any raise below 16) must be queued for announcement
                let prev = self.v.clone();
                if let Some(v) = self.op("qmsi") {
                    let due = (0..2).any(|d| {
                        let diff = prev.two("mr")[d].saturating_sub(self.rfc.adv_streams[d].max(prev.two("smr")[d]));
                        diff > 0 && diff >= prev.two("mcr")[d] / 8
                    });
                    if due && v.result != "true" {
                        self.fail("C06-max-streams-raise-not-announced", format!("qmsi -> {}: max_remote {:?} announced {:?} concurrency {:?}", v.result, prev.two("mr"), prev.two("smr"), prev.two("mcr")));
                    }
                }
            }
            97 => {
                // a lost packet: the control frames it carried are queued again
                match self.rng.below(3) {
                    0 if self.sent_md => {
                        self.op("pend md");
                    }
                    1 if !self.sent_msd.is_empty() => {
                        let ids: Vec<u64> = self.sent_msd.iter().cloned().collect();
                        let id = *self.rng.pick(&ids);
                        self.op(&format!("pend msd {id}"));
                    }
                    2 if self.sent_ms[0] || self.sent_ms[1] => {
                        let d = if self.sent_ms[0] { "bi" } else { "uni" };
                        self.op(&format!("pend msi {d}"));
                    }
                    _ => {
                        self.op("view");
                    }
                };
            }
            98 => {
                let n = limit(self.rng);
                self.op(&format!("recvwin {n}"));
            }
            _ => {
                match self.rng.below(3) {
                    0 => {
                        let d = ["bi", "uni"][self.rng.below(2) as usize];
                        let n = count(self.rng);
                        self.op(&format!("maxconc {d} {n}"));
                    }
                    1 => {
                        let c = if self.v.closed() || self.rng.chance(1, 2) { "open" } else { "closed" };
                        self.op(&format!("conn {c}"));
                    }
                    _ => {
                        let id = self.any_id();
                        self.op(&format!("canflow {id}"));
                    }
                };
            }
        }
    }

    /// set_params conveys a (new) limit for the sending halves of remote bidirectional streams
    fn raise_remote_bidi(&mut self, v: u64) {
        let side = self.side;
        for (id, l) in self.peer_stream_limit.iter_mut() {
            if id % 2 != side && id / 2 % 2 == 0 {
                *l = (*l).max(v);
            }
        }
    }

    fn set_params(&mut self, smaller_than: Option<[u64; 6]>) {
        let mut p = [0u64; 6];
        for (i, x) in p.iter_mut().enumerate() {
            *x = if i == 3 || i == 4 {
                match self.rng.below(6) {
                    0 => 0,
                    1 => 1,
                    2 => 1 << 60,
                    _ => self.rng.range(1, 6),
                }
            } else {
                limit(self.rng)
            };
            if let Some(old) = smaller_than {
                if self.rng.chance(1, 2) {
                    *x = (*x).min(old[i] / 2);
                }
            }
        }
        self.apply_params(p);
    }

    fn apply_params(&mut self, p: [u64; 6]) {
        self.params = p;
        self.peer_max_data = self.peer_max_data.max(p[5]);
        self.peer_max_streams = [p[3], p[4]];
        self.raise_remote_bidi(p[1]);
        self.op(&format!("params {} {} {} {} {} {}", p[0], p[1], p[2], p[3], p[4], p[5]));
    }

    /// `new`: fresh component state and fresh ghosts
    fn start(&mut self, side: u64, mru: u64, mrb: u64, sw: u64, rw: u64, srw: u64) -> bool {
        self.side = side;
        self.flight.clear();
        self.local.clear();
        self.accepted.clear();
        self.fresh.clear();
        self.peer_max_data = 0;
        self.peer_max_streams = [0, 0];
        self.peer_stream_limit.clear();
        self.params = [0; 6];
        self.after_rejection = false;
        self.max_rw = rw;
        self.finished_events.clear();
        self.stopped_events.clear();
        self.sent_md = false;
        self.sent_msd.clear();
        self.sent_ms = [false, false];
        self.closed_halves.clear();
        self.wrote.clear();
        self.finished_halves.clear();
        self.reset_halves.clear();
        self.acked_streams.clear();
        self.rfc = Rfc { side, adv_streams: [mrb, mru], adv_max_data: rw, init_msd: srw, ..Rfc::default() };
        self.h11 = super::streams_hist::Hist11::new(side);
        let resp = self.r.op(&format!("streams new {} {mru} {mrb} {sw} {rw} {srw}", ["c", "s"][side as usize]));
        match View::parse(&resp) {
            Some(v) => {
                self.v = v;
                true
            }
            None => false,
        }
    }

    /// 0-RTT rejected: the state must restart; returns false if the case cannot continue
    fn reject(&mut self) -> bool {
        let prev = self.v.clone();
        // ghosts restart with the rejection
        self.after_rejection = true;
        self.peer_stream_limit.clear();
        self.stopped_events.clear();
        self.finished_events.clear();
        let resp = self.r.op("streams rejected");
        if resp == "panic" {
            self.dead = true;
            return false;
        }
        let Some(v) = View::parse(&resp) else { return false };
        self.v = v.clone();
        self.h11.step(&["rejected"], &prev, &v, true, false);
        self.rfc.update(&["rejected"], &v.result, true);
        self.closed_halves.clear();
        self.wrote.clear();
        self.finished_halves.clear();
        self.reset_halves.clear();
        self.acked_streams.clear();
        self.flight.clear();
        self.local.clear();
        self.fresh.clear();
        if v.n("ua") != 0 {
            self.fail("F11-unacked_data-not-reset-on-0rtt-rejection", format!("after zero_rtt_rejected unacked_data={} (was {}), data_sent={}", v.n("ua"), prev.n("ua"), v.n("ds")));
        }
        let side = self.side;
        if v.n("ds") != 0 || v.two("nx") != [0, 0] || v.n("ss") != 0 || !v.send.keys().all(|i| i % 2 != side) {
            self.fail("C17-rejected-not-fresh", format!("after zero_rtt_rejected: ds={} nx={:?} ss={}", v.n("ds"), v.two("nx"), v.n("ss")));
        }
        self.peer_max_data = 0;
        true
    }

    /// the witness histories of the known findings, replayed with the oracles on
    fn witnesses(&mut self) {
        // F10: remembered max_data 1 000 000, rejected, new max_data 2 000, 10 000 bytes accepted
        if self.start(0, 0, 0, 1_000_000, 1_000_000, 1_000_000) {
            self.apply_params([100_000, 100_000, 100_000, 10, 10, 1_000_000]);
            if self.reject() {
                self.apply_params([100_000, 100_000, 100_000, 10, 10, 2000]);
                self.open_dir(0);
                self.write_exact(0, 10_000);
            }
        }
        // F11: 13 bytes written in 0-RTT, rejected
        if self.start(0, 0, 0, 1000, 1000, 1000) {
            self.apply_params([100, 100, 100, 10, 10, 1000]);
            self.open_dir(0);
            self.write_exact(0, 13);
            if self.reject() {
                self.apply_params([100, 100, 100, 10, 10, 1000]);
            }
        }
        // F12: receive window shrunk to 0 then expanded: credit = old window + new window
        if self.start(1, 10, 2, 38, 64, V62 - 2) {
            self.apply_params([20642, 0, 1 << 30, 0, 2, 176]);
            self.op("recvwin 0");
            self.op("recvwin 2522");
            self.op("stream 6 0 2555 1");
        }
        // F14: 14 bytes received, stopped (credited), then reset with final size 14 (credited again)
        if self.start(1, 2, 2, 100, 25, 1000) {
            self.apply_params([100, 100, 100, 2, 2, 100]);
            self.op("stream 0 0 14 0");
            self.op("stop 0 7");
            self.op("rst 0 9 14");
            self.op("stream 4 0 39 0");
        }
        // write-after-stop: send window used up, stream stopped by the peer, Stopped event polled
        if self.start(0, 10, 10, 100, 1_000_000, 1000) {
            self.apply_params([100, 100, 100, 10, 10, 100_000]);
            self.open_dir(1);
            self.op("write 2 100");
            self.op("write 2 1");
            self.op("stopsend 2 7");
            self.poll();
            self.write_exact(2, 1);
        }
        // maxsd-beyond-limit: MAX_STREAM_DATA for a peer stream far beyond the advertised count
        if self.start(0, 0, 0, 100, 100, 100) {
            self.apply_params([100, 100, 100, 2, 2, 100]);
            self.op("maxsd 4001 5");
            self.op("poll");
            self.op("accept bi");
        }
        // fin-below-received: 100 bytes received, then a FIN announcing final size 50
        if self.start(1, 2, 2, 1000, 1000, 1000) {
            self.apply_params([100, 100, 100, 2, 2, 1000]);
            self.op("stream 0 0 100 0");
            self.op("stream 0 0 50 1");
            self.op("read 0 200");
        }
        // write-on-closed-half: connection credit used up, one stream finished, one reset, then writes
        if self.start(1, 2, 2, 1000, 1000, 1000) {
            self.apply_params([100, 100, 100, 2, 2, 10]);
            self.open_dir(1);
            self.open_dir(1);
            self.op("write 3 10");
            self.op("finish 3");
            self.op("reset 7 5");
            self.write_exact(3, 1);
            self.write_exact(7, 1);
        }
        // retry-empty-fin: a stream opened and finished in 0-RTT without data, FIN transmitted, then a Retry
        if self.start(0, 0, 0, 1000, 1000, 1000) {
            self.apply_params([100, 100, 100, 10, 10, 1000]);
            self.open_dir(1);
            self.op("finish 2");
            self.op("transmit 1200 1");
            self.open_dir(0);
            self.op("write 0 5");
            self.op("finish 0");
            self.op("transmit 1200 1");
            self.retry();
        }
        // small-raise: concurrency limit 8 -> 9 with all streams open: the raise must be announced
        if self.start(1, 2, 8, 1000, 1000, 1000) {
            self.apply_params([100, 100, 100, 2, 2, 1000]);
            self.op("maxconc bi 9");
            let prev = self.v.clone();
            if let Some(v) = self.op("qmsi") {
                if v.result != "true" {
                    self.fail("C06-max-streams-raise-not-announced", format!("maxconc bi 8 -> 9 then qmsi -> {} (max_remote {:?} announced {:?})", v.result, prev.two("mr"), prev.two("smr")));
                }
            }
            self.op("ctrl");
        }
        // stop-known-final: the peer's only unidirectional stream was reset (RESET_STREAM arrived, nothing read); the
        // application stops it: the freed slot must be queued for MAX_STREAMS by stop itself (the invariant
        // C02-max-streams-not-queued judges every call); the same with a FIN instead of the reset
        if self.start(1, 2, 1, 1000, 1000, 1000) {
            self.apply_params([100, 100, 100, 2, 2, 1000]);
            self.op("rst 2 7 0");
            self.op("stop 2 7");
            self.op("ctrl");
            self.op("stream 6 0 5 1");
            self.op("stop 6 9");
            self.op("ctrl");
        }
        // dup-reset: window shrunk (debt), RESET_STREAM, then the same RESET_STREAM again
        if self.start(1, 2, 2, 1000, 16, 16384) {
            self.apply_params([100, 100, 100, 2, 2, 1000]);
            self.op("recvwin 0");
            self.op("rst 0 1 9");
            let prev = self.v.clone();
            if let Some(v) = self.op("rst 0 1 9") {
                if v.result != "ok 0" || v.recv != prev.recv || v.kv != prev.kv {
                    self.fail("C06-duplicate-reset-not-noop", format!("rst 0 1 9 twice: second answer {}", v.result));
                }
            }
        }
        // stop-crossing-reset: the application resets a sending half, the peer's STOP_SENDING arrives before the
        // RESET_STREAM is acknowledged; the half reports the peer's code, so the application is owed one Stopped
        // (judged by the history ghost when poll reports `none`); the same on a half that is finished but unacknowledged,
        // on the sending half of a stream the peer opened, and with a duplicate STOP_SENDING
        if self.start(1, 2, 2, 1000, 1000, 1000) {
            self.apply_params([100, 100, 100, 4, 4, 1000]);
            self.open_dir(1);
            self.op("write 3 10");
            self.op("transmit 1200 1");
            self.op("reset 3 7");
            self.op("stopsend 3 42");
            self.op("stopped 3");
            self.drain_events();
            self.open_dir(0);
            self.op("write 1 5");
            self.op("finish 1");
            self.op("stopsend 1 9");
            self.op("stopsend 1 10");
            self.drain_events();
            self.op("stream 0 0 4 0");
            self.op("reset 0 3");
            self.op("stopsend 0 11");
            self.drain_events();
            self.op("rstack 3");
            self.op("stopsend 3 5");
            self.drain_events();
        }
        // F15: 59 bytes received, reset with final size 59 (credited), then stopped (credited again)
        if self.start(1, 2, 2, 100, 59, 2002) {
            self.apply_params([100, 100, 100, 2, 2, 100]);
            self.op("stream 0 0 59 0");
            self.op("rst 0 24 59");
            self.op("stop 0 35");
            self.op("stream 4 0 118 0");
        }
    }
}


/// What RFC 9000 says a receiver must do with a stream-related frame, computed ONLY from facts the
/// test keeps itself in the role of the peer: the limits this endpoint advertised (configuration at
/// `new`, then the MAX_DATA / MAX_STREAM_DATA / MAX_STREAMS frames seen leaving it), the streams it
/// opened, and what the peer sent so far (highest offset and announced final size per stream).
/// Nothing here is derived from the implementation's code or printed internal state.
///
/// Sources: RFC 9000 section 3 (stream states), 4.1 (flow control: "A receiver MUST close the
/// connection with an error of type FLOW_CONTROL_ERROR if the sender violates the advertised connection
/// or stream data limits"), 4.5 (final size: cannot change; not below data already received; counts
/// towards flow control), 4.6 (stream count: "An endpoint that receives a frame with a stream ID
/// exceeding the limit it has sent MUST treat this as a connection error of type STREAM_LIMIT_ERROR"),
/// 19.4 RESET_STREAM, 19.5 STOP_SENDING, 19.8 STREAM, 19.9 MAX_DATA, 19.10 MAX_STREAM_DATA,
/// 19.11 MAX_STREAMS; property texts C05 / C06 / C11.
#[derive(Default, Clone)]
struct Rfc {
    side: u64,
    /// cumulative stream count advertised to the peer, per direction (0 = bidi, 1 = uni)
    adv_streams: [u64; 2],
    adv_max_data: u64,
    /// initial per-stream limit advertised in the transport parameters (one value in this harness)
    init_msd: u64,
    adv_msd: BTreeMap<u64, u64>,
    /// streams this endpoint opened, per direction
    opened: [u64; 2],
    /// per stream the peer sends on: highest end offset sent (frames that were not refused)
    hw: BTreeMap<u64, u64>,
    /// final size announced by a FIN or RESET_STREAM that was not refused
    fin: BTreeMap<u64, u64>,
    /// sum of `hw` over all streams = what counts against the connection limit
    total: u64,
    /// the implementation accepted (with effect) a frame the RFC refuses: the RFC prescribes closing the
    /// connection, the rest of the history is outside its scope
    diverged: bool,
}

const E_STATE: &str = "STREAM_STATE_ERROR";
const E_LIMIT: &str = "STREAM_LIMIT_ERROR";
const E_FLOW: &str = "FLOW_CONTROL_ERROR";
const E_FINAL: &str = "FINAL_SIZE_ERROR";
const E_ENC: &str = "FRAME_ENCODING_ERROR";

impl Rfc {
    fn local(&self, id: u64) -> bool {
        id % 2 == self.side
    }
    fn uni(id: u64) -> bool {
        id / 2 % 2 == 1
    }
    /// errors of the "which stream is this" kind, for a frame that belongs to the RECEIVING part of `id`
    /// (STREAM, RESET_STREAM) or to its SENDING part (MAX_STREAM_DATA, STOP_SENDING)
    fn stream_errors(&self, id: u64, receiving_part: bool, errs: &mut Vec<&'static str>) {
        let d = (id / 2 % 2) as usize;
        if self.local(id) {
            // 19.8 / 19.4 / 19.5 / 19.10: "for a locally initiated stream that has not yet been created"
            if id / 4 >= self.opened[d] {
                errs.push(E_STATE);
            }
            // a stream this endpoint can only send on
            if receiving_part && Self::uni(id) {
                errs.push(E_STATE);
            }
        } else {
            // a stream this endpoint can only receive on
            if !receiving_part && Self::uni(id) {
                errs.push(E_STATE);
            }
            // 4.6
            if id / 4 >= self.adv_streams[d] {
                errs.push(E_LIMIT);
            }
        }
    }
    fn msd(&self, id: u64) -> u64 {
        self.adv_msd.get(&id).cloned().unwrap_or(self.init_msd)
    }
    /// acceptable error codes for the operation (empty = the frame must be accepted); None = not a
    /// peer frame
    fn expect(&self, w: &[&str]) -> Option<Vec<&'static str>> {
        let n = |i: usize| w.get(i).and_then(|x| x.parse::<u64>().ok());
        let mut errs: Vec<&'static str> = Vec::new();
        match w[0] {
            "stream" => {
                let (id, off, len, fin) = (n(1)?, n(2)?, n(3)?, n(4)? == 1);
                let end = off.checked_add(len)?;
                self.stream_errors(id, true, &mut errs);
                // 19.8: the largest offset cannot exceed 2^62-1: FRAME_ENCODING_ERROR or FLOW_CONTROL_ERROR
                if end > (1 << 62) - 1 {
                    errs.push(E_ENC);
                    errs.push(E_FLOW);
                }
                let hw = self.hw.get(&id).cloned().unwrap_or(0);
                // 4.5
                if let Some(&f) = self.fin.get(&id) {
                    if end > f || (fin && end != f) {
                        errs.push(E_FINAL);
                    }
                }
                if fin && end < hw {
                    errs.push(E_FINAL);
                }
                // 4.1
                if end > self.msd(id) || self.total.saturating_add(end.saturating_sub(hw)) > self.adv_max_data {
                    errs.push(E_FLOW);
                }
            }
            "rst" => {
                let (id, fo) = (n(1)?, n(3)?);
                self.stream_errors(id, true, &mut errs);
                let hw = self.hw.get(&id).cloned().unwrap_or(0);
                if let Some(&f) = self.fin.get(&id) {
                    if fo != f {
                        errs.push(E_FINAL);
                    }
                }
                if fo < hw {
                    errs.push(E_FINAL);
                }
                // 4.5: the final size counts towards flow control
                if fo > self.msd(id) || self.total.saturating_add(fo.saturating_sub(hw)) > self.adv_max_data {
                    errs.push(E_FLOW);
                }
            }
            "maxsd" => {
                self.stream_errors(n(1)?, false, &mut errs);
            }
            "stopsend" => {
                self.stream_errors(n(1)?, false, &mut errs);
            }
            "maxstreams" => {
                // 19.11: a count above 2^60 cannot be expressed as a stream id
                if n(2)? > 1 << 60 {
                    errs.push(E_ENC);
                    errs.push(E_LIMIT);
                }
            }
            "maxdata" => {}
            _ => return None,
        }
        Some(errs)
    }
    /// what the test learns from an executed operation
    fn update(&mut self, w: &[&str], result: &str, legal: bool) {
        let n = |i: usize| w.get(i).and_then(|x| x.parse::<u64>().ok());
        let ok = result.starts_with("ok") && legal;
        match w[0] {
            "open" if ok => {
                if let Some(id) = result.split(' ').nth(1).and_then(|x| x.parse::<u64>().ok()) {
                    let d = (id / 2 % 2) as usize;
                    self.opened[d] = self.opened[d].max(id / 4 + 1);
                }
            }
            "rejected" if ok => {
                // 0-RTT rejected: the streams this endpoint opened are gone
                self.opened = [0, 0];
                let side = self.side;
                let gone: Vec<u64> = self.hw.keys().cloned().filter(|i| i % 2 == side).collect();
                for i in gone {
                    self.total -= self.hw.remove(&i).unwrap_or(0);
                    self.fin.remove(&i);
                }
            }
            "ctrl" if ok => {
                for f in result.split(' ').skip(1) {
                    let p: Vec<&str> = f.split('.').collect();
                    let g = |i: usize| p.get(i).and_then(|x| x.parse::<u64>().ok());
                    match p[0] {
                        "MD" => self.adv_max_data = self.adv_max_data.max(g(1).unwrap_or(0)),
                        "MSD" => {
                            if let (Some(id), Some(v)) = (g(1), g(2)) {
                                let cur = self.msd(id);
                                self.adv_msd.insert(id, cur.max(v));
                            }
                        }
                        "MS" => {
                            if let (Some(d), Some(v)) = (g(1), g(2)) {
                                let d = (d as usize).min(1);
                                self.adv_streams[d] = self.adv_streams[d].max(v);
                            }
                        }
                        _ => {}
                    }
                }
            }
            "stream" if ok => {
                if let (Some(id), Some(off), Some(len), Some(fin)) = (n(1), n(2), n(3), n(4)) {
                    let end = off + len;
                    let hw = self.hw.get(&id).cloned().unwrap_or(0);
                    if end > hw {
                        self.total += end - hw;
                        self.hw.insert(id, end);
                    }
                    if fin == 1 {
                        self.fin.insert(id, end);
                    }
                }
            }
            "rst" if ok => {
                if let (Some(id), Some(fo)) = (n(1), n(3)) {
                    let hw = self.hw.get(&id).cloned().unwrap_or(0);
                    if fo > hw {
                        self.total += fo - hw;
                        self.hw.insert(id, fo);
                    }
                    self.fin.insert(id, fo);
                }
            }
            _ => {}
        }
    }
}

static WITNESSES_DONE: std::sync::atomic::AtomicBool = std::sync::atomic::AtomicBool::new(false);

pub fn streams(rng: &mut Rng, r: &mut Runner, maxops: usize) {
    let side = rng.below(2);
    let zero_rtt = side == 0 && rng.chance(1, 4);
    let mut g = G {
        rng,
        r,
        side,
        v: View::default(),
        rfc: Rfc::default(),
        closed_halves: BTreeSet::new(),
        wrote: BTreeMap::new(),
        finished_halves: BTreeSet::new(),
        reset_halves: BTreeSet::new(),
        acked_streams: BTreeSet::new(),
        flight: Vec::new(),
        local: Vec::new(),
        accepted: Vec::new(),
        fresh: BTreeSet::new(),
        peer_max_data: 0,
        peer_max_streams: [0, 0],
        peer_stream_limit: BTreeMap::new(),
        c02_blocked: BTreeSet::new(),
        c02_open_blocked: [false, false],
        h11: super::streams_hist::Hist11::new(side),
        params: [0; 6],
        after_rejection: false,
        max_rw: 0,
        dead: false,
        early: false,
        saw_progress: false,
        saw_edge: false,
        finished_events: BTreeSet::new(),
        stopped_events: BTreeSet::new(),
        sent_md: false,
        sent_msd: BTreeSet::new(),
        sent_ms: [false, false],
    };
    if !WITNESSES_DONE.swap(true, std::sync::atomic::Ordering::Relaxed) {
        g.witnesses();
        g.dead = false;
    }
    let (mru, mrb) = (count(g.rng), count(g.rng));
    let sw = match g.rng.below(6) {
        0 => 0,
        1 => g.rng.range(1, 100),
        2 => u64::MAX - g.rng.below(2),
        _ => limit(g.rng).max(1),
    };
    let (rw, srw) = (limit(g.rng), limit(g.rng));
    if !g.start(side, mru, mrb, sw, rw, srw) {
        return;
    }
    g.set_params(None);
    let early = if zero_rtt { 1 + g.rng.below(maxops as u64 / 2 + 1) as usize } else { 0 };
    for i in 0..maxops {
        if g.dead {
            break;
        }
        if zero_rtt && i < early {
            g.early = true;
            g.step(true);
            g.early = false;
            continue;
        }
        if zero_rtt && i == early {
            if g.rng.chance(3, 4) {
                // 0-RTT rejected: state must restart from the newly negotiated values
                let old = g.params;
                if !g.reject() {
                    break;
                }
                let smaller = if g.rng.chance(2, 3) { Some(old) } else { None };
                g.set_params(smaller);
                continue;
            } else {
                // accepted: the real parameters may only be larger (validate_resumption_from)
                let old = g.params;
                let mut p = old;
                for x in p.iter_mut() {
                    if g.rng.chance(1, 2) {
                        *x = x.saturating_add(g.rng.below(500)).min(if *x > (1 << 60) { V62 } else { 1 << 60 });
                    }
                }
                g.params = p;
                g.peer_max_data = g.peer_max_data.max(p[5]);
                g.peer_max_streams = [g.peer_max_streams[0].max(p[3]), g.peer_max_streams[1].max(p[4])];
                g.raise_remote_bidi(p[1]);
                g.op(&format!("params {} {} {} {} {} {}", p[0], p[1], p[2], p[3], p[4], p[5]));
                continue;
            }
        }
        g.step(false);
    }
    if !g.dead {
        g.op("view");
    }
    if g.saw_progress && g.saw_edge {
        g.r.nontrivial();
    }
}
