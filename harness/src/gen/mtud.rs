//! component `mtud`: MtuDiscovery search state machine and black hole detector (C13)
use std::sync::atomic::{AtomicBool, Ordering};

use crate::{Rng, Runner};

// the recorded configuration finding, and a regression of either fixed finding, are reported once per campaign
static SEEN_RESET_DISABLED: AtomicBool = AtomicBool::new(false);
static SEEN_BLACK_HOLE_PEER: AtomicBool = AtomicBool::new(false);
static SEEN_MIN_CHANGE: AtomicBool = AtomicBool::new(false);

fn first(flag: &AtomicBool) -> bool {
    !flag.swap(true, Ordering::Relaxed)
}

pub const MTUD_RULE: &str = "case = new/disabled with boundary-biased (initial, min_mtu, peer max, upper bound, minimum_change, interval, cooldown), then up to maxops calls driven like Connection does: poll_transmit with increasing time and packet numbers, the in-flight probe is tracked and mostly resolved by an ack of exactly that probe (if it fits a per-case link MTU) or on_probe_lost, non-probe acks, loss bursts (contiguous / split, sizes around min_mtu and acked_mtu) each closed by black_hole_detected, occasional peer-max / reset; 1 op in 12 is malformed (loss without probe, ack of the probe number in another space, decreasing loss numbers, transport parameters during a search); non-trivial = a probe acked, a probe given up after MAX_PROBE_RETRANSMITS losses, and a black hole detected or a search completed";

#[derive(Debug, Clone, Default, PartialEq)]
struct Obs {
    mtu: u64,
    enabled: bool,
    phase: char, // I S C -
    lower: u64,
    upper: u64,
    last: u64,
    inflight: Option<u64>,
    lost: u64,
    pm: u64,
    cfg_ub: u64,
    mc: u64,
    bursts: usize,
    min_mtu: u64,
}

fn parse(resp: &str) -> Option<(String, Obs)> {
    let (r, st) = resp.split_once(" | ")?;
    let mut o = Obs::default();
    for tok in st.split(' ') {
        let (k, v) = tok.split_once('=')?;
        match k {
            "mtu" => o.mtu = v.parse().ok()?,
            "ph" => {
                o.phase = v.chars().next()?;
                o.enabled = o.phase != '-';
                if let Some(s) = v.strip_prefix("S:") {
                    let f: Vec<&str> = s.split(',').collect();
                    o.lower = f[0].parse().ok()?;
                    o.upper = f[1].parse().ok()?;
                    o.last = f[3].parse().ok()?;
                    o.inflight = f[4].parse().ok();
                    o.lost = f[5].parse().ok()?;
                }
            }
            "pm" => o.pm = v.parse().unwrap_or(0),
            "cfg" => {
                if v != "-" {
                    let f: Vec<&str> = v.split(',').collect();
                    o.cfg_ub = f[1].parse().ok()?;
                    o.mc = f[2].parse().ok()?;
                }
            }
            "bh" => {
                let f: Vec<&str> = v.split(';').collect();
                o.bursts = if f[0] == "-" { 0 } else { f[0].split(',').count() };
                o.min_mtu = f[4].parse().ok()?;
            }
            _ => return None,
        }
    }
    Some((r.to_string(), o))
}

fn size(rng: &mut Rng, around: &[u64]) -> u64 {
    let v = match rng.below(6) {
        0 | 1 | 2 => {
            let b = *rng.pick(around);
            let d = rng.below(4);
            if rng.chance(1, 2) { b.saturating_add(d) } else { b.saturating_sub(d) }
        }
        3 => rng.range(1200, 1500),
        4 => rng.range(1100, 9100),
        _ => rng.biased(),
    };
    v.min(65535)
}

pub fn mtud(rng: &mut Rng, r: &mut Runner, maxops: usize) {
    // ---- construction
    let min_mtu = match rng.below(5) { 0 => 1200, 1 => rng.range(1200, 1400), 2 => size(rng, &[1200]), _ => 1200 };
    let initial = match rng.below(6) {
        0 => min_mtu,
        1 => min_mtu + rng.below(300),
        2 => size(rng, &[min_mtu, 65527]),
        3 => min_mtu.saturating_sub(rng.range(1, 3)), // debug_assert fires
        _ => min_mtu.max(1200),
    }
    .min(65535);
    let ub = match rng.below(6) { 0 => 1452, 1 => rng.range(1200, 1600), 2 => 9000, 3 => 65535, 4 => size(rng, &[initial, min_mtu]), _ => initial + rng.below(40) }.min(65535);
    let mc = match rng.below(8) { 0 => 0, 1 => 1, 2 => 2, 3 => 3, 4 => rng.below(200), _ => 20 };
    let interval = match rng.below(3) { 0 => 0, 1 => rng.below(50), _ => 600_000_000_000 };
    let cooldown = match rng.below(3) { 0 => 0, 1 => rng.below(50), _ => 60_000_000_000 };
    let peer0 = match rng.below(5) { 0 => Some(size(rng, &[initial, min_mtu, ub])), 1 => Some(rng.range(1200, 1500)), _ => None };
    let disabled = rng.chance(1, 8);
    let resp = if disabled {
        r.op(&format!("mtud disabled {initial} {min_mtu}"))
    } else {
        r.op(&format!(
            "mtud new {initial} {min_mtu} {} {interval} {ub} {mc} {cooldown}",
            peer0.map_or("-".to_string(), |p| p.to_string())
        ))
    };
    // `new` panicked: the component keeps its default state (1200/1200/default config)
    let mut obs = match parse(&resp) {
        Some((_, o)) => o,
        None => match parse(&r.op("mtud inflight")) {
            Some((_, o)) => o,
            None => return,
        },
    };
    // what the peer announced (the property's bound), independent of what the component stored
    let mut announced: Option<u64> = if resp == "panic" { None } else if disabled { None } else { peer0 };

    // per-case link MTU: probes up to this size are (mostly) acknowledged, larger ones (mostly) lost
    let link = match rng.below(6) {
        0 | 1 | 2 if ub > initial => rng.range(initial, ub),
        3 => 65535,
        4 => initial.saturating_sub(1),
        _ => rng.range(1200, 9500),
    };
    let mut now: u64 = rng.below(100);
    let mut pn: u64 = if rng.chance(1, 6) { rng.next() >> rng.range(2, 40) } else { rng.below(10) };
    // (pn, size) of the probe the caller believes is in flight
    let mut probe: Option<(u64, u64)> = None;
    // well-formedness of the calls since the current search started (the contract Connection keeps)
    let mut wf = true;
    let (mut acked_probe, mut gave_up, mut finished) = (false, false, false);
    let mut poisoned = false; // a panic left the component mid-operation: no oracle afterwards

    for _ in 0..maxops {
        let before = obs.clone();
        let malformed = rng.chance(1, 12);
        let choice = rng.below(100);
        let op: String;
        // expectation helpers
        let mut is_probe_ack = false;
        let mut is_reset = false;
        let mut is_bhd = false;
        if malformed {
            op = match rng.below(6) {
                0 => { wf = false; "mtud ploss".to_string() }
                1 => match probe { Some((p, s)) => format!("mtud acked {} {p} {s}", rng.below(2)), None => format!("mtud acked 2 {} {}", rng.next() >> 8, size(rng, &[obs.mtu])) },
                2 => format!("mtud nploss {} {}", pn.saturating_sub(rng.range(1, 5)), size(rng, &[obs.mtu, obs.min_mtu])),
                3 => format!("mtud peer {}", size(rng, &[obs.mtu, obs.min_mtu, obs.upper])),
                4 => match probe { Some((p, s)) => format!("mtud acked 2 {} {s}", p.wrapping_add(1)), None => "mtud inflight".to_string() },
                _ => format!("mtud poll {} {pn}", now.saturating_sub(rng.below(100))),
            };
        } else if choice < 34 {
            now += match rng.below(4) { 0 => 0, 1 => rng.below(60), 2 => rng.below(5), _ => 1 };
            if obs.phase == 'C' && rng.chance(1, 3) {
                now += 600_000_000_001; // past any configured interval / cooldown: the next search starts
            }
            pn += 1 + rng.below(2);
            op = format!("mtud poll {now} {pn}");
        } else if choice < 62 {
            match probe {
                Some((p, s)) => {
                    let fits = s <= link;
                    if fits != rng.chance(1, 10) {
                        is_probe_ack = true;
                        op = format!("mtud acked 2 {p} {s}");
                    } else {
                        op = "mtud ploss".to_string();
                    }
                }
                None => {
                    pn += 1;
                    op = format!("mtud acked 2 {pn} {}", size(rng, &[obs.mtu, obs.min_mtu]));
                }
            }
        } else if choice < 70 {
            pn += 1;
            op = format!("mtud acked {} {pn} {}", rng.range(0, 2), size(rng, &[obs.mtu, obs.min_mtu]));
        } else if choice < 90 {
            // a run of lost non-probe packets in increasing packet-number order, then the detector is asked
            let n = rng.range(1, 6);
            let mut resp = String::new();
            for _ in 0..n {
                pn += match rng.below(3) { 0 => 1, 1 => 2, _ => rng.range(1, 4) };
                let sz = match rng.below(3) { 0 => obs.mtu, 1 => size(rng, &[obs.min_mtu, obs.mtu]), _ => obs.min_mtu + rng.range(1, 200) }.min(65535);
                resp = r.op(&format!("mtud nploss {pn} {sz}"));
                if resp == "panic" {
                    break;
                }
            }
            if resp == "panic" {
                // increasing numbers never underflow
                r.oracle_fail("key=mtud-nploss-panic on_non_probe_lost panicked on increasing packet numbers");
                return;
            }
            now += rng.below(10);
            is_bhd = true;
            op = format!("mtud bhd {now}");
        } else if choice < 93 {
            is_bhd = true;
            op = format!("mtud bhd {now}");
        } else if choice < 96 {
            // transport parameters normally arrive before probing starts
            if obs.phase == 'S' {
                op = "mtud inflight".to_string();
            } else {
                op = format!("mtud peer {}", match rng.below(3) { 0 => rng.range(1200, 1500), 1 => 65527, _ => size(rng, &[obs.mtu, obs.min_mtu]) });
            }
        } else if choice < 98 {
            is_reset = true;
            let m = if rng.chance(3, 4) { obs.min_mtu } else { rng.range(1200, 1300) };
            op = format!("mtud reset {} {m}", (m + rng.below(200)).min(65535));
        } else {
            op = "mtud inflight".to_string();
        }

        let resp = r.op(&op);
        let w: Vec<&str> = op.split(' ').collect();
        if resp == "panic" {
            // modelled panics: transport parameters during a search (state: current_mtu already clamped),
            // decreasing loss numbers (state untouched), checked `last_probed_mtu - 1` at 0
            match w[1] {
                "peer" if before.phase == 'S' => {
                    poisoned = true;
                }
                "nploss" => {}
                "poll" if before.last == 0 => return,
                _ => {
                    r.oracle_fail(&format!("key=mtud-unexpected-panic {} panicked", w[1]));
                    return;
                }
            }
            // resynchronise the observation
            match parse(&r.op("mtud inflight")) {
                Some((_, o)) => obs = o,
                None => return,
            }
            continue;
        }
        let Some((res, nowo)) = parse(&resp) else {
            r.oracle_fail("key=mtud-parse unparsable response");
            return;
        };
        if w[1] == "peer" {
            announced = Some(w[2].parse().unwrap());
        }
        if w[1] == "poll" && before.phase != 'S' && nowo.phase == 'S' {
            wf = true; // a new search started
        }

        // ------------------------------------------------------------ the property on the implementation's output
        if !poisoned {
            // (1) probes
            if let Some(p) = res.strip_prefix("probe ") {
                let p: u64 = p.parse().unwrap();
                if p > nowo.pm {
                    r.oracle_fail(&format!("key=mtud-probe-exceeds-peer-max probe {p} > peer max_udp_payload_size {}", nowo.pm));
                }
                if let Some(a) = announced {
                    if p > a {
                        r.oracle_fail(&format!("key=mtud-probe-exceeds-peer-max probe {p} > announced {a}"));
                    }
                }
                if before.mc >= 3 && wf {
                    if p <= before.mtu {
                        r.oracle_fail(&format!("key=mtud-probe-not-above-mtu probe {p} <= current_mtu {}", before.mtu));
                    }
                    if p > nowo.cfg_ub {
                        r.oracle_fail(&format!("key=mtud-probe-exceeds-upper-bound probe {p} > configured upper bound {}", nowo.cfg_ub));
                    }
                }
                // at most one probe in flight
                if probe.is_some() {
                    r.oracle_fail("key=mtud-two-probes a second probe was emitted while one is outstanding");
                }
                probe = Some((w[3].parse().unwrap(), p));
            } else if w[1] == "poll" && before.phase == 'S' && nowo.phase == 'C' {
                finished = true;
                if before.lost >= 3 { gave_up = true; }
            }
            if w[1] == "poll" && before.phase == 'S' && before.lost >= 3 && before.inflight.is_none() {
                gave_up = true;
            }
            // (2) probe results clear the outstanding probe
            let probe_result = (w[1] == "acked" && res == "true") || w[1] == "ploss" || w[1] == "reset" || (w[1] == "bhd" && res == "true");
            // (3) the estimate rises only by the ack of the outstanding probe, to exactly its size
            if nowo.mtu > before.mtu {
                let ok = match (w[1], probe) {
                    ("acked", Some((p, s))) => res == "true" && w[2] == "2" && w[3] == p.to_string() && nowo.mtu == s,
                    ("reset", _) => true, // path_changed(): back to the configured initial MTU
                    _ => false,
                };
                if !ok {
                    r.oracle_fail(&format!("key=mtud-mtu-rose current_mtu rose {} -> {} by `{op}` ({res})", before.mtu, nowo.mtu));
                }
                if w[1] == "acked" { acked_probe = true; }
            }
            if is_probe_ack && res != "true" {
                r.oracle_fail("key=mtud-probe-ack-ignored the ack of the outstanding probe was not recognised");
            }
            // (4) the estimate falls only by a peer limit, a black hole (to min_mtu) or a reset
            if nowo.mtu < before.mtu && wf {
                let ok = match w[1] {
                    "peer" => nowo.mtu == w[2].parse::<u64>().unwrap(),
                    "bhd" => res == "true" && nowo.mtu == nowo.min_mtu,
                    "reset" => true,
                    _ => false,
                };
                // (recorded finding = configuration minimum_change <= 1 AND this history: the estimate fell to exactly the size of
                //  the outstanding probe, which the search had placed at or below the estimate; a fall by any other ack, or to
                //  any other value, under the same configuration is `mtud-mtu-fell`)
                let probe_at_or_below = matches!(probe, Some((p, s)) if w.get(3).copied() == Some(p.to_string().as_str()) && s <= before.mtu && nowo.mtu == s);
                if !ok && before.mc <= 1 && w[1] == "acked" && probe_at_or_below {
                    // configuration finding (like minimum_change = 0): the search probes below current_mtu
                    if first(&SEEN_MIN_CHANGE) { r.oracle_fail(&format!("key=mtud-minimum-change-le-1-mtu-falls minimum_change={} current_mtu fell {} -> {} (min_mtu {}) by the ack of a probe", before.mc, before.mtu, nowo.mtu, nowo.min_mtu)); }
                } else if !ok {
                    r.oracle_fail(&format!("key=mtud-mtu-fell current_mtu fell {} -> {} by `{op}`", before.mtu, nowo.mtu));
                }
            }
            // (5) black hole: back to min_mtu, search suspended
            if is_bhd && res == "true" {
                finished = true;
                // falls back to min_mtu, but never upwards (an estimate below min_mtu is the peer's limit)
                if nowo.mtu != nowo.min_mtu.min(before.mtu) || (nowo.enabled && nowo.phase != 'C') || nowo.bursts != 0 {
                    r.oracle_fail("key=mtud-black-hole-reset black hole detected but state not reset to min(current_mtu, min_mtu) / Complete");
                }
            }
            // (6) never above what the peer announced (the first two keys were findings of the code before the `fix:` commits;
            //     a regression of either fix is a VIOLATION under the same key)
            if let Some(a) = announced {
                if nowo.mtu > a {
                    if !nowo.enabled && is_reset {
                        if first(&SEEN_RESET_DISABLED) { r.oracle_fail(&format!("key=mtud-reset-disabled-forgets-peer-max current_mtu {} > peer max_udp_payload_size {a} after reset with discovery disabled", nowo.mtu)); }
                        announced = None; // report once per case
                    } else if is_bhd && res == "true" && nowo.min_mtu > a {
                        if first(&SEEN_BLACK_HOLE_PEER) { r.oracle_fail(&format!("key=mtud-black-hole-min-mtu-exceeds-peer-max current_mtu {} = min_mtu > peer max_udp_payload_size {a} after black hole", nowo.mtu)); }
                        announced = None;
                    } else if nowo.mtu > before.mtu || w[1] == "peer" {
                        r.oracle_fail(&format!("key=mtud-mtu-exceeds-peer-max current_mtu {} > peer max_udp_payload_size {a} after `{op}`", nowo.mtu));
                    }
                }
            }
            if probe_result || nowo.phase != 'S' {
                probe = None;
            }
            // the component's own view agrees with the caller's bookkeeping
            if nowo.inflight.map(|p| p) != probe.map(|x| x.0) && nowo.phase == 'S' {
                r.oracle_fail("key=mtud-inflight-bookkeeping in_flight_probe disagrees with probes emitted and resolved");
            }
            if nowo.bursts > 4 {
                r.oracle_fail("key=mtud-burst-memory more than BLACK_HOLE_THRESHOLD + 1 suspicious bursts stored");
            }
        } else {
            probe = nowo.inflight.map(|p| (p, nowo.last));
        }
        if is_reset {
            poisoned = false;
            wf = true;
        }
        obs = nowo;
        if acked_probe && gave_up && finished {
            r.nontrivial();
        }
    }
}
