//! C14 generators: `token` (payload coding + validation decision), `bloomlog`, `tokencache`.
use std::collections::{HashMap, HashSet, VecDeque};
use std::panic::{catch_unwind, AssertUnwindSafe};

use crate::{hex, Rng, Runner};

/// Unrecorded request to the implementation (pure probes, or `bloomlog do` whose outcome the recorded
/// `check` then reports): lets a generator observe the implementation's free choices (ciphertext
/// bytes, bloom false positives, hash-set capacity) and pass them to the model as inputs.
fn probe(r: &mut Runner, line: &str) -> String {
    match catch_unwind(AssertUnwindSafe(|| r.ex.exec(line))) {
        Ok(s) => s,
        Err(_) => "panic".into(),
    }
}

fn rbytes(rng: &mut Rng, lo: u64, hi: u64) -> Vec<u8> {
    let n = rng.range(lo, hi) as usize;
    rng.bytes(n)
}

const NS: u128 = 1_000_000_000;
const LIMIT: u128 = (1u128 << 63) * NS;

// ---------------------------------------------------------------------------------------------
// token
// ---------------------------------------------------------------------------------------------

pub const TOKEN_RULE: &str = "case = cfg (server key, lifetimes, log kind) + 1..4 genuine tokens of both kinds (v4/v6, cid 0..20 bytes, nonce, issue time; some under a foreign key) + presentations: genuine / bit flip at i / truncation / extension / splice of two tokens / foreign key / random bytes / empty, from the issuing address, same ip other port, other ip, scoped v6, at times around issue+lifetime (exact boundary +-1ns/1s), replays; plus a payload-decoder stream under a null AEAD (bad type byte, ip tag, cid length 21, truncated, trailing bytes, seconds >= 2^63); non-trivial = one genuine presentation validated and one altered/moved/stale/replayed one refused";

#[derive(Clone)]
struct Genuine {
    key: String,
    retry: bool,
    addr: String, // full addr (retry) or ip (validation)
    ip: String,
    port: u64,
    scoped: bool,
    cid: String,
    issued_secs: u128,
    nonce: u128,
    bytes: Vec<u8>,
}

fn rand_ip(rng: &mut Rng, pool: &mut Vec<String>) -> String {
    if !pool.is_empty() && rng.chance(2, 3) {
        return rng.pick(pool).clone();
    }
    let s = if rng.chance(1, 2) {
        format!("v4/{}", hex(&rng.bytes(4)))
    } else if rng.chance(1, 4) {
        // v4-mapped v6
        let mut b = vec![0u8; 10];
        b.extend([0xff, 0xff]);
        b.extend(rng.bytes(4));
        format!("v6/{}", hex(&b))
    } else {
        format!("v6/{}", hex(&rng.bytes(16)))
    };
    pool.push(s.clone());
    s
}

fn mk_addr(rng: &mut Rng, ip: &str, port: u64, scoped: bool) -> String {
    if ip.starts_with("v4") {
        format!("{ip}/{port}")
    } else if scoped {
        format!("{ip}/{port}/{}/{}", rng.below(3), rng.range(1, 9))
    } else {
        format!("{ip}/{port}/0/0")
    }
}

fn unhex(s: &str) -> Vec<u8> {
    if s == "-" {
        return Vec::new();
    }
    (0..s.len() / 2)
        .map(|i| u8::from_str_radix(&s[2 * i..2 * i + 2], 16).unwrap())
        .collect()
}

pub fn token(rng: &mut Rng, r: &mut Runner, maxops: usize) {
    if rng.chance(1, 6) {
        return token_decoder(rng, r, maxops);
    }
    // ---- configuration
    let server_key = if rng.chance(5, 6) { "0".to_string() } else { rng.range(1, 3).to_string() };
    let retry_lt: u128 = match rng.below(8) {
        0 => 0,
        1 => 1,
        2 => rng.below(60) as u128 * NS + rng.below(NS as u64) as u128,
        3 => LIMIT - rng.below(3) as u128, // issued + lifetime overflows: panic branch
        _ => 15 * NS,
    };
    let val_lt: u128 = match rng.below(8) {
        0 => 0,
        1 => rng.range(1, 100) as u128 * NS,
        2 => rng.below(1 << 40) as u128,
        3 => LIMIT - rng.below(3) as u128,
        _ => 1_209_600 * NS,
    };
    let log = *rng.pick(&["bloom", "bloom", "bloom", "bloom", "all", "none"]);
    let default_cfg = server_key == "0" && retry_lt == 15 * NS && val_lt == 1_209_600 * NS && log == "bloom";
    if !(default_cfg && rng.chance(1, 2)) {
        r.op(&format!("token cfg {server_key} {retry_lt} {val_lt} {log}"));
    }
    let base: u128 = match rng.below(4) {
        0 => rng.below(100) as u128 * NS,
        1 => 1_700_000_000 * NS + rng.below(1 << 40) as u128,
        _ => rng.below(1 << 50) as u128,
    };
    // ---- genuine tokens
    let mut pool = Vec::new();
    let mut gens: Vec<Genuine> = Vec::new();
    let mut used_nonces: HashSet<u128> = HashSet::new();
    let ngen = rng.range(1, 4);
    for _ in 0..ngen {
        let key = if rng.chance(5, 6) {
            server_key.clone()
        } else {
            rng.below(4).to_string()
        };
        let retry = rng.chance(1, 2);
        let ip = rand_ip(rng, &mut pool);
        let port = if rng.chance(1, 4) { *rng.pick(&[0u64, 1, 443, 65535]) } else { rng.below(65536) };
        let scoped = !ip.starts_with("v4") && rng.chance(1, 8);
        let cidlen = if rng.chance(1, 4) { *rng.pick(&[0usize, 1, 8, 19, 20]) } else { rng.below(21) as usize };
        let cid = hex(&rng.bytes(cidlen));
        let issued_ns = base + rng.below(3 * NS as u64) as u128;
        let mut nonce: u128 = match rng.below(4) {
            0 => rng.below(4) as u128,
            1 => u128::MAX - rng.below(3) as u128,
            _ => ((rng.next() as u128) << 64) | rng.next() as u128,
        };
        while !used_nonces.insert(nonce) {
            nonce = nonce.wrapping_add(1); // nonces are unique per the issuing code (128-bit random)
        }
        let addr = mk_addr(rng, &ip, port, scoped);
        let desc = if retry {
            format!("retry {addr} {cid} {issued_ns}")
        } else {
            format!("val {ip} {issued_ns}")
        };
        let m = probe(r, &format!("token mint {key} {nonce} {desc}"));
        let Some(h) = m.strip_prefix("ok ") else {
            r.oracle_fail(&format!("key=token-mint mint failed: {m}"));
            return;
        };
        let h = h.to_string();
        let resp = r.op(&format!("token issue {key} {nonce} {desc} {h}"));
        if !resp.starts_with("ok ") {
            r.oracle_fail(&format!("key=token-issue {desc} -> {resp}"));
            return;
        }
        let g = Genuine {
            key: key.clone(),
            retry,
            addr: if retry { addr.clone() } else { ip.clone() },
            ip: ip.clone(),
            port,
            scoped: retry && scoped,
            cid: cid.clone(),
            issued_secs: issued_ns / NS,
            nonce,
            bytes: unhex(&h),
        };
        // oracle (round trip, C14/C10): what was issued decodes to exactly the issued fields
        let d = r.op(&format!("token dec {key} {h}"));
        let want = if retry {
            // the wire form carries ip and port only (flowinfo / scope id are not encoded)
            let a0 = mk_addr_plain(&ip, port);
            format!("retry {a0} {cid} {} {nonce}", g.issued_secs)
        } else {
            format!("val {ip} {} {nonce}", g.issued_secs)
        };
        if d != want {
            r.oracle_fail(&format!("key=token-roundtrip issued [{desc}] decoded [{d}]"));
        }
        gens.push(g);
    }
    // ---- presentations
    let mut accepted_nonces: HashSet<u128> = HashSet::new();
    let (mut any_valid, mut any_refused) = (false, false);
    let lt_of = |g: &Genuine| if g.retry { retry_lt } else { val_lt };
    for _ in 0..maxops {
        let g = rng.pick(&gens).clone();
        let other = rng.pick(&gens).clone();
        // token bytes
        let (bytes, how): (Vec<u8>, &str) = match rng.below(12) {
            0 | 1 | 2 | 3 | 4 => (g.bytes.clone(), "genuine"),
            5 => {
                let mut b = g.bytes.clone();
                let i = match rng.below(3) {
                    0 => rng.below(8),
                    1 => (b.len() as u64 * 8 - 1) - rng.below(130).min(b.len() as u64 * 8 - 1),
                    _ => rng.below(b.len() as u64 * 8),
                };
                b[(i / 8) as usize] ^= 1 << (i % 8);
                (b, "flip")
            }
            6 => {
                let n = match rng.below(3) {
                    0 => rng.below(18) as usize,
                    1 => g.bytes.len() - 1 - rng.below(3) as usize,
                    _ => rng.below(g.bytes.len() as u64) as usize,
                };
                (g.bytes[..n].to_vec(), "trunc")
            }
            7 => {
                let mut b = g.bytes.clone();
                let extra = rbytes(rng, 1, 20);
                if rng.chance(1, 2) {
                    b.extend(extra);
                } else {
                    let mut e = extra;
                    e.extend(b);
                    b = e;
                }
                (b, "extend")
            }
            8 => {
                // splice: prefix of one token, suffix of another (possibly the same cut: tail swap)
                let i = rng.below(g.bytes.len() as u64 + 1) as usize;
                let j = if rng.chance(2, 3) { i.min(other.bytes.len()) } else { rng.below(other.bytes.len() as u64 + 1) as usize };
                let mut b = g.bytes[..i].to_vec();
                b.extend(&other.bytes[j..]);
                (b, "splice")
            }
            9 => (rbytes(rng, 0, 79), "random"),
            10 => (Vec::new(), "empty"),
            _ => (g.bytes.clone(), "genuine"),
        };
        // who is it really (byte-identical to a genuine token sealed under the server key)?
        let real = gens.iter().find(|x| x.bytes == bytes && x.key == server_key).cloned();
        let subject = real.clone().unwrap_or(g.clone());
        // remote address
        let (rip, rport, moved_kind) = match rng.below(8) {
            0 => (subject.ip.clone(), (subject.port + 1 + rng.below(3)) % 65536, "port"),
            1 => (rand_ip(rng, &mut pool), subject.port, "ip"),
            _ => (subject.ip.clone(), subject.port, "same"),
        };
        let rscoped = !rip.starts_with("v4") && (rng.chance(1, 10) || (subject.scoped && moved_kind == "same"));
        let remote = if moved_kind == "same" && subject.retry && !rscoped && !subject.scoped {
            subject.addr.clone()
        } else if moved_kind == "same" && subject.scoped {
            subject.addr.clone() // the very address the token was issued to (with its scope id)
        } else {
            mk_addr(rng, &rip, rport, rscoped)
        };
        // server clock relative to issue + lifetime
        let lt = lt_of(&subject);
        let exp = subject.issued_secs * NS + lt;
        let now: u128 = match rng.below(10) {
            0 => exp,
            1 => exp + 1,
            2 => exp.saturating_sub(1),
            3 => exp + NS,
            4 => subject.issued_secs * NS,
            5 => (subject.issued_secs * NS).saturating_sub(rng.below(5 * NS as u64) as u128),
            6 => exp + rng.below(1 << 45) as u128,
            _ => subject.issued_secs * NS + rng.below(2 * NS as u64) as u128,
        }
        .min(LIMIT - 1);
        let dcid = hex(&rbytes(rng, 0, 20));
        let resp = r.op(&format!("token present {} {remote} {dcid} {now}", hex(&bytes)));
        // ---------------- oracle: the property applied to the implementation's answer
        let verdict = resp.split(' ').next().unwrap_or("").to_string();
        if verdict == "panic" {
            // only `issued + lifetime` of a genuine token under an absurd configured lifetime may panic
            let overflow = real.as_ref().map_or(false, |x| x.issued_secs * NS + lt_of(x) >= LIMIT);
            if !overflow {
                r.oracle_fail(&format!("key=token-panic presentation panicked: {how} now={now}"));
            }
            return;
        }
        let same_ip = rip == subject.ip;
        let same_port = rport == subject.port;
        match &real {
            None => {
                // altered / foreign / random / empty: treated as absent, never an error, never validated
                if verdict != "absent" {
                    r.oracle_fail(&format!("key=token-forged {how} token -> {resp}"));
                }
                any_refused = true;
            }
            Some(x) if x.retry => {
                let stale = exp < now;
                let moved = !(same_ip && same_port);
                if verdict == "validated" {
                    if moved || stale {
                        r.oracle_fail(&format!("key=token-retry-accepted moved={moved} stale={stale} -> {resp}"));
                    }
                    if !resp.contains(&format!("rsc={dcid} odcid={} ", x.cid)) {
                        r.oracle_fail(&format!("key=token-retry-cids issued cid {} dcid {dcid} -> {resp}", x.cid));
                    }
                    any_valid = true;
                } else {
                    if (moved || stale) && verdict != "invalid-retry" {
                        r.oracle_fail(&format!("key=token-retry-not-invalid moved={moved} stale={stale} -> {resp}"));
                    }
                    if verdict == "absent" {
                        r.oracle_fail(&format!("key=token-retry-absent genuine retry token treated as absent -> {resp}"));
                    }
                    any_refused = true;
                }
            }
            Some(x) => {
                let stale = exp < now;
                if verdict == "invalid-retry" {
                    r.oracle_fail(&format!("key=token-validation-invalid NEW_TOKEN token ended the attempt -> {resp}"));
                }
                if verdict == "validated" {
                    if !same_ip || stale || log == "none" {
                        r.oracle_fail(&format!("key=token-validation-accepted same_ip={same_ip} stale={stale} log={log} -> {resp}"));
                    }
                    if log == "bloom" && !accepted_nonces.insert(x.nonce) {
                        r.oracle_fail(&format!("key=token-validation-reused nonce {} accepted twice", x.nonce));
                    }
                    if !resp.contains(&format!("rsc=none odcid={dcid} ")) {
                        r.oracle_fail(&format!("key=token-validation-cids -> {resp}"));
                    }
                    any_valid = true;
                } else {
                    any_refused = true;
                }
            }
        }
        if any_valid && any_refused {
            r.nontrivial();
        }
    }
}

fn mk_addr_plain(ip: &str, port: u64) -> String {
    if ip.starts_with("v4") {
        format!("{ip}/{port}")
    } else {
        format!("{ip}/{port}/0/0")
    }
}

/// payload decoder under the null AEAD (tag = 16 zero bytes): arbitrary plaintexts reach the decoder
fn token_decoder(rng: &mut Rng, r: &mut Runner, maxops: usize) {
    let as_server = rng.chance(1, 2);
    if as_server {
        r.op(&format!("token cfg n {} {} all", 15 * NS, 1_209_600 * NS));
    }
    for _ in 0..maxops {
        // a well-formed plaintext ...
        let retry = rng.chance(1, 2);
        let v4 = rng.chance(1, 2);
        let mut pt: Vec<u8> = vec![if retry { 0 } else { 1 }];
        pt.push(if v4 { 0 } else { 1 });
        pt.extend(rng.bytes(if v4 { 4 } else { 16 }));
        if retry {
            pt.extend(rng.bytes(2));
            let n = rng.below(21) as usize;
            pt.push(n as u8);
            pt.extend(rng.bytes(n));
        }
        let secs: u64 = match rng.below(6) {
            0 => (1u64 << 63) - 1 - rng.below(2),
            1 => (1u64 << 63) + rng.below(2),
            2 => u64::MAX,
            3 => rng.next(),
            _ => rng.below(1 << 33),
        };
        pt.extend(secs.to_be_bytes());
        // ... then possibly damaged
        let mut expect_none = false;
        let mut fuzzed = false;
        match rng.below(9) {
            0 => {
                pt[0] = rng.range(2, 255) as u8;
                expect_none = true;
            }
            1 => {
                pt[1] = rng.range(2, 255) as u8;
                expect_none = true;
            }
            2 if retry => {
                let at = 1 + 1 + if v4 { 4 } else { 16 } + 2;
                pt[at] = rng.range(21, 255) as u8;
                expect_none = true;
            }
            3 => {
                let n = rng.below(pt.len() as u64) as usize;
                pt.truncate(n);
                expect_none = true;
            }
            4 => {
                pt.extend(rbytes(rng, 1, 4));
                expect_none = true;
            }
            5 => {
                let i = rng.below(pt.len() as u64) as usize;
                pt[i] ^= 1 << rng.below(8);
                fuzzed = true;
            }
            _ => {}
        }
        let mut tok = pt.clone();
        match rng.below(8) {
            0 => {
                tok.extend(rng.bytes(16)); // bad tag
                expect_none = true;
            }
            1 => {
                tok.extend(vec![0u8; 15]); // short tag: the last plaintext byte is taken as tag
                fuzzed = true;
            }
            _ => tok.extend(vec![0u8; 16]),
        }
        tok.extend(rng.bytes(16));
        if rng.chance(1, 12) {
            let n = rng.below(17) as usize;
            tok.truncate(n); // shorter than a nonce
        }
        let resp = if as_server && rng.chance(1, 2) {
            let remote = if v4 { "v4/00000000/0" } else { "v6/00000000000000000000000000000000/0/0/0" };
            r.op(&format!("token present {} {remote} - {}", hex(&tok), rng.below(1 << 40)))
        } else {
            r.op(&format!("token dec n {}", hex(&tok)))
        };
        r.nontrivial();
        // a panic is the clock overflow of `decode_unix_secs` only (random flips / a short tag may
        // move other bytes into the seconds field)
        let clock_overflow = secs >= 1 << 63 || fuzzed;
        // oracle (C14 'altered => absent' at the decoder; C03: no panic other than the clock overflow)
        if expect_none && !(resp == "none" || resp.starts_with("absent ")) && !resp.contains("dec=none") {
            // a damaged type byte / tag / length must not decode (random flips may still be valid)
            if !(resp == "panic" && clock_overflow) {
                r.oracle_fail(&format!("key=token-decoder damaged plaintext {} -> {resp}", hex(&tok)));
            }
        }
        if resp == "panic" {
            if !clock_overflow {
                r.oracle_fail(&format!("key=token-decoder-panic {} -> panic", hex(&tok)));
            }
            return;
        }
    }
}

// ---------------------------------------------------------------------------------------------
// bloomlog
// ---------------------------------------------------------------------------------------------

pub const BLOOMLOG_RULE: &str = "case = BloomTokenLog::new(max_bytes in {0..1MiB}, k) then up to maxops check_and_insert calls with one lifetime per case: monotone server clock advancing by fractions of the lifetime with jumps of 1..5 periods; fresh tokens issued within the lifetime before now (as from_header guarantees), replays of earlier tokens (recent, previous period, long ago), same-fingerprint nonces (differing above bit 64), plus a malformed share (expired, issued in the future, lifetime 0 or changed, clock overflow); tiny budgets force the hash-set -> bloom conversion; non-trivial = a period turn-over happened and a replay was attempted after it";

pub fn bloomlog(rng: &mut Rng, r: &mut Runner, maxops: usize) {
    let max_bytes = *rng.pick(&[0u64, 16, 48, 64, 100, 128, 800, 4096, 1 << 20]);
    let k = *rng.pick(&[0u64, 1, 3, 7, 58]);
    r.op(&format!("bloomlog new {max_bytes} {k}"));
    let lifetime: u128 = match rng.below(6) {
        0 => 1,
        1 => NS,
        2 => 10 * NS + rng.below(NS as u64) as u128,
        3 => 1000 * NS,
        4 => 1_209_600 * NS,
        _ => rng.range(1, 1 << 40) as u128,
    };
    let mut now: u128 = match rng.below(3) {
        0 => rng.below(10) as u128 * lifetime,
        1 => 1_700_000_000 * NS,
        _ => rng.below(1 << 55) as u128,
    };
    let honest = rng.chance(4, 5); // only calls the real caller can make, constant lifetime
    let mut issued_log: Vec<(u128, u128)> = Vec::new(); // every (nonce, issued) presented so far
    let mut accepted: HashMap<(u64, u128), u128> = HashMap::new(); // (fingerprint, issued) -> lifetime used
    let mut p1_prev: Option<String> = None;
    let (mut turned, mut replay_after_turn) = (false, false);
    let mut const_lifetime = true;
    for _ in 0..maxops {
        // advance the (monotone) clock
        now += match rng.below(10) {
            0 => 0,
            1 => lifetime,
            2 => lifetime * rng.range(2, 5) as u128,
            3 => lifetime + 1,
            4 => lifetime.saturating_sub(1),
            _ => (lifetime / 8 + 1) * rng.below(8) as u128 / 2,
        };
        if now >= LIMIT / 2 {
            now = LIMIT / 2;
        }
        let mut lt = lifetime;
        let replay = !issued_log.is_empty() && rng.chance(2, 5);
        let (nonce, issued) = if replay {
            let idx = match rng.below(3) {
                0 => issued_log.len() - 1,
                1 => issued_log.len() - 1 - (rng.below(4) as usize).min(issued_log.len() - 1),
                _ => rng.below(issued_log.len() as u64) as usize,
            };
            let (n, i) = issued_log[idx];
            // same fingerprint, different high bits: still the same entry for the log
            let n = if rng.chance(1, 8) { n ^ (1u128 << rng.range(64, 127)) } else { n };
            (n, i)
        } else {
            let nonce = match rng.below(4) {
                0 => rng.below(6) as u128,
                1 => (rng.next() as u128) << 64 | rng.below(6) as u128,
                _ => ((rng.next() as u128) << 64) | rng.next() as u128,
            };
            // the server issued it at some earlier reading of its clock, at most `lifetime` ago
            let age = match rng.below(5) {
                0 => 0,
                1 => lifetime,
                2 => lifetime.saturating_sub(1),
                _ => rng.below(lifetime.min(u64::MAX as u128) as u64 + 1) as u128,
            };
            (nonce, now.saturating_sub(age))
        };
        let mut issued = issued;
        if !honest {
            match rng.below(12) {
                0 => issued = now.saturating_sub(lifetime + 1 + rng.below(1 << 30) as u128), // expired
                1 => issued = now + rng.below(1 << 40) as u128,                              // from the future
                2 => lt = 0,
                3 => lt = lifetime * 2,
                4 => lt = LIMIT - rng.below(2) as u128, // issued + lifetime overflows
                5 => issued = LIMIT - 1 - rng.below(2) as u128,
                _ => {}
            }
        }
        if lt != lifetime {
            const_lifetime = false;
        }
        // 1. observe the implementation's free choices (false positives, conversion)
        let obs = probe(r, &format!("bloomlog do {nonce} {issued} {lt}"));
        let (res, modes) = if obs == "panic" || obs == "bad-op" {
            ("ok".to_string(), "SS".to_string())
        } else {
            let w: Vec<&str> = obs.split(' ').collect();
            let m = |s: &str| if s.contains("=B") { 'B' } else { 'S' };
            (w[0].to_string(), format!("{}{}", m(w[2]), m(w[3])))
        };
        // 2. the recorded, compared call
        let resp = r.op(&format!("bloomlog check {nonce} {issued} {lt} {res} {modes}"));
        if resp == "panic" {
            if issued + lt < LIMIT {
                r.oracle_fail(&format!("key=bloom-panic check_and_insert({nonce},{issued},{lt}) panicked"));
            }
            return;
        }
        if resp == "bad-op" {
            continue;
        }
        let w: Vec<&str> = resp.split(' ').collect();
        let ok = w[0] == "ok";
        let p1 = w[1].to_string();
        if let Some(p) = &p1_prev {
            if *p != p1 && *p != "p1=0" {
                turned = true;
            }
        }
        p1_prev = Some(p1);
        // ---------------- oracle (C14): no token is accepted twice (same lifetime configuration)
        let fp = nonce as u64;
        if ok {
            if let Some(prev_lt) = accepted.get(&(fp, issued)) {
                if *prev_lt == lt && const_lifetime {
                    r.oracle_fail(&format!(
                        "key=bloom-reuse nonce {nonce} issued {issued} lifetime {lt} accepted twice (now {now})"
                    ));
                }
            }
            accepted.insert((fp, issued), lt);
        }
        if replay && turned {
            replay_after_turn = true;
        }
        issued_log.push((nonce, issued));
        if turned && replay_after_turn {
            r.nontrivial();
        }
    }
}

// ---------------------------------------------------------------------------------------------
// tokencache
// ---------------------------------------------------------------------------------------------

pub const TOKENCACHE_RULE: &str = "case = TokenMemoryCache::new(max_server_names in {0,1,2,3,5,256}, max_tokens_per_server in {0..3}) (or the default 256/2) then up to maxops insert/take over a pool of 2..8 server names with globally unique token bytes (sometimes repeated bytes); non-trivial = a name was evicted, a queue overflowed and a take hit";

pub fn tokencache(rng: &mut Rng, r: &mut Runner, maxops: usize) {
    let (mut a, mut b) = (256u64, 2u64);
    if rng.chance(7, 8) {
        a = *rng.pick(&[0u64, 1, 1, 2, 2, 3, 3, 5, 256]);
        b = *rng.pick(&[0u64, 1, 1, 2, 2, 3]);
        r.op(&format!("tokencache new {a} {b}"));
    }
    let npool = rng.range(2, 8);
    let names: Vec<String> = (0..npool)
        .map(|i| if rng.chance(1, 2) { format!("s{i}") } else { format!("{}x{i}", hex(&rng.bytes(2))) })
        .collect();
    // reference (the specification the crate's own `cache_test` uses): oldest first
    let mut reference: Vec<(String, VecDeque<String>)> = Vec::new();
    let mut inserted: HashSet<String> = HashSet::new();
    let mut handed_out: HashSet<String> = HashSet::new();
    let mut dup_bytes = false;
    let mut counter: u32 = rng.below(1 << 16) as u32;
    let (mut evicted, mut overflowed, mut hit) = (false, false, false);
    for _ in 0..maxops {
        let name = rng.pick(&names).clone();
        if rng.chance(3, 5) {
            let tok = if !inserted.is_empty() && rng.chance(1, 20) {
                dup_bytes = true;
                inserted.iter().min().unwrap().clone()
            } else {
                counter += 1;
                hex(&counter.to_be_bytes()[(rng.below(3) as usize)..])
            };
            if !inserted.insert(tok.clone()) {
                dup_bytes = true;
            }
            let resp = r.op(&format!("tokencache insert {name} {tok}"));
            if a > 0 && b > 0 {
                if let Some(j) = reference.iter().position(|(n, _)| *n == name) {
                    let (_, mut q) = reference.remove(j);
                    q.push_back(tok);
                    if q.len() as u64 > b {
                        q.pop_front();
                        overflowed = true;
                    }
                    reference.push((name, q));
                } else {
                    reference.push((name, VecDeque::from([tok])));
                    if reference.len() as u64 > a {
                        reference.remove(0);
                        evicted = true;
                    }
                }
            }
            check_cache_state(r, &resp, &reference, a, b);
            if resp == "panic" {
                r.oracle_fail("key=cache-panic insert panicked");
                return;
            }
        } else {
            let resp = r.op(&format!("tokencache take {name}"));
            if resp == "panic" {
                r.oracle_fail("key=cache-panic take panicked");
                return;
            }
            let expect = reference.iter().position(|(n, _)| *n == name).map(|j| {
                let (n, mut q) = reference.remove(j);
                let t = q.pop_front().unwrap();
                if !q.is_empty() {
                    reference.push((n, q));
                }
                t
            });
            let got = resp.strip_prefix("some ").map(|x| x.split(' ').next().unwrap().to_string());
            // oracle (C14): a stored token is handed out at most once, and only stored tokens are
            if let Some(t) = &got {
                hit = true;
                if !inserted.contains(t) {
                    r.oracle_fail(&format!("key=cache-take-unknown take {name} -> {t} never stored"));
                }
                if !handed_out.insert(t.clone()) && !dup_bytes {
                    r.oracle_fail(&format!("key=cache-take-twice token {t} handed out twice"));
                }
            }
            if got != expect {
                r.oracle_fail(&format!("key=cache-lru-order take {name}: expected {expect:?} got {got:?}"));
            }
            check_cache_state(r, &resp, &reference, a, b);
        }
        if evicted && overflowed && hit {
            r.nontrivial();
        }
    }
}

/// bounds and LRU order of the printed state against the reference
fn check_cache_state(r: &mut Runner, resp: &str, reference: &[(String, VecDeque<String>)], a: u64, b: u64) {
    let Some(lru) = resp.split(' ').find_map(|w| w.strip_prefix("lru=")) else {
        return;
    };
    let entries: Vec<(&str, Vec<&str>)> = if lru == "-" {
        Vec::new()
    } else {
        lru.split(';')
            .map(|e| {
                let (n, t) = e.split_once(':').unwrap_or((e, ""));
                (n, t.split(',').filter(|x| !x.is_empty()).collect())
            })
            .collect()
    };
    if entries.len() as u64 > a {
        r.oracle_fail(&format!("key=cache-bound-names {} names > {a}", entries.len()));
    }
    for (n, t) in &entries {
        if t.len() as u64 > b || t.is_empty() {
            r.oracle_fail(&format!("key=cache-bound-tokens {n} holds {} tokens (bound {b})", t.len()));
        }
    }
    // most recently used first == reverse of the oldest-first reference
    let want: Vec<(String, Vec<String>)> = reference
        .iter()
        .rev()
        .map(|(n, q)| (n.clone(), q.iter().cloned().collect()))
        .collect();
    let got: Vec<(String, Vec<String>)> = entries
        .iter()
        .map(|(n, t)| (n.to_string(), t.iter().map(|x| x.to_string()).collect()))
        .collect();
    if want != got {
        r.oracle_fail(&format!("key=cache-lru-order state {lru} expected {want:?}"));
    }
    if !resp.ends_with("ok=true") {
        r.oracle_fail(&format!("key=cache-lookup-inconsistent {resp}"));
    }
}
