//! Whole-history ghost for the `streams` generator (C11 events and concurrency slot, C02 lost `Readable`).
//!
//! Everything here is derived from the PROPERTY TEXT and from what the test itself did (calls it made, frames and
//! acknowledgements it delivered, results it was given) — never from the implementation's state. The only values read
//! from the view are the observables the oracles judge: the queued / delivered events and `max_remote` /
//! `allocated_remote_count` (their difference is the number of concurrency slots released so far).
//!
//! C11: "Finished is emitted at most once and only after a finish() was fully acknowledged ... a remotely initiated
//! stream stops counting against the concurrency limit exactly when both of its halves are terminal, not before."
//!  - sending half terminal (RFC 9000 3.1 "Data Recvd" / "Reset Recvd"): finish() accepted, every written byte and
//!    the FIN acknowledged; or reset() accepted and the RESET_STREAM acknowledged.
//!  - receiving half terminal (3.2 "Data Read" / "Reset Read"): the reader was shown end-of-stream or the reset code;
//!    or it stopped the stream and the final size is known (nothing is left to read or to account for).
//!  - a unidirectional stream has one half.
//! C11: "Stopped once per stopped stream": a sending half is stopped when a STOP_SENDING frame of the peer (sent by the
//!    TEST, for a stream that exists: RFC 9000 19.5) reaches it while it is not terminal (3.1: before "Data Recvd" /
//!    "Reset Recvd"; 3.5: "STOP_SENDING ... in the Reset Sent state" changes nothing on the wire, but the application
//!    interface still reports the peer's code) AND the implementation's own answer shows the half with that stop reason
//!    (`stopped()` = Some(code), the `sr` observable). Such a half owes the application exactly one `Stopped id`; the
//!    debt is judged when the application has polled until `none` (nothing is queued any more). Nothing is demanded for
//!    a half that is gone (fully acknowledged / reset acknowledged / never created / forgotten by a 0-RTT rejection).
//! C02: "... a lost application event": a reader that was told `Blocked` must find `Readable` queued once a frame of
//! the peer makes data contiguous at its read offset, ends the stream there, or resets it.
use std::collections::{BTreeMap, BTreeSet};

use super::streams::View;

#[derive(Default)]
pub struct Hist11 {
    side: u64,
    /// bytes the application wrote (accepted by `write`), per stream
    wrote: BTreeMap<u64, u64>,
    finished: BTreeSet<u64>,
    reset: BTreeSet<u64>,
    /// acknowledged byte ranges delivered by the test, per stream
    acked: BTreeMap<u64, Vec<(u64, u64)>>,
    fin_acked: BTreeSet<u64>,
    /// finish() fully acknowledged: the only licence for `Finished`
    fin_complete: BTreeSet<u64>,
    /// sending half terminal
    send_done: BTreeSet<u64>,
    fin_queued: BTreeSet<u64>,
    fin_delivered: BTreeSet<u64>,
    stopped: BTreeSet<u64>,
    final_known: BTreeSet<u64>,
    /// receiving half terminal
    recv_term: BTreeSet<u64>,
    /// remotely initiated streams both of whose halves are terminal
    released: BTreeSet<u64>,
    /// C02: bytes read per stream; readers told `Blocked` and not notified since
    rd_off: BTreeMap<u64, u64>,
    read_blocked: BTreeSet<u64>,
    /// streams of the peer the application has been handed by `accept`: for the others a pending `Opened` is the
    /// notification (C02: "reading when a stream is reported readable or opened")
    accepted: BTreeSet<u64>,
    /// C11 "Stopped once per stopped stream": halves stopped by a STOP_SENDING of the test while live (id -> code of the
    /// frame); `Stopped id` events handed to the application by poll
    stop_due: BTreeMap<u64, u64>,
    stopped_delivered: BTreeMap<u64, u64>,
    /// the test's own operations on a stream with the answers it was given (last 16), quoted in the report as the replay
    oplog: BTreeMap<u64, Vec<String>>,
    /// the history left the scope of the ghost (a frame the RFC refuses was accepted with effect)
    off: bool,
}

fn ev_tokens(v: &View) -> Vec<&str> {
    let e = v.kv.get("ev").map(|s| s.as_str()).unwrap_or("[]");
    e.trim_start_matches('[').trim_end_matches(']').split(',').filter(|t| !t.is_empty()).collect()
}

fn ev_count(v: &View, tok: &str) -> usize {
    ev_tokens(v).iter().filter(|t| **t == tok).count()
}

impl Hist11 {
    pub fn new(side: u64) -> Self {
        Self { side, ..Self::default() }
    }

    /// length of the acknowledged prefix of the stream
    fn covered(&self, id: u64) -> u64 {
        let mut r = self.acked.get(&id).cloned().unwrap_or_default();
        r.sort();
        let mut c = 0u64;
        for (a, b) in r {
            if a <= c {
                c = c.max(b);
            }
        }
        c
    }

    fn uni(id: u64) -> bool {
        id / 2 % 2 == 1
    }

    /// one operation of the test and the implementation's answer; returns the violated keys
    pub fn step(&mut self, w: &[&str], prev: &View, v: &View, legal: bool, diverged: bool) -> Vec<(&'static str, String)> {
        let mut out: Vec<(&'static str, String)> = Vec::new();
        if w[0] == "new" {
            // a new connection starts a new history
            *self = Self::new((w.get(1) == Some(&"s")) as u64);
            return out;
        }
        if w[0] == "rejected" {
            // a 0-RTT rejection forgets every locally initiated stream: their ids are issued again
            let side = self.side;
            let keep = |id: &u64| *id % 2 != side;
            self.wrote.retain(|id, _| keep(id));
            self.acked.retain(|id, _| keep(id));
            self.rd_off.retain(|id, _| keep(id));
            self.stop_due.retain(|id, _| keep(id));
            self.stopped_delivered.retain(|id, _| keep(id));
            self.oplog.retain(|id, _| keep(id));
            for set in [&mut self.finished, &mut self.reset, &mut self.fin_acked, &mut self.fin_complete, &mut self.send_done,
                &mut self.fin_queued, &mut self.fin_delivered, &mut self.stopped, &mut self.final_known, &mut self.recv_term,
                &mut self.read_blocked] {
                set.retain(|id| keep(id));
            }
            return out;
        }
        if diverged || (!legal && (v.send != prev.send || v.recv != prev.recv)) {
            self.off = true;
        }
        if self.off {
            return out;
        }
        let line = w.join(" ");
        let id: Option<u64> = w.get(1).and_then(|x| x.parse().ok());
        if let Some(id) = id {
            let l = self.oplog.entry(id).or_default();
            l.push(format!("{line} -> {}", v.result));
            if l.len() > 16 {
                l.remove(0);
            }
        }
        let ok = v.result == "ok" || v.result.starts_with("ok ");
        let num = |i: usize| w.get(i).and_then(|x| x.parse::<u64>().ok()).unwrap_or(0);
        // a stream of the peer the application does not hold yet: a pending `Opened` of its direction announces it
        let opens = id.map_or(false, |id| {
            id % 2 != self.side && !self.accepted.contains(&id) && v.kv.get("op").map_or(false, |o| o.split(',').nth((id / 2 % 2) as usize) == Some("1"))
        });
        match (w[0], id) {
            ("write", Some(id)) => {
                if let Some(k) = v.result.strip_prefix("ok ").and_then(|k| k.parse::<u64>().ok()) {
                    *self.wrote.entry(id).or_insert(0) += k;
                }
            }
            ("finish", Some(id)) if v.result == "ok" => {
                self.finished.insert(id);
            }
            ("reset", Some(id)) if v.result == "ok" => {
                self.reset.insert(id);
            }
            ("ack", Some(id)) => {
                if !self.reset.contains(&id) && !self.send_done.contains(&id) {
                    let wr = self.wrote.get(&id).cloned().unwrap_or(0);
                    let (a, b) = (num(2).min(wr), num(3).min(wr));
                    if a < b {
                        self.acked.entry(id).or_default().push((a, b));
                    }
                    // the acknowledgement of a FIN exists only once finish() was called
                    if num(4) == 1 && self.finished.contains(&id) {
                        self.fin_acked.insert(id);
                    }
                    if self.finished.contains(&id) && self.fin_acked.contains(&id) && self.covered(id) >= wr {
                        self.fin_complete.insert(id);
                        self.send_done.insert(id);
                    }
                }
                // `Finished` queued by this acknowledgement
                let tok = format!("F.{id}");
                if ev_count(v, &tok) > ev_count(prev, &tok) {
                    if !self.fin_complete.contains(&id) {
                        out.push(("C11-finished-before-ack", format!(
                            "{line}: Finished {id} queued, but finish() called: {}, FIN acknowledged: {}, acknowledged prefix {} of {} written bytes",
                            self.finished.contains(&id), self.fin_acked.contains(&id), self.covered(id), self.wrote.get(&id).cloned().unwrap_or(0))));
                    }
                    if !self.fin_queued.insert(id) {
                        out.push(("C11-finished-twice", format!("{line}: Finished {id} queued a second time")));
                    }
                }
            }
            ("accept", _) => {
                if let Some(id) = v.result.strip_prefix("ok ").and_then(|x| x.parse::<u64>().ok()) {
                    self.accepted.insert(id);
                }
            }
            ("rstack", Some(id)) => {
                if self.reset.contains(&id) {
                    self.send_done.insert(id);
                }
            }
            ("read", Some(id)) => {
                let mut it = v.result.split(' ');
                if it.next() == Some("ok") {
                    let k: u64 = it.next().and_then(|x| x.parse().ok()).unwrap_or(0);
                    let end = it.next().unwrap_or("");
                    *self.rd_off.entry(id).or_insert(0) += k;
                    if end == "fin" || end.starts_with("reset:") {
                        self.recv_term.insert(id);
                    }
                    if end == "blocked" {
                        // told Blocked: from now on a frame that makes the stream readable must queue `Readable`;
                        // an event that is already queued covers it
                        if ev_count(v, &format!("R.{id}")) == 0 {
                            self.read_blocked.insert(id);
                        }
                    } else {
                        self.read_blocked.remove(&id);
                    }
                } else {
                    self.read_blocked.remove(&id);
                }
            }
            ("rreset", Some(id)) => {
                if let Some(c) = v.result.strip_prefix("ok ") {
                    if c != "-" {
                        self.recv_term.insert(id);
                        self.read_blocked.remove(&id);
                    }
                }
            }
            ("stop", Some(id)) if ok => {
                self.stopped.insert(id);
                self.read_blocked.remove(&id);
                if self.final_known.contains(&id) {
                    self.recv_term.insert(id);
                }
            }
            ("stopsend", Some(id)) if legal => {
                // the frame is one the RFC accepts (the stream exists: `legal`), by the history the sending half is not
                // terminal, and the implementation itself now reports the half as stopped
                let shown = v.ss(id, "sr").map_or(false, |s| s != "-");
                if !self.send_done.contains(&id) && shown && !self.stop_due.contains_key(&id) {
                    self.stop_due.insert(id, num(2));
                }
            }
            ("stream", Some(id)) | ("rst", Some(id)) if ok && legal => {
                let is_rst = w[0] == "rst";
                let fin = is_rst || num(4) == 1;
                if fin {
                    self.final_known.insert(id);
                    if self.stopped.contains(&id) {
                        self.recv_term.insert(id);
                    }
                }
                // C02: the reader was told Blocked at `rd`; this frame makes the stream readable there
                if self.read_blocked.contains(&id) && !self.recv_term.contains(&id) {
                    let rd = self.rd_off.get(&id).cloned().unwrap_or(0);
                    let (off, len) = (num(2), num(3));
                    let readable = is_rst || (off <= rd && off.saturating_add(len) > rd) || (fin && off.saturating_add(len) == rd);
                    if readable {
                        if ev_count(v, &format!("R.{id}")) == 0 && !opens {
                            out.push(("C02-readable-lost", format!(
                                "{line}: the reader of stream {id} was told Blocked at offset {rd}; this frame makes the stream readable there and no Readable {id} is queued (ev={})",
                                v.kv.get("ev").cloned().unwrap_or_default())));
                        }
                        self.read_blocked.remove(&id);
                    }
                }
            }
            ("poll", _) => {
                let mut it = v.result.split(' ');
                match it.next() {
                    Some("Finished") => {
                        let id: u64 = it.next().and_then(|x| x.parse().ok()).unwrap_or(0);
                        if !self.fin_complete.contains(&id) {
                            out.push(("C11-finished-before-ack", format!(
                                "poll: Finished {id} handed to the application, but finish() called: {}, FIN acknowledged: {}, acknowledged prefix {} of {} written bytes",
                                self.finished.contains(&id), self.fin_acked.contains(&id), self.covered(id), self.wrote.get(&id).cloned().unwrap_or(0))));
                        }
                        if !self.fin_delivered.insert(id) {
                            out.push(("C11-finished-twice", format!("poll: Finished {id} handed to the application a second time")));
                        }
                    }
                    Some("Readable") => {
                        if let Some(id) = it.next().and_then(|x| x.parse::<u64>().ok()) {
                            self.read_blocked.remove(&id);
                        }
                    }
                    Some("Stopped") => {
                        if let Some(id) = it.next().and_then(|x| x.parse::<u64>().ok()) {
                            *self.stopped_delivered.entry(id).or_insert(0) += 1;
                        }
                    }
                    // the application polled until nothing is reported: every stopped half has been announced once
                    Some("none") => {
                        let due: Vec<(u64, u64)> = self.stop_due.iter().map(|(a, b)| (*a, *b)).collect();
                        for (id, code) in due {
                            let n = self.stopped_delivered.get(&id).cloned().unwrap_or(0);
                            if n == 0 {
                                out.push(("C11-stopped-event-missing", format!(
                                    "poll -> none: the peer's STOP_SENDING {id} (code {code}) reached the sending half of stream {id} while it was not terminal (application reset() before: {}, finish() before: {}), the half reports the stop ({}), and the application polled every event without being handed Stopped {id}; operations on the stream: {:?}",
                                    self.reset.contains(&id), self.finished.contains(&id),
                                    v.ss(id, "sr").map_or("half freed since".to_string(), |s| format!("stopped() = {s} now")),
                                    self.oplog.get(&id).cloned().unwrap_or_default())));
                                self.stop_due.remove(&id);
                            }
                        }
                    }
                    _ => {}
                }
            }
            _ => {}
        }
        // ---- the concurrency slot
        let mut newly = [0u64; 2];
        let mut which: Vec<u64> = Vec::new();
        if let Some(id) = id {
            let remote = id % 2 != self.side;
            let applies = matches!(w[0], "ack" | "rstack" | "read" | "rreset" | "stop" | "stream" | "rst");
            if applies && remote && !self.released.contains(&id) && self.recv_term.contains(&id)
                && (Self::uni(id) || self.send_done.contains(&id))
            {
                self.released.insert(id);
                newly[(id / 2 % 2) as usize] += 1;
                which.push(id);
            }
        }
        let (mr, arc, pmr, parc) = (v.two("mr"), v.two("arc"), prev.two("mr"), prev.two("arc"));
        for d in 0..2 {
            let now = mr[d] as i128 - arc[d] as i128;
            let before = pmr[d] as i128 - parc[d] as i128;
            let delta = now - before;
            if delta > newly[d] as i128 {
                out.push(("C11-slot-released-early", format!(
                    "{line}: {} slot(s) of direction {d} released (max_remote {}->{}, allocated {}->{}), but by the history {} remotely initiated stream(s) lost their last half in this step{}",
                    delta, pmr[d], mr[d], parc[d], arc[d], newly[d],
                    id.map_or(String::new(), |id| format!(" (stream {id}: receiving half terminal: {}, sending half terminal: {})", self.recv_term.contains(&id), Self::uni(id) || self.send_done.contains(&id))))));
            } else if delta < newly[d] as i128 {
                out.push(("C11-slot-never-released", format!(
                    "{line}: stream(s) {which:?} lost their last half in this step (both halves terminal), the released-slot count of direction {d} went {before}->{now} (max_remote {}->{}, allocated {}->{})",
                    pmr[d], mr[d], parc[d], arc[d])));
            }
        }
        out
    }
}
