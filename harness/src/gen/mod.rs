pub mod asm;
pub mod sbuf;
pub mod wire;

use crate::{Rng, Runner};

/// (name, non-triviality rule, generator)
pub type GenFn = fn(&mut Rng, &mut Runner, usize);

pub fn lookup(name: &str) -> Option<(&'static str, GenFn)> {
    Some(match name {
        "varint" => (wire::VARINT_RULE, wire::varint as GenFn),
        "pn" => (wire::PN_RULE, wire::pn as GenFn),
        "dedup" => (wire::DEDUP_RULE, wire::dedup as GenFn),
        "sbuf" => (sbuf::SBUF_RULE, sbuf::sbuf as GenFn),
        "asm" => (asm::ASM_RULE, asm::asm as GenFn),
        _ => return None,
    })
}
