pub mod asm;
pub mod sbuf;
pub mod ackfreq;
pub mod ackscan;
pub mod cidq;
pub mod cidstate;
pub mod pathresp;
pub mod pendingacks;
pub mod frame;
pub mod header;
pub mod tparams;
pub mod c14;
pub mod c12;
pub mod cindex;
pub mod cidecho;
pub mod dgram;
pub mod mtud;
pub mod streams;
pub mod streams_hist;
pub mod wire;
pub mod rxpn;
pub mod rcv;
pub mod keyupd;

use crate::{Rng, Runner};

/// (name, non-triviality rule, generator)
pub type GenFn = fn(&mut Rng, &mut Runner, usize);

pub fn lookup(name: &str) -> Option<(&'static str, GenFn)> {
    Some(match name {
        "varint" => (wire::VARINT_RULE, wire::varint as GenFn),
        "pn" => (wire::PN_RULE, wire::pn as GenFn),
        "dedup" => (wire::DEDUP_RULE, wire::dedup as GenFn),
        "sbuf" => (sbuf::SBUF_RULE, sbuf::sbuf as GenFn),
        "asm" => (asm::ASM_RULE, asm::asm as GenFn),
        "rcv" => (rcv::RCV_RULE, rcv::rcv as GenFn),
        "cidq" => (cidq::CIDQ_RULE, cidq::cidq as GenFn),
        "cidstate" => (cidstate::CIDSTATE_RULE, cidstate::cidstate as GenFn),
        "ackfreq" => (ackfreq::ACKFREQ_RULE, ackfreq::ackfreq as GenFn),
        "ackscan" => (ackscan::ACKSCAN_RULE, ackscan::ackscan as GenFn),
        "pathresp" => (pathresp::PATHRESP_RULE, pathresp::pathresp as GenFn),
        "pendingacks" => (pendingacks::PENDINGACKS_RULE, pendingacks::pendingacks as GenFn),
        "frame" => (frame::FRAME_RULE, frame::frame as GenFn),
        "tparams" => (tparams::TPARAMS_RULE, tparams::tparams as GenFn),
        "header" => (header::HEADER_RULE, header::header as GenFn),
        "token" => (c14::TOKEN_RULE, c14::token as GenFn),
        "bloomlog" => (c14::BLOOMLOG_RULE, c14::bloomlog as GenFn),
        "tokencache" => (c14::TOKENCACHE_RULE, c14::tokencache as GenFn),
        "sentpk" => (c12::SENTPK_RULE, c12::sentpk as GenFn),
        "cc" => (c12::CC_RULE, c12::cc as GenFn),
        "cindex" => (cindex::CINDEX_RULE, cindex::cindex as GenFn),
        "cidecho" => (cidecho::CIDECHO_RULE, cidecho::cidecho as GenFn),
        "dgram" => (dgram::DGRAM_RULE, dgram::dgram as GenFn),
        "mtud" => (mtud::MTUD_RULE, mtud::mtud as GenFn),
        "streams" => (streams::STREAMS_RULE, streams::streams as GenFn),
        "rxpn" => (rxpn::RXPN_RULE, rxpn::rxpn as GenFn),
        "keyupd" => (keyupd::KEYUPD_RULE, keyupd::keyupd as GenFn),
        _ => return None,
    })
}
