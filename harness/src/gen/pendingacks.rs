use std::collections::BTreeSet;

use crate::{Rng, Runner};

pub const PENDINGACKS_RULE: &str = "case = either (a) PendingAcks: up to maxops received packet numbers (increasing with gaps so that more than MAX_ACK_BLOCKS ranges form, reordered, duplicated, adjacent so that ranges merge; 1 in 8 cases also u64::MAX / 2^62 boundary values) interleaved with subtract_below(max) for max below / inside / between / above the ranges; or (b) a bare ArrayRangeSet: insert / remove of arbitrary ranges (empty, contained, bridging several ranges, adjacent on either side) over a small universe, compared element-wise with a BTreeSet, and pop_min; non-trivial = (a) at least 8 ranges (or the MAX_ACK_BLOCKS cap) were reached and a subtract_below happened, (b) a bridging insert or a splitting remove occurred";

const MAX_ACK_BLOCKS: usize = 64;

fn parse_ranges(resp: &str) -> Option<Vec<(u64, u64)>> {
    let i = resp.find('[')?;
    let j = resp.find(']')?;
    let body = &resp[i + 1..j];
    if body.is_empty() {
        return Some(vec![]);
    }
    body.split(',')
        .map(|x| {
            let (a, b) = x.split_once('-')?;
            Some((a.parse().ok()?, b.parse().ok()?))
        })
        .collect()
}

/// sorted, non-empty ranges, at least one missing value between neighbours
fn well_formed(v: &[(u64, u64)]) -> bool {
    v.iter().all(|(a, b)| a < b) && v.windows(2).all(|w| w[0].1 < w[1].0)
}

pub fn pendingacks(rng: &mut Rng, r: &mut Runner, maxops: usize) {
    r.op("pendingacks new");
    if rng.chance(1, 2) {
        // ---- (a) PendingAcks
        let malformed = rng.chance(1, 8);
        let mut pn: u64 = if rng.chance(1, 6) { rng.biased() >> 2 } else { rng.below(100) };
        let mut now = 0u64;
        let (mut capped, mut subbed, mut many) = (false, false, false);
        let mut largest: Option<u64> = None;
        let stride = *rng.pick(&[1u64, 2, 2, 3, 5]);
        for _ in 0..maxops * 3 {
            now += rng.below(1000);
            if rng.chance(9, 10) {
                let p = match rng.below(10) {
                    0 => pn.saturating_sub(rng.below(8)),
                    1 => pn.saturating_sub(rng.below(200)),
                    2 if malformed => *rng.pick(&[u64::MAX, u64::MAX - 1, (1 << 62) - 1, 1 << 62]),
                    3 => pn + 1,
                    _ => {
                        pn += stride + rng.below(2);
                        pn
                    }
                };
                let before = r.out.len();
                let resp = r.op(&format!("pendingacks insert {p} {now}"));
                let _ = before;
                if resp == "panic" {
                    if p < (1 << 62) {
                        r.oracle_fail(&format!("key=pendingacks-panic insert_one {p}"));
                    }
                    return;
                }
                let Some(v) = parse_ranges(&resp) else { return };
                // oracle: bounded, well formed, largest tracked
                if v.len() > MAX_ACK_BLOCKS {
                    r.oracle_fail(&format!("key=pendingacks-bound {} ranges", v.len()));
                }
                if v.len() == MAX_ACK_BLOCKS {
                    capped = true;
                }
                if v.len() >= 8 {
                    many = true;
                }
                if !well_formed(&v) {
                    r.oracle_fail(&format!("key=pendingacks-shape {resp}"));
                }
                largest = Some(largest.map_or(p, |l| l.max(p)));
                if !resp.contains(&format!("largest={}@", largest.unwrap())) {
                    r.oracle_fail(&format!("key=pendingacks-largest expected {}: {resp}", largest.unwrap()));
                }
                pn = pn.max(p.min(1 << 61));
            } else {
                let m = match rng.below(4) {
                    0 => pn.saturating_sub(rng.below(50)),
                    1 => pn.saturating_sub(rng.below(400)),
                    2 if malformed => u64::MAX,
                    _ => rng.below(pn + 5),
                };
                let resp = r.op(&format!("pendingacks sub {m}"));
                if resp == "panic" {
                    if m < (1 << 62) {
                        r.oracle_fail(&format!("key=pendingacks-panic subtract_below {m}"));
                    }
                    return;
                }
                let Some(v) = parse_ranges(&resp) else { return };
                if !well_formed(&v) || v.first().map_or(false, |f| f.0 <= m) {
                    r.oracle_fail(&format!("key=pendingacks-subtract max={m}: {resp}"));
                }
                subbed = true;
            }
            if (capped || many) && subbed {
                r.nontrivial();
            }
        }
    } else {
        // ---- (b) bare ArrayRangeSet against a BTreeSet
        let uni = *rng.pick(&[30u64, 60, 200]);
        let mut set: BTreeSet<u64> = BTreeSet::new();
        let (mut bridged, mut split) = (false, false);
        let mut prev: Vec<(u64, u64)> = vec![];
        for _ in 0..maxops {
            let s = rng.below(uni);
            let e = match rng.below(5) {
                0 => s,
                1 => s.saturating_sub(rng.below(3)),
                2 => s + 1,
                _ => s + rng.below(uni / 3 + 2),
            };
            let resp = match rng.below(10) {
                0..=4 => {
                    let resp = r.op(&format!("pendingacks rs_insert {s} {e}"));
                    let mut changed = false;
                    for x in s..e {
                        changed |= set.insert(x);
                    }
                    if !resp.starts_with(&format!("{changed} ")) {
                        r.oracle_fail(&format!("key=rangeset-insert-result {s}..{e}: {resp}"));
                    }
                    if let Some(v) = parse_ranges(&resp) {
                        if v.len() + 2 <= prev.len() {
                            bridged = true;
                        }
                    }
                    resp
                }
                5..=8 => {
                    let resp = r.op(&format!("pendingacks rs_remove {s} {e}"));
                    let mut changed = false;
                    for x in s..e {
                        changed |= set.remove(&x);
                    }
                    if !resp.starts_with(&format!("{changed} ")) {
                        r.oracle_fail(&format!("key=rangeset-remove-result {s}..{e}: {resp}"));
                    }
                    if let Some(v) = parse_ranges(&resp) {
                        if v.len() > prev.len() {
                            split = true;
                        }
                    }
                    resp
                }
                _ => {
                    let resp = r.op("pendingacks rs_pop");
                    if let Some(&m) = set.iter().next() {
                        let mut x = m;
                        while set.remove(&x) {
                            x += 1;
                        }
                        if !resp.starts_with(&format!("ok {m}-{x} ")) {
                            r.oracle_fail(&format!("key=rangeset-pop expected {m}-{x}: {resp}"));
                        }
                    } else if !resp.starts_with("none") {
                        r.oracle_fail(&format!("key=rangeset-pop expected none: {resp}"));
                    }
                    resp
                }
            };
            if resp == "panic" {
                r.oracle_fail("key=rangeset-panic");
                return;
            }
            let Some(v) = parse_ranges(&resp) else { return };
            // oracle: the ranges are exactly the runs of the element set
            let elts: BTreeSet<u64> = v.iter().flat_map(|(a, b)| *a..*b).collect();
            if !well_formed(&v) || elts != set {
                r.oracle_fail(&format!("key=rangeset-content {resp} vs {set:?}"));
            }
            prev = v;
            if bridged || split {
                r.nontrivial();
            }
        }
    }
}
