use crate::{Rng, Runner};

pub const CIDSTATE_RULE: &str = "case = CidState::new (cid_len 0..20, lifetime none/short, 1 or 2 handshake CIDs), first issue up to the peer's limit, then up to maxops events in the discipline of Endpoint/Connection: peer RETIRE_CONNECTION_ID with a sequence number that is active / already retired / == issued / issued+1.. / huge (any u64), followed by one new CID exactly when the endpoint would issue it; PushNewCid timer expiries at advancing times followed by one new CID when on_cid_timeout says so; queries. 1 case in 6 is the MALFORMED stream (caller contract broken: arbitrary new_cids batches incl. non-increasing sequences at equal timestamps, limit 0/1/huge, retire before the first issue); non-trivial = a rejected retirement, an accepted retirement of an active CID, a no-op retirement and (with a lifetime) a timeout that advanced retire_prior_to";

struct St {
    issued: u64,
    active: Vec<u64>,
    retire: u64,
}

fn parse(resp: &str) -> Option<St> {
    let mut issued = None;
    let mut retire = None;
    let mut active = None;
    for tok in resp.split(' ') {
        if let Some(v) = tok.strip_prefix("issued=") {
            issued = v.parse().ok();
        } else if let Some(v) = tok.strip_prefix("retire=") {
            retire = v.parse().ok();
        } else if let Some(v) = tok.strip_prefix("active=[") {
            let v = v.trim_end_matches(']');
            active = Some(if v.is_empty() {
                vec![]
            } else {
                v.split(',').filter_map(|x| x.parse().ok()).collect()
            });
        }
    }
    Some(St {
        issued: issued?,
        active: active?,
        retire: retire?,
    })
}

pub fn cidstate(rng: &mut Rng, r: &mut Runner, maxops: usize) {
    let malformed = rng.chance(1, 6);
    let cid_len = if rng.chance(1, 10) { 0 } else { rng.range(1, 20) };
    let lifetime: Option<u64> = if rng.chance(1, 2) { None } else { Some(*rng.pick(&[1, 1000, 5_000_000, 1_000_000_000])) };
    let mut now: u64 = rng.below(1_000_000);
    let issued0 = if rng.chance(1, 4) { 2 } else { 1 };
    let limit: u64 = if malformed { *rng.pick(&[0, 1, 2, 5, 8, u64::MAX]) } else { rng.range(2, 8) };
    let lt = lifetime.map_or("none".to_string(), |l| l.to_string());
    let resp = r.op(&format!("cidstate new {cid_len} {lt} {now} {issued0}"));
    let Some(mut st) = parse(&resp) else {
        r.oracle_fail(&format!("key=cidstate-new {resp}"));
        return;
    };
    let bound = limit.max(issued0).saturating_add(if lifetime.is_some() { 1 } else { 0 });
    // issue_first_cids
    if !(malformed && rng.chance(1, 3)) && cid_len != 0 {
        let n = limit.min(8).saturating_sub(issued0);
        if n > 0 {
            let ids: Vec<String> = (st.issued..st.issued + n).map(|x| x.to_string()).collect();
            let resp = r.op(&format!("cidstate newcids {now} {}", ids.join(",")));
            if resp == "panic" {
                r.oracle_fail("key=cidstate-panic first new_cids");
                return;
            }
            if let Some(s) = parse(&resp) {
                st = s;
            }
        }
    }
    let (mut rejected, mut accepted, mut noop, mut advanced) = (false, false, false, false);
    for _ in 0..maxops {
        let c = rng.below(100);
        if c < 55 {
            // peer-chosen RETIRE_CONNECTION_ID
            let seq = match rng.below(10) {
                0 | 1 | 2 | 3 if !st.active.is_empty() => *rng.pick(&st.active),
                4 => rng.below(st.issued + 1),
                5 => st.issued,
                6 => st.issued + 1 + rng.below(3),
                7 => rng.biased(),
                8 => u64::MAX - rng.below(3),
                _ => rng.below(st.issued + 2),
            };
            let was_active = st.active.contains(&seq);
            let resp = r.op(&format!("cidstate retire {seq} {limit}"));
            if resp == "panic" {
                r.oracle_fail(&format!("key=cidstate-panic retire {seq}"));
                return;
            }
            // oracle: decision of the error class
            let expect_err = cid_len == 0 || seq > st.issued;
            if expect_err != resp.starts_with("err PROTOCOL_VIOLATION") || (expect_err && !resp.starts_with("err")) {
                r.oracle_fail(&format!("key=cidstate-decision retire {seq} issued={} cid_len={cid_len}: {resp}", st.issued));
            }
            if resp.starts_with("err") {
                rejected = true;
                continue; // the connection would close; keep feeding (state is unchanged)
            }
            let Some(s) = parse(&resp) else { return };
            st = s;
            if was_active {
                accepted = true;
            } else {
                noop = true;
            }
            // Endpoint::handle_event(RetireConnectionId): issue one more iff the CID existed and allow_more_cids
            if resp.starts_with("ok true") && was_active && !(malformed && rng.chance(1, 4)) {
                let resp = r.op(&format!("cidstate newcids {now} {}", st.issued));
                if resp == "panic" {
                    if !malformed {
                        r.oracle_fail("key=cidstate-panic new_cids after retirement");
                    }
                    return;
                }
                if let Some(s) = parse(&resp) {
                    st = s;
                }
            }
        } else if c < 75 {
            // Timer::PushNewCid
            now += match rng.below(4) {
                0 => 0,
                1 => lifetime.unwrap_or(1000),
                2 => rng.below(2000),
                _ => rng.below(2_000_000_000),
            };
            let before = st.retire;
            let resp = r.op("cidstate timeout");
            if resp == "panic" {
                r.oracle_fail("key=cidstate-panic on_cid_timeout");
                return;
            }
            let Some(s) = parse(&resp) else { return };
            st = s;
            if st.retire > before {
                advanced = true;
            }
            if resp.starts_with("true") && !(malformed && rng.chance(1, 4)) {
                let resp = r.op(&format!("cidstate newcids {now} {}", st.issued));
                if resp == "panic" {
                    if !malformed {
                        r.oracle_fail("key=cidstate-panic new_cids after timeout");
                    }
                    return;
                }
                if let Some(s) = parse(&resp) {
                    st = s;
                }
            }
        } else if c < 85 {
            r.op("cidstate next_timeout");
        } else if c < 92 {
            let resp = r.op("cidstate rpt");
            if resp != format!("ok {}", st.retire) {
                r.oracle_fail(&format!("key=cidstate-rpt {resp} vs retire={}", st.retire));
            }
        } else if malformed {
            // caller contract broken: arbitrary batch
            let n = rng.below(4);
            let ids: Vec<String> = (0..n)
                .map(|_| match rng.below(3) {
                    0 => rng.below(st.issued + 1),
                    1 => st.issued + rng.below(3),
                    _ => rng.below(100_001),
                })
                .map(|x| x.to_string())
                .collect();
            let l = if ids.is_empty() { "-".to_string() } else { ids.join(",") };
            let resp = r.op(&format!("cidstate newcids {now} {l}"));
            if resp == "panic" {
                return;
            }
            if let Some(s) = parse(&resp) {
                st = s;
            }
        } else {
            now += rng.below(1000);
        }
        // oracle: issued-and-active CIDs stay within the limit (+1 while a lifetime rotation is pending)
        if !malformed && st.active.len() as u64 > bound {
            r.oracle_fail(&format!("key=cidstate-active-bound {} active > {bound}", st.active.len()));
        }
        if rejected && accepted && noop && (advanced || lifetime.is_none()) {
            r.nontrivial();
        }
    }
}
