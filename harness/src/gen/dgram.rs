//! component `dgram`: DatagramState / Datagrams on a real Connection (C16)
use std::collections::VecDeque;

use crate::{Rng, Runner};

pub const DGRAM_RULE: &str = "case = cfg/env then up to maxops of send(drop 0/1)/write/wloop/rcvd/recv/ptx/space/maxsize/hasspace/ovs/bhglue with sizes biased to the buffer, window and max_size boundaries (three regimes: tiny buffers, realistic MTU-sized, degenerate: datagrams disabled / unsupported / MTU below overhead), occasional re-env (MTU increase, black-hole fallback) and a malformed tail (poked totals) in 1 of 12 cases; non-trivial = at least one eviction (send-side or receive-side), one written frame and one Blocked send";

fn cksum(b: &[u8]) -> u64 {
    let mut h: u64 = 7;
    for x in b {
        h = (h * 31 + *x as u64 + 1) & 0xffff_ffff;
    }
    h
}

fn payload(len: u64, tag: u64) -> Vec<u8> {
    (0..len).map(|i| ((tag + i) % 256) as u8).collect()
}

fn varint(x: u64) -> Vec<u8> {
    if x < 1 << 6 {
        vec![x as u8]
    } else if x < 1 << 14 {
        ((x as u16) | 0x4000).to_be_bytes().to_vec()
    } else if x < 1 << 30 {
        ((x as u32) | 0x8000_0000).to_be_bytes().to_vec()
    } else {
        (x | 0xc000_0000_0000_0000).to_be_bytes().to_vec()
    }
}

fn hex(b: &[u8]) -> String {
    crate::hex(b)
}

/// (len, checksum) as printed by the executor
type D = (u64, u64);

#[derive(Default, Debug, Clone, PartialEq)]
struct Obs {
    total: u64,
    out: Vec<D>,
    buffered: u64,
    inc: Vec<D>,
    blocked: bool,
}

fn parse_queue(s: &str) -> Option<Vec<D>> {
    if s == "-" {
        return Some(vec![]);
    }
    s.split(',')
        .map(|x| {
            let (l, c) = x.split_once(':')?;
            Some((l.parse().ok()?, c.parse().ok()?))
        })
        .collect()
}

fn parse(resp: &str) -> Option<(String, Obs)> {
    let (r, st) = resp.split_once(" | ")?;
    let mut o = Obs::default();
    for tok in st.split(' ') {
        let (k, v) = tok.split_once('=')?;
        match k {
            "o" => {
                let (t, q) = v.split_once(':')?;
                o.total = t.parse().ok()?;
                o.out = parse_queue(q)?;
            }
            "i" => {
                let (t, q) = v.split_once(':')?;
                o.buffered = t.parse().ok()?;
                o.inc = parse_queue(q)?;
            }
            "b" => o.blocked = v == "1",
            _ => return None,
        }
    }
    Some((r.to_string(), o))
}

fn sum(q: &[D]) -> u64 {
    q.iter().map(|d| d.0).sum()
}

pub fn dgram(rng: &mut Rng, r: &mut Runner, maxops: usize) {
    // ---- regime
    let regime = rng.below(10);
    let (mut recv_win, mut send_buf, mut mtu, cid, mut peer): (Option<u64>, u64, u64, u64, Option<u64>) =
        if regime < 6 {
            let w = rng.below(64);
            let b = rng.below(64);
            (Some(w), b, 1200, rng.below(21), Some(rng.below(80)))
        } else if regime < 9 {
            let mtu = *rng.pick(&[1200u64, 1280, 1452, 1500, 9000]);
            let peer = match rng.below(4) {
                0 => 65535,
                1 => rng.range(1100, 1600),
                2 => rng.below(20),
                _ => 1 << 20,
            };
            (Some(rng.range(1000, 6000)), rng.range(1000, 6000), mtu, rng.below(21), Some(peer))
        } else {
            let recv = if rng.chance(1, 2) { None } else { Some(rng.below(50)) };
            let peer = if rng.chance(1, 2) { None } else { Some(rng.below(50)) };
            let mtu = if rng.chance(1, 2) { rng.below(80) } else { 1200 };
            (recv, rng.below(50), mtu, rng.below(21), peer)
        };
    let fmt_opt = |x: Option<u64>| x.map_or("-".to_string(), |v| v.to_string());
    r.op(&format!("dgram cfg {} {send_buf}", fmt_opt(recv_win)));
    r.op(&format!("dgram env {mtu} {cid} {}", fmt_opt(peer)));

    // ---- oracle state (the property, applied to the implementation's responses)
    let mut obs = Obs::default(); // last observed state
    let mut shadow_in: VecDeque<D> = VecDeque::new(); // FIFO spec of the receive side
    let mut oracle_on = true;
    let (mut evicted, mut wrote, mut blocked) = (false, false, false);
    let malformed_tail = rng.chance(1, 12);

    // current max_size as reported by the implementation (None = unsupported, Err = panic)
    let query_max = |r: &mut Runner| -> Result<Option<u64>, ()> {
        let resp = r.op("dgram maxsize");
        if resp == "panic" {
            return Err(());
        }
        let (res, _) = parse(&resp).ok_or(())?;
        if res == "none" {
            Ok(None)
        } else {
            Ok(res.strip_prefix("ok ").and_then(|x| x.parse().ok()))
        }
    };

    let pick_len = |rng: &mut Rng, around: &[u64]| -> u64 {
        match rng.below(5) {
            0 | 1 if !around.is_empty() => {
                let b = *rng.pick(around);
                let d = rng.below(3);
                let v = if rng.chance(1, 2) { b.saturating_add(d) } else { b.saturating_sub(d) };
                v.min(7000)
            }
            2 => rng.below(8),
            3 => rng.below(40),
            _ => rng.below(around.iter().copied().max().unwrap_or(40).min(6000) + 2),
        }
    };

    for i in 0..maxops {
        if malformed_tail && i + 3 >= maxops && oracle_on {
            // inconsistent accounting: the model must predict the panics of the checked arithmetic
            oracle_on = false;
            match rng.below(3) {
                0 => {
                    let v = *rng.pick(&[u64::MAX, u64::MAX - 1, u64::MAX - 40, 0, 1, obs.total.saturating_sub(1)]);
                    r.op(&format!("dgram poke out {v}"));
                }
                1 => {
                    r.op(&format!("dgram poke in {}", rng.below(obs.buffered + 1)));
                }
                _ => {
                    r.op(&format!("dgram poke out {}", rng.below(obs.total + 3)));
                }
            }
            continue;
        }
        let choice = rng.below(100);
        let resp;
        if choice < 30 {
            // ---------------------------------------------------------------- send
            let max = query_max(r);
            let bounds: Vec<u64> = [max.ok().flatten(), Some(send_buf), Some(send_buf.saturating_sub(obs.total))]
                .iter()
                .flatten()
                .copied()
                .collect();
            let len = pick_len(rng, &bounds);
            let tag = rng.below(256);
            let drop = rng.chance(1, 2);
            let before = obs.clone();
            resp = r.op(&format!("dgram send {len}:{tag} {}", drop as u8));
            if resp == "panic" {
                if oracle_on && max.is_ok() {
                    r.oracle_fail("key=dgram-send-panic Datagrams::send panicked from a consistent state");
                }
                return;
            }
            let Some((res, now)) = parse(&resp) else { r.oracle_fail("key=dgram-parse unparsable response"); return };
            if oracle_on {
                // `send` consults the local switch before it evaluates max_size
                let max = match max {
                    Ok(m) => m,
                    Err(()) if recv_win.is_none() => None,
                    Err(()) => { r.oracle_fail("key=dgram-maxsize-panic send returned although max_size panics"); return }
                };
                let d = (len, cksum(&payload(len, tag)));
                // admission predicate of the property: fits the reported maximum and the send buffer
                let expect = if recv_win.is_none() {
                    "err Disabled".to_string()
                } else if max.is_none() {
                    "err UnsupportedByPeer".to_string()
                } else if len > max.unwrap().min(send_buf) {
                    "err TooLarge".to_string()
                } else if !drop && before.total + len > send_buf {
                    format!("err Blocked {}:{}", d.0, d.1)
                } else {
                    "ok".to_string()
                };
                if res != expect {
                    r.oracle_fail(&format!("key=dgram-send-admission send {len} drop={drop} max={max:?} buf={send_buf} total={} -> {res}, property says {expect}", before.total));
                }
                if res == "ok" {
                    // RFC 9221 section 3: max_datagram_frame_size bounds the whole frame (type, length, payload), and
                    // 0 means "DATAGRAM frames not supported".  quinn always encodes the length: the frame it will
                    // write has 1 + varint(len) + len bytes (audit SD-26)
                    if let Some(p) = peer {
                        let frame = 1 + varint(len).len() as u64 + len;
                        if frame > p {
                            // the recorded finding is the CONFIGURATION "peer value 0 or 1" (saturating_sub(SIZE_BOUND) gives
                            // Some(0) instead of None: only an EMPTY datagram gets through); a frame beyond any other peer
                            // limit, or a non-empty payload, is a different defect (wrong overhead bound) and keeps its own key
                            let key = if p < 2 && len == 0 { "dgram-send-exceeds-peer-limit" } else { "dgram-send-exceeds-peer-limit-other-cause" };
                            r.oracle_fail(&format!("key={key} send accepted {len} bytes (a {frame}-byte DATAGRAM frame) although the peer advertised max_datagram_frame_size = {p}"));
                        }
                    }
                    // oldest dropped first, minimal eviction, appended intact, accounting
                    let k = before.out.len() + 1 - now.out.len().min(before.out.len() + 1);
                    if now.out.last() != Some(&d) || now.out[..now.out.len() - 1] != before.out[k.min(before.out.len())..] {
                        r.oracle_fail("key=dgram-drop-oldest queue after send is not (suffix of old queue) ++ [d]");
                    }
                    if k > 0 {
                        evicted = true;
                        if !drop {
                            r.oracle_fail("key=dgram-drop-without-flag datagrams dropped by send(drop=false)");
                        }
                        // minimal: one eviction less would not have fitted
                        if sum(&before.out[k - 1..]) + len <= send_buf {
                            r.oracle_fail("key=dgram-drop-minimal more datagrams dropped than needed");
                        }
                    }
                    if now.total > send_buf {
                        r.oracle_fail("key=dgram-total-le-buffer outgoing_total exceeds the send buffer after an accepted send");
                    }
                } else {
                    if now.out != before.out || now.total != before.total {
                        r.oracle_fail("key=dgram-rejected-send-mutates a rejected send changed the queue");
                    }
                    if res.starts_with("err Blocked") {
                        blocked = true;
                        if !now.blocked {
                            r.oracle_fail("key=dgram-blocked-flag Blocked returned but send_blocked not set");
                        }
                    }
                }
            }
            obs = now;
        } else if choice < 42 {
            // ---------------------------------------------------------------- write
            let bl = match rng.below(3) { 0 => 0, 1 => rng.below(20), _ => rng.below(1300) };
            let head = obs.out.first().copied();
            let need = head.map(|d| bl + 1 + varint(d.0).len() as u64 + d.0);
            let max = match (need, rng.below(4)) {
                (Some(n), 0) => n,
                (Some(n), 1) => n.saturating_sub(1),
                (Some(n), 2) => n + rng.below(3),
                _ => rng.below(1500),
            };
            let before = obs.clone();
            resp = r.op(&format!("dgram write {bl} {max}"));
            if resp == "panic" {
                if oracle_on { r.oracle_fail("key=dgram-write-panic write panicked from a consistent state"); }
                return;
            }
            let Some((res, now)) = parse(&resp) else { r.oracle_fail("key=dgram-parse unparsable response"); return };
            if oracle_on {
                let w: Vec<&str> = res.split(' ').collect();
                match (w[0], head) {
                    ("true", Some(d)) => {
                        wrote = true;
                        let mut hdr = vec![0x31u8];
                        hdr.extend(varint(d.0));
                        let newlen = bl + hdr.len() as u64 + d.0;
                        if w[1] != newlen.to_string() || w[2] != hex(&hdr) || newlen > max || now.out[..] != before.out[1..] || now.total + d.0 != before.total {
                            r.oracle_fail(&format!("key=dgram-write-whole write did not encode exactly one whole datagram: {res}"));
                        }
                    }
                    ("false", _) => {
                        if now != before || w[1] != bl.to_string() {
                            r.oracle_fail("key=dgram-write-nothing write returned false but changed something");
                        }
                        if let Some(n) = need {
                            if n <= max {
                                r.oracle_fail("key=dgram-write-refused write refused a datagram that fits");
                            }
                        }
                    }
                    _ => r.oracle_fail("key=dgram-write-empty write returned true on an empty queue"),
                }
            }
            obs = now;
        } else if choice < 50 {
            // ---------------------------------------------------------------- populate_packet loop
            let bl = if rng.chance(1, 2) { 0 } else { rng.below(60) };
            let max = match rng.below(3) { 0 => rng.below(40), 1 => rng.below(200), _ => mtu.saturating_sub(29) };
            let before = obs.clone();
            resp = r.op(&format!("dgram wloop {bl} {max}"));
            if resp == "panic" {
                if oracle_on { r.oracle_fail("key=dgram-wloop-panic datagram loop panicked from a consistent state"); }
                return;
            }
            let Some((res, now)) = parse(&resp) else { r.oracle_fail("key=dgram-parse unparsable response"); return };
            if oracle_on {
                let w: Vec<&str> = res.split(' ').collect();
                let n: usize = w[0].parse().unwrap_or(usize::MAX);
                if n > 0 { wrote = true; }
                // frames are whole datagrams taken from the front, in order; the packet budget is respected
                let mut len = bl;
                for d in before.out.iter().take(n.min(before.out.len())) {
                    len += 1 + varint(d.0).len() as u64 + d.0;
                }
                if n > before.out.len() || now.out[..] != before.out[n.min(before.out.len())..] || w[1] != len.to_string() || (n > 0 && len > max) {
                    r.oracle_fail(&format!("key=dgram-wloop-whole datagram loop output is not a whole prefix of the queue within budget: {res}"));
                }
                if now.total != sum(&now.out) {
                    r.oracle_fail("key=dgram-total-eq-sum outgoing_total != sum of queued lengths");
                }
                // unblocked exactly when blocked and something was sent
                if (w[3] == "true") != (before.blocked && n > 0) || now.blocked != (before.blocked && n == 0) {
                    r.oracle_fail("key=dgram-unblock DatagramsUnblocked / send_blocked disagree with the rule");
                }
            }
            obs = now;
        } else if choice < 72 {
            // ---------------------------------------------------------------- received
            let win = if rng.chance(1, 25) { None } else { recv_win };
            let bounds: Vec<u64> = win.iter().copied().chain(win.map(|w| w.saturating_sub(obs.buffered))).collect();
            let len = pick_len(rng, &bounds);
            let tag = rng.below(256);
            let d = (len, cksum(&payload(len, tag)));
            resp = r.op(&format!("dgram rcvd {len}:{tag} {}", fmt_opt(win)));
            if resp == "panic" {
                if oracle_on { r.oracle_fail("key=dgram-received-panic received panicked from a consistent state"); }
                return;
            }
            let Some((res, now)) = parse(&resp) else { r.oracle_fail("key=dgram-parse unparsable response"); return };
            if oracle_on {
                match win {
                    None => {
                        if res != "err PROTOCOL_VIOLATION unexpected_DATAGRAM_frame" {
                            r.oracle_fail(&format!("key=dgram-unexpected datagram accepted although disabled: {res}"));
                        }
                    }
                    Some(w) if len > w => {
                        if res != "err PROTOCOL_VIOLATION oversized_datagram" {
                            r.oracle_fail(&format!("key=dgram-oversized oversized datagram not rejected: {res}"));
                        }
                    }
                    // RFC 9221 section 3: "An endpoint that receives a DATAGRAM frame that is larger than the value it
                    // sent in its max_datagram_frame_size transport parameter MUST terminate the connection with an
                    // error of type PROTOCOL_VIOLATION"; the value sent is min(datagram_receive_buffer_size, 65535)
                    // (transport_parameters.rs) and covers the type byte too: the SMALLEST frame that can carry
                    // `len` payload bytes (no length field) has len + 1 bytes (audit SD-17)
                    Some(w) if len + 1 > w.min(65535) => {
                        if !res.starts_with("err PROTOCOL_VIOLATION") {
                            r.oracle_fail(&format!("key=dgram-oversized-vs-advertised a DATAGRAM frame of at least {} bytes accepted although max_datagram_frame_size = {} was advertised (receive buffer {w}): {res}", len + 1, w.min(65535)));
                        }
                        // the datagram was buffered (or dropped): keep the FIFO shadow in step
                        shadow_in = now.inc.iter().copied().collect();
                    }
                    Some(w) => {
                        // The property (C16 "may be dropped ... when a buffer overflows the oldest are dropped
                        // first", C06 "never exceeds the configured receive windows", C03 "grow memory without
                        // bound") leaves the accounting of the buffer to the implementation; it demands:
                        //  (a) the queue afterwards is (a suffix of the old queue) ++ [d]: only the OLDEST go,
                        //      nothing is reordered, duplicated or invented, the new datagram is intact;
                        //  (b) the payload bytes buffered stay within the window;
                        //  (c) the NUMBER of buffered datagrams is bounded by the configuration (an entry costs
                        //      memory also when it is empty): at most w entries, recv_buffered <= w (audit SD-9);
                        //  (d) nothing is dropped unless the buffer is full: with one datagram more kept, bytes
                        //      plus entries would exceed the window (any charge of at most len + 1 per entry
                        //      is a legitimate accounting; the exact rule is compared with the model, T2);
                        //  (e) the first datagram into an empty queue reports was_empty (else no wake-up).
                        let old: Vec<D> = shadow_in.iter().copied().collect();
                        let k = (old.len() + 1).saturating_sub(now.inc.len());
                        if w == 0 && now.inc == old {
                            // a zero-sized buffer holds nothing: the (empty) datagram is dropped, which the property
                            // allows ("datagrams may be dropped"); it must not be reported as buffered first
                            if res != "ok false" {
                                r.oracle_fail(&format!("key=dgram-received-result received {len} window 0 not buffered -> {res}"));
                            }
                        } else if now.inc.last() != Some(&d) || k > old.len() || now.inc[..now.inc.len() - 1] != old[k..] {
                            r.oracle_fail(&format!("key=dgram-recv-fifo receive queue after received {len} (window {w}) is not (suffix of the old queue) ++ [d]"));
                        } else {
                            if k > 0 {
                                evicted = true;
                                let kept_one_more: u64 = sum(&old[k - 1..]) + len + (old.len() - (k - 1)) as u64 + 1;
                                if kept_one_more <= w {
                                    r.oracle_fail(&format!("key=dgram-recv-drop-minimal received {len} window {w}: {k} datagram(s) dropped although the buffer was not full"));
                                }
                            }
                            shadow_in = now.inc.iter().copied().collect();
                        }
                        if !res.starts_with("ok ") || (old.is_empty() && !now.inc.is_empty() && res != "ok true") {
                            r.oracle_fail(&format!("key=dgram-received-result received {len} window {w} queue {} -> {res}", old.len()));
                        }
                        // the bounds are claimed for what a call BUFFERS under its window (the generator also changes
                        // the window mid-run, which a connection cannot)
                        let buffered_now = !(w == 0 && now.inc == old);
                        if buffered_now && sum(&now.inc) > w {
                            r.oracle_fail("key=dgram-recv-window buffered bytes exceed the receive window");
                        }
                        if buffered_now && (now.inc.len() as u64 > w || now.buffered > w) {
                            r.oracle_fail(&format!("key=dgram-incoming-count-unbounded {} datagrams queued for the application with a receive buffer of {w} bytes (zero-length DATAGRAM frames are never evicted)", now.inc.len()));
                        }
                    }
                }
                if now.inc.iter().copied().collect::<VecDeque<D>>() != shadow_in {
                    r.oracle_fail("key=dgram-recv-fifo receive queue is not the FIFO of accepted datagrams minus the oldest");
                }
            }
            obs = now;
        } else if choice < 86 {
            // ---------------------------------------------------------------- recv
            resp = r.op("dgram recv");
            if resp == "panic" {
                if oracle_on { r.oracle_fail("key=dgram-recv-panic recv panicked from a consistent state"); }
                return;
            }
            let Some((res, now)) = parse(&resp) else { r.oracle_fail("key=dgram-parse unparsable response"); return };
            if oracle_on {
                let expect = match shadow_in.pop_front() {
                    None => "none".to_string(),
                    Some(d) => format!("ok {}:{}", d.0, d.1),
                };
                if res != expect {
                    r.oracle_fail(&format!("key=dgram-recv-fifo recv returned {res}, FIFO says {expect}"));
                }
            }
            obs = now;
        } else if choice < 88 && mtu >= 1200 {
            // ---------------------------------------------------------------- poll_transmit: purge of unsendable heads
            // C16 / audit SD-13: a datagram that send() accepted is transmitted or dropped once the connection can
            // send; the maximum may have shrunk since (re-env above).  Property: after the purge that precedes every
            // transmission the head of the queue fits the current maximum; only datagrams that do NOT fit any more
            // were dropped, from the front; a blocked sender is told DatagramsUnblocked when something was dropped
            let max = query_max(r);
            let before = obs.clone();
            resp = r.op("dgram ptx");
            if resp == "panic" {
                if oracle_on && max.is_ok() { r.oracle_fail("key=dgram-ptx-panic poll_transmit panicked from a consistent state"); }
                return;
            }
            let Some((res, now)) = parse(&resp) else { r.oracle_fail("key=dgram-parse unparsable response"); return };
            if oracle_on {
                match max {
                    Ok(Some(m)) => {
                        let k = before.out.len() - now.out.len().min(before.out.len());
                        if now.out[..] != before.out[k..] {
                            r.oracle_fail("key=dgram-purge-not-a-prefix poll_transmit changed the send queue other than by dropping a prefix");
                        } else if before.out[..k].iter().any(|d| d.0 <= m) {
                            r.oracle_fail(&format!("key=dgram-purge-dropped-fitting poll_transmit dropped a queued datagram that still fits max_size() = {m}"));
                        }
                        if let Some(h) = now.out.first() {
                            if h.0 > m {
                                r.oracle_fail(&format!("key=dgram-accepted-but-unsendable a {}-byte datagram stays at the head of the send queue after poll_transmit although max_size() = {m}: it fits no packet and blocks the queue", h.0));
                            }
                        }
                        if now.total != sum(&now.out) {
                            r.oracle_fail("key=dgram-total-eq-sum outgoing_total != sum of queued lengths");
                        }
                        let expect_unblocked = k > 0 && before.blocked;
                        if (res == "ok 1") != expect_unblocked || now.blocked != (before.blocked && k == 0) {
                            r.oracle_fail(&format!("key=dgram-unblock poll_transmit purge: {res}, blocked {} -> {}, dropped {k}", before.blocked, now.blocked));
                        }
                    }
                    _ => {
                        if now.out != before.out {
                            r.oracle_fail("key=dgram-purge-not-a-prefix poll_transmit changed the send queue although datagrams are unsupported by the peer");
                        }
                    }
                }
            }
            obs = now;
        } else if choice < 90 {
            resp = r.op("dgram space");
            if let Some((res, now)) = parse(&resp) {
                if oracle_on && res != format!("ok {}", send_buf.saturating_sub(now.total)) {
                    r.oracle_fail(&format!("key=dgram-space send_buffer_space {res} but buffer {send_buf} total {}", now.total));
                }
                obs = now;
            }
        } else if choice < 93 {
            let l = pick_len(rng, &[send_buf.saturating_sub(obs.total)]);
            let s = if rng.chance(3, 4) { send_buf } else { rng.biased() };
            resp = r.op(&format!("dgram hasspace {l} {s}"));
            if let Some((res, now)) = parse(&resp) {
                if oracle_on && (res == "true") != (now.total + l <= s) {
                    r.oracle_fail("key=dgram-hasspace has_send_buffer_space disagrees with total + len <= size");
                }
                obs = now;
            }
        } else if choice < 96 {
            // MTU change: increase, or black-hole fallback followed by the glue
            let fallback = rng.chance(1, 2);
            let new_mtu = if regime >= 9 { rng.below(100) } else if fallback { 1200 } else { mtu + rng.below(300) };
            if rng.chance(1, 4) {
                peer = Some(rng.below(if regime < 6 { 80 } else { 2000 }));
            }
            mtu = new_mtu.min(65535);
            r.op(&format!("dgram env {mtu} {cid} {}", fmt_opt(peer)));
            let before = obs.clone();
            let max = query_max(r);
            resp = r.op("dgram bhglue");
            if resp == "panic" {
                if oracle_on && max.is_ok() { r.oracle_fail("key=dgram-bhglue-panic black-hole glue panicked from a consistent state"); }
                return;
            }
            let Some((res, now)) = parse(&resp) else { r.oracle_fail("key=dgram-parse unparsable response"); return };
            if oracle_on {
                if let Ok(Some(m)) = max {
                    // survivors: in order, exactly the datagrams shorter than the new maximum
                    let keep: Vec<D> = before.out.iter().copied().filter(|d| d.0 < m).collect();
                    if now.out != keep || now.total != sum(&keep) {
                        r.oracle_fail("key=dgram-drop-oversized survivors of drop_oversized are not the in-order sub-queue");
                    }
                    let dropped = keep.len() != before.out.len();
                    if res != format!("ok {dropped} {}", dropped && before.blocked) {
                        r.oracle_fail(&format!("key=dgram-bhglue glue result {res}"));
                    }
                }
            }
            obs = now;
        } else if choice < 98 {
            let m = pick_len(rng, &obs.out.iter().map(|d| d.0).collect::<Vec<_>>());
            let before = obs.clone();
            resp = r.op(&format!("dgram ovs {m}"));
            if resp == "panic" {
                if oracle_on { r.oracle_fail("key=dgram-ovs-panic drop_oversized panicked from a consistent state"); }
                return;
            }
            let Some((_, now)) = parse(&resp) else { return };
            if oracle_on {
                let keep: Vec<D> = before.out.iter().copied().filter(|d| d.0 < m).collect();
                if now.out != keep || now.total != sum(&keep) {
                    r.oracle_fail("key=dgram-drop-oversized survivors of drop_oversized are not the in-order sub-queue");
                }
            }
            obs = now;
        } else {
            // reconfigure buffers mid-connection (the methods take the sizes per call)
            if rng.chance(1, 2) {
                send_buf = if regime < 6 || regime >= 9 { rng.below(64) } else { rng.range(1000, 6000) };
            } else {
                recv_win = if rng.chance(1, 6) { None } else if regime < 6 || regime >= 9 { Some(rng.below(64)) } else { Some(rng.range(1000, 6000)) };
            }
            resp = r.op(&format!("dgram cfg {} {send_buf}", fmt_opt(recv_win)));
            if let Some((_, now)) = parse(&resp) {
                obs = now;
            }
        }
        if resp == "panic" {
            return;
        }
        if oracle_on && obs.total != sum(&obs.out) {
            r.oracle_fail("key=dgram-total-eq-sum outgoing_total != sum of queued lengths");
        }
        if evicted && wrote && blocked {
            r.nontrivial();
        }
    }
}
