//! Scenario families run by `bin/sim`: each takes a seed, runs one simulated execution and records
//! oracle failures (the property applied to the real implementation's behaviour).
use std::collections::BTreeMap;
use std::sync::Arc;
use std::time::Duration;

use quinn_proto::{congestion, IdleTimeout, MtuDiscoveryConfig, TransportConfig, VarInt};

use crate::sim::*;
use crate::workload::*;
use crate::Rng;

#[derive(Default)]
pub struct Outcome {
    pub runs: u64,
    pub evaluations: u64,
    pub nontrivial: u64,
    pub hist: BTreeMap<String, u64>,
    pub samples: Vec<String>,
    pub fails: Vec<String>,
}

impl Outcome {
    pub fn merge(&mut self, o: Outcome) {
        self.runs += o.runs;
        self.evaluations += o.evaluations;
        self.nontrivial += o.nontrivial;
        for (k, v) in o.hist {
            *self.hist.entry(k).or_default() += v;
        }
        if self.samples.len() < 4 {
            self.samples.extend(o.samples);
        }
        self.fails.extend(o.fails);
    }
    pub fn count(&mut self, k: &str, n: u64) {
        *self.hist.entry(k.to_string()).or_default() += n;
    }
}

pub type ScenFn = fn(u64, &mut Outcome);

pub fn lookup(name: &str) -> Option<(&'static str, ScenFn)> {
    Some(match name {
        "xfer" => (XFER_RULE, xfer as ScenFn),
        _ => return None,
    })
}

/// Random transport configuration (both peers get independent ones).
pub fn random_transport(rng: &mut Rng) -> (TransportConfig, [u32; 2]) {
    let mut t = TransportConfig::default();
    match rng.below(4) {
        0 => {
            t.receive_window(VarInt::from_u32(*rng.pick(&[1000u32, 5000, 20000])));
            t.stream_receive_window(VarInt::from_u32(*rng.pick(&[500u32, 3000, 20000])));
        }
        1 => {
            t.send_window(*rng.pick(&[1500u64, 8000, 100_000]));
        }
        _ => {}
    }
    let lim = [*rng.pick(&[0u32, 1, 2, 100]), *rng.pick(&[0u32, 1, 3, 100])];
    t.max_concurrent_bidi_streams(VarInt::from_u32(lim[0]));
    t.max_concurrent_uni_streams(VarInt::from_u32(lim[1]));
    match rng.below(4) {
        0 => {
            t.congestion_controller_factory(Arc::new(congestion::NewRenoConfig::default()));
        }
        1 => {
            t.congestion_controller_factory(Arc::new(congestion::BbrConfig::default()));
        }
        _ => {}
    }
    match rng.below(4) {
        0 => {
            t.mtu_discovery_config(None);
        }
        1 => {
            let mut m = MtuDiscoveryConfig::default();
            m.upper_bound(*rng.pick(&[1300u16, 1452, 2000, 9000]));
            t.mtu_discovery_config(Some(m));
        }
        _ => {}
    }
    if rng.chance(1, 4) {
        t.initial_mtu(*rng.pick(&[1200u16, 1300, 1400]));
    }
    if rng.chance(1, 4) {
        t.keep_alive_interval(Some(Duration::from_millis(*rng.pick(&[200u64, 3000]))));
    }
    if rng.chance(1, 5) {
        t.max_idle_timeout(Some(IdleTimeout::try_from(Duration::from_secs(*rng.pick(&[20u64, 60]))).unwrap()));
    }
    if rng.chance(1, 4) {
        t.datagram_receive_buffer_size(Some(*rng.pick(&[0usize, 2000, 100_000])));
        t.datagram_send_buffer_size(*rng.pick(&[1500usize, 20_000]));
    }
    if rng.chance(1, 5) {
        t.enable_segmentation_offload(false);
    }
    (t, lim)
}

pub fn random_net(rng: &mut Rng) -> NetCfg {
    let mut n = NetCfg::default();
    n.latency_ns = *rng.pick(&[0u64, 1_000_000, 10_000_000, 80_000_000]);
    n.jitter_ns = *rng.pick(&[0u64, 0, 2_000_000, 50_000_000]);
    n.drop_permille = *rng.pick(&[0u64, 10, 50, 150, 300]);
    n.dup_permille = *rng.pick(&[0u64, 0, 20, 200]);
    n.corrupt_permille = *rng.pick(&[0u64, 0, 10, 40]);
    n.truncate_permille = *rng.pick(&[0u64, 0, 10]);
    n.replay_permille = *rng.pick(&[0u64, 0, 20, 100]);
    n.path_mtu = *rng.pick(&[1200usize, 1280, 1452, 1452, 1500, 4000, 65000]);
    n.ce = rng.chance(1, 10);
    n
}

pub const XFER_RULE: &str = "one execution = random transport configs for both peers (windows, stream limits 0/1/.., controllers NewReno/Cubic/BBR, MTU discovery on/off/bounds, keep-alive, GSO), random network (latency/jitter/loss<=30% with at most 3 consecutive drops per direction/duplication/corruption/truncation/replay/path MTU/CE), event-driven workloads on both sides (streams bi/uni of 0..200KB in chunks 1..70000, ordered and unordered reads with random max_length, datagrams), driver with optional spurious calls and late timers; oracles: C01 content/prefix/disjointness/fin, C02 completion (no wedge), C04 frames processed <= frames sent, C07 amplification, C12 in-flight returns to zero, C13 datagram sizes, C08 event uniqueness; non-trivial = handshake completed, >= 1 fault injected and >= 1 KB transferred";

pub fn xfer(seed: u64, out: &mut Outcome) {
    let mut rng = Rng::new(seed ^ 0x51ab);
    let (tc, lim_c) = random_transport(&mut rng);
    let (ts, lim_s) = random_transport(&mut rng);
    let (mut sim, ccfg) = default_pair(seed, tc, ts);
    sim.net = random_net(&mut rng);
    // `initial_mtu` above the real path MTU is a documented misconfiguration, not a supported configuration
    sim.net.path_mtu = sim.net.path_mtu.max(1400);
    sim.nodes[CLIENT].max_datagrams = rng.range(1, 10) as usize;
    sim.nodes[SERVER].max_datagrams = rng.range(1, 10) as usize;
    if rng.chance(1, 3) {
        sim.drv.spurious_permille = *rng.pick(&[50u64, 300]);
    }
    if rng.chance(1, 4) {
        sim.drv.late_ns = *rng.pick(&[100_000u64, 5_000_000]);
    }
    if rng.chance(1, 5) {
        sim.nodes[SERVER].policy = IncomingPolicy::Retry;
    }
    let mut w = Workload::new(seed);
    let nplans_c = rng.below(5) as usize;
    let nplans_s = rng.below(3) as usize;
    w.sides[CLIENT].plans = Workload::random_plans(&mut rng, nplans_c, 200_000);
    w.sides[SERVER].plans = Workload::random_plans(&mut rng, nplans_s, 60_000);
    // a peer limit of 0 streams in a direction makes such a plan impossible (not a wedge): drop those plans
    let di = |d: quinn_proto::Dir| if d == quinn_proto::Dir::Bi { 0 } else { 1 };
    w.sides[CLIENT].plans.retain(|p| lim_s[di(p.dir)] > 0);
    w.sides[SERVER].plans.retain(|p| lim_c[di(p.dir)] > 0);
    for s in 0..2 {
        w.sides[s].unordered_permille = *rng.pick(&[0u64, 300, 1000]);
        if rng.chance(1, 3) {
            let n = rng.below(6);
            for _ in 0..n {
                let len = rng.below(900) as usize;
                w.sides[s].dgrams_to_send.push(rng.bytes(len));
            }
        }
    }
    // stream limits of 0 on the peer make a plan impossible: drop plans the peer will never allow
    let cch = sim.connect(ccfg);
    w.ch[CLIENT] = Some(cch);
    let mut key_updates = rng.below(3);
    let mut checks = 0u64;
    let end = sim.run_until(900_000_000_000, 400_000, |sim| {
        if w.ch[SERVER].is_none() {
            if let Some(&ch) = sim.nodes[SERVER].accepted.first() {
                w.ch[SERVER] = Some(ch);
            }
        }
        w.tick(sim);
        if let (Some(c), Some(s)) = (w.ch[CLIENT], w.ch[SERVER]) {
            if sim.steps % 16 == 0 {
                sim.check_frame_counts(c, s);
                checks += 1;
            }
            if key_updates > 0 && sim.steps % 97 == 0 && sim.nodes[CLIENT].conns[&c].obs.confirmed {
                let side = (sim.steps / 97 % 2) as usize;
                let ch = if side == CLIENT { c } else { s };
                if !sim.conn(side, ch).is_closed() && !sim.conn(side, ch).is_handshaking() {
                    sim.conn(side, ch).force_key_update();
                    key_updates -= 1;
                }
            }
        }
        w.complete() && w.ch[SERVER].is_some()
    });
    let connected = sim.nodes[CLIENT].conns[&cch].obs.connected;
    let mut require_complete = connected;
    if w.ch[SERVER].is_none() {
        require_complete = false;
        if end != RunEnd::Done {
            sim.fail("handshake-never-completed", format!("run ended {end:?} without the server accepting a connection"));
        }
    }
    let lost_c = sim.nodes[CLIENT].conns[&cch].obs.lost.clone();
    if !lost_c.is_empty() {
        sim.fail("connection-lost-under-fair-loss", format!("client lost the connection: {lost_c:?}"));
        require_complete = false;
    }
    w.final_check(&mut sim, require_complete);
    if end == RunEnd::Done {
        // let acknowledgements settle on a clean network, then C12: nothing in flight
        sim.net.drop_permille = 0;
        sim.net.corrupt_permille = 0;
        sim.net.truncate_permille = 0;
        let t_end = sim.now + 20_000_000_000;
        let _ = sim.run_until(t_end, 100_000, |sim| {
            w.tick(sim);
            false
        });
        if let Some(sch) = w.ch[SERVER] {
            for (node, ch) in [(CLIENT, cch), (SERVER, sch)] {
                let sn = sim.snap(node, ch);
                if sn.state == "established" && sn.path.in_flight_bytes != 0 && !sn.spaces[2].sent_in_flight {
                    sim.fail("in-flight-nonzero-with-nothing-outstanding", format!("node {node}: in_flight.bytes = {} but no sent packet is outstanding", sn.path.in_flight_bytes));
                }
            }
            sim.check_frame_counts(cch, sch);
        }
    }
    // C08 event uniqueness on whatever happened
    for node in 0..2 {
        for (ch, nc) in &sim.nodes[node].conns {
            if nc.obs.lost.len() > 1 {
                out.fails.push(format!("key=connection-lost-reported-twice seed={seed} node {node} conn {ch}: {:?}", nc.obs.lost));
            }
            if nc.obs.drained_events > 1 {
                out.fails.push(format!("key=drained-notified-twice seed={seed} node {node} conn {ch}"));
            }
        }
    }
    out.runs += 1;
    out.evaluations += sim.steps;
    let faults: u64 = sim.faults.values().sum();
    let bytes: u64 = w.sides.iter().map(|s| s.recv.values().map(|r| r.bytes).sum::<u64>()).sum();
    if connected && faults > 0 && bytes >= 1000 {
        out.nontrivial += 1;
    }
    out.count(&format!("end:{end:?}"), 1);
    out.count("datagrams-delivered", sim.delivered[0] + sim.delivered[1]);
    out.count("frame-count-checks", checks);
    out.count("stream-bytes-read", bytes);
    for (k, v) in &sim.faults {
        out.count(&format!("fault:{k}"), *v);
    }
    if out.samples.len() < 2 {
        out.samples.push(format!(
            "seed {seed}: net {:?}; plans c={:?} s={:?}; end {end:?} at t={}ms after {} steps; delivered {:?}; faults {:?}",
            sim.net,
            w.sides[CLIENT].plans.iter().map(|p| (p.len, p.chunk)).collect::<Vec<_>>(),
            w.sides[SERVER].plans.iter().map(|p| (p.len, p.chunk)).collect::<Vec<_>>(),
            sim.now / 1_000_000,
            sim.steps,
            sim.delivered,
            sim.faults
        ));
    }
    if std::env::var("VERIF_SIM_VERBOSE").is_ok() {
        eprintln!("--- seed {seed}: end {end:?} net {:?}", sim.net);
        for node in 0..2 { eprintln!("app node {node}: plans {:?} send {:?} recv {:?}", w.sides[node].plans, w.sides[node].send, w.sides[node].recv); }
        let all = std::env::var("VERIF_SIM_VERBOSE").map_or(false, |v| v == "2");
        for r in sim.trace.iter().filter(|r| all || matches!(r, Rec::Ev { .. } | Rec::EpEv { .. } | Rec::EpTx { .. })) {
            eprintln!("{r:?}");
        }
        for node in 0..2 {
            for (ch, nc) in &sim.nodes[node].conns {
                eprintln!("node {node} conn {ch}: obs lost {:?} drained {} stats {:?}", nc.obs.lost, nc.obs.drained_events, nc.conn.stats().path);
                eprintln!("   snapshot {:?}", nc.conn.verif_snapshot());
            }
        }
    }
    for f in sim.fails.drain(..) {
        out.fails.push(format!("{f} seed={seed}"));
    }
}
