//! Scenario families run by `bin/sim`: each takes a seed, runs one simulated execution and records
//! oracle failures (the property applied to the real implementation's behaviour).
use std::collections::BTreeMap;
use std::sync::Arc;
use std::time::Duration;

use quinn_proto::{congestion, IdleTimeout, MtuDiscoveryConfig, TransportConfig, VarInt};

use crate::sim::*;
use crate::workload::*;
use crate::Rng;

#[derive(Default)]
pub struct Outcome {
    pub runs: u64,
    pub evaluations: u64,
    pub nontrivial: u64,
    pub hist: BTreeMap<String, u64>,
    pub samples: Vec<String>,
    pub fails: Vec<String>,
    /// model-validation trace: request lines for the Lean driver and the implementation's answers
    pub model_ops: Vec<String>,
    pub model_impl: Vec<String>,
}

impl Outcome {
    pub fn merge(&mut self, o: Outcome) {
        self.runs += o.runs;
        self.evaluations += o.evaluations;
        self.nontrivial += o.nontrivial;
        for (k, v) in o.hist {
            *self.hist.entry(k).or_default() += v;
        }
        if self.samples.len() < 4 {
            self.samples.extend(o.samples);
        }
        self.fails.extend(o.fails);
        if self.model_ops.len() < 300_000 {
            self.model_ops.extend(o.model_ops);
            self.model_impl.extend(o.model_impl);
        }
    }
    pub fn take_trace(&mut self, seed: u64, sim: &mut Sim) {
        if !sim.model_ops.is_empty() {
            self.model_ops.push(format!("case sim-{seed}"));
            self.model_impl.push(format!("case sim-{seed}"));
            self.model_ops.append(&mut sim.model_ops);
            self.model_impl.append(&mut sim.model_impl);
        }
    }
    pub fn count(&mut self, k: &str, n: u64) {
        *self.hist.entry(k.to_string()).or_default() += n;
    }
}

pub type ScenFn = fn(u64, &mut Outcome);

pub fn lookup(name: &str) -> Option<(&'static str, ScenFn)> {
    Some(match name {
        "xfer" => (XFER_RULE, xfer as ScenFn),
        "amp" => (AMP_RULE, amp as ScenFn),
        _ => return None,
    })
}

/// Random transport configuration (both peers get independent ones).
pub fn random_transport(rng: &mut Rng) -> (TransportConfig, [u32; 2]) {
    let mut t = TransportConfig::default();
    match rng.below(4) {
        0 => {
            t.receive_window(VarInt::from_u32(*rng.pick(&[1000u32, 5000, 20000])));
            t.stream_receive_window(VarInt::from_u32(*rng.pick(&[500u32, 3000, 20000])));
        }
        1 => {
            t.send_window(*rng.pick(&[1500u64, 8000, 100_000]));
        }
        _ => {}
    }
    let lim = [*rng.pick(&[0u32, 1, 2, 100]), *rng.pick(&[0u32, 1, 3, 100])];
    t.max_concurrent_bidi_streams(VarInt::from_u32(lim[0]));
    t.max_concurrent_uni_streams(VarInt::from_u32(lim[1]));
    match rng.below(4) {
        0 => {
            t.congestion_controller_factory(Arc::new(congestion::NewRenoConfig::default()));
        }
        1 => {
            t.congestion_controller_factory(Arc::new(congestion::BbrConfig::default()));
        }
        _ => {}
    }
    match rng.below(4) {
        0 => {
            t.mtu_discovery_config(None);
        }
        1 => {
            let mut m = MtuDiscoveryConfig::default();
            m.upper_bound(*rng.pick(&[1300u16, 1452, 2000, 9000]));
            t.mtu_discovery_config(Some(m));
        }
        _ => {}
    }
    if rng.chance(1, 4) {
        t.initial_mtu(*rng.pick(&[1200u16, 1300, 1400]));
    }
    if rng.chance(1, 4) {
        t.keep_alive_interval(Some(Duration::from_millis(*rng.pick(&[200u64, 3000]))));
    }
    if rng.chance(1, 5) {
        t.max_idle_timeout(Some(IdleTimeout::try_from(Duration::from_secs(*rng.pick(&[20u64, 60]))).unwrap()));
    }
    if rng.chance(1, 4) {
        t.datagram_receive_buffer_size(Some(*rng.pick(&[0usize, 2000, 100_000])));
        t.datagram_send_buffer_size(*rng.pick(&[1500usize, 20_000]));
    }
    if rng.chance(1, 5) {
        t.enable_segmentation_offload(false);
    }
    (t, lim)
}

pub fn random_net(rng: &mut Rng) -> NetCfg {
    let mut n = NetCfg::default();
    n.latency_ns = *rng.pick(&[0u64, 1_000_000, 10_000_000, 80_000_000]);
    n.jitter_ns = *rng.pick(&[0u64, 0, 2_000_000, 50_000_000]);
    n.drop_permille = *rng.pick(&[0u64, 10, 50, 150, 300]);
    n.dup_permille = *rng.pick(&[0u64, 0, 20, 200]);
    n.corrupt_permille = *rng.pick(&[0u64, 0, 10, 40]);
    n.truncate_permille = *rng.pick(&[0u64, 0, 10]);
    n.replay_permille = *rng.pick(&[0u64, 0, 20, 100]);
    n.path_mtu = *rng.pick(&[1200usize, 1280, 1452, 1452, 1500, 4000, 65000]);
    n.ce = rng.chance(1, 10);
    n
}

pub const XFER_RULE: &str = "one execution = random transport configs for both peers (windows, stream limits 0/1/.., controllers NewReno/Cubic/BBR, MTU discovery on/off/bounds, keep-alive, GSO), random network (latency/jitter/loss<=30% with at most 3 consecutive drops per direction/duplication/corruption/truncation/replay/path MTU/CE), event-driven workloads on both sides (streams bi/uni of 0..200KB in chunks 1..70000, ordered and unordered reads with random max_length, datagrams), driver with optional spurious calls and late timers; oracles: C01 content/prefix/disjointness/fin, C02 completion (no wedge), C04 frames processed <= frames sent, C07 amplification, C12 in-flight returns to zero, C13 datagram sizes, C08 event uniqueness; non-trivial = handshake completed, >= 1 fault injected and >= 1 KB transferred";

pub fn xfer(seed: u64, out: &mut Outcome) {
    let mut rng = Rng::new(seed ^ 0x51ab);
    let (tc, lim_c) = random_transport(&mut rng);
    let (ts, lim_s) = random_transport(&mut rng);
    let (mut sim, ccfg) = default_pair(seed, tc, ts);
    sim.net = random_net(&mut rng);
    // `initial_mtu` above the real path MTU is a documented misconfiguration, not a supported configuration
    sim.net.path_mtu = sim.net.path_mtu.max(1400);
    sim.model_trace = true;
    sim.nodes[CLIENT].max_datagrams = rng.range(1, 10) as usize;
    sim.nodes[SERVER].max_datagrams = rng.range(1, 10) as usize;
    if rng.chance(1, 3) {
        sim.drv.spurious_permille = *rng.pick(&[50u64, 300]);
    }
    if rng.chance(1, 4) {
        sim.drv.late_ns = *rng.pick(&[100_000u64, 5_000_000]);
    }
    if rng.chance(1, 5) {
        sim.nodes[SERVER].policy = IncomingPolicy::Retry;
    }
    let mut w = Workload::new(seed);
    let nplans_c = rng.below(5) as usize;
    let nplans_s = rng.below(3) as usize;
    w.sides[CLIENT].plans = Workload::random_plans(&mut rng, nplans_c, 200_000);
    w.sides[SERVER].plans = Workload::random_plans(&mut rng, nplans_s, 60_000);
    // a peer limit of 0 streams in a direction makes such a plan impossible (not a wedge): drop those plans
    let di = |d: quinn_proto::Dir| if d == quinn_proto::Dir::Bi { 0 } else { 1 };
    w.sides[CLIENT].plans.retain(|p| lim_s[di(p.dir)] > 0);
    w.sides[SERVER].plans.retain(|p| lim_c[di(p.dir)] > 0);
    for s in 0..2 {
        w.sides[s].unordered_permille = *rng.pick(&[0u64, 300, 1000]);
        if rng.chance(1, 3) {
            let n = rng.below(6);
            for _ in 0..n {
                let len = rng.below(900) as usize;
                w.sides[s].dgrams_to_send.push(rng.bytes(len));
            }
        }
    }
    // stream limits of 0 on the peer make a plan impossible: drop plans the peer will never allow
    let cch = sim.connect(ccfg);
    w.ch[CLIENT] = Some(cch);
    let mut key_updates = rng.below(3);
    let mut checks = 0u64;
    let end = sim.run_until(900_000_000_000, 400_000, |sim| {
        if w.ch[SERVER].is_none() {
            if let Some(&ch) = sim.nodes[SERVER].accepted.first() {
                w.ch[SERVER] = Some(ch);
            }
        }
        w.tick(sim);
        if let (Some(c), Some(s)) = (w.ch[CLIENT], w.ch[SERVER]) {
            if sim.steps % 16 == 0 {
                sim.check_frame_counts(c, s);
                checks += 1;
            }
            if key_updates > 0 && sim.steps % 97 == 0 && sim.nodes[CLIENT].conns[&c].obs.confirmed {
                let side = (sim.steps / 97 % 2) as usize;
                let ch = if side == CLIENT { c } else { s };
                if !sim.conn(side, ch).is_closed() && !sim.conn(side, ch).is_handshaking() {
                    sim.conn(side, ch).force_key_update();
                    key_updates -= 1;
                }
            }
        }
        w.complete() && w.ch[SERVER].is_some()
    });
    let connected = sim.nodes[CLIENT].conns[&cch].obs.connected;
    let mut require_complete = connected;
    if w.ch[SERVER].is_none() {
        require_complete = false;
        if end != RunEnd::Done {
            sim.fail("handshake-never-completed", format!("run ended {end:?} without the server accepting a connection"));
        }
    }
    let lost_c = sim.nodes[CLIENT].conns[&cch].obs.lost.clone();
    if !lost_c.is_empty() {
        sim.fail("connection-lost-under-fair-loss", format!("client lost the connection: {lost_c:?}"));
        require_complete = false;
    }
    w.final_check(&mut sim, require_complete);
    if end == RunEnd::Done {
        // let acknowledgements settle on a clean network, then C12: nothing in flight
        sim.net.drop_permille = 0;
        sim.net.corrupt_permille = 0;
        sim.net.truncate_permille = 0;
        let t_end = sim.now + 20_000_000_000;
        let _ = sim.run_until(t_end, 100_000, |sim| {
            w.tick(sim);
            false
        });
        if let Some(sch) = w.ch[SERVER] {
            for (node, ch) in [(CLIENT, cch), (SERVER, sch)] {
                let sn = sim.snap(node, ch);
                if sn.state == "established" && sn.path.in_flight_bytes != 0 && !sn.spaces[2].sent_in_flight {
                    sim.fail("in-flight-nonzero-with-nothing-outstanding", format!("node {node}: in_flight.bytes = {} but no sent packet is outstanding", sn.path.in_flight_bytes));
                }
            }
            sim.check_frame_counts(cch, sch);
        }
    }
    // C08 event uniqueness on whatever happened
    for node in 0..2 {
        for (ch, nc) in &sim.nodes[node].conns {
            if nc.obs.lost.len() > 1 {
                out.fails.push(format!("key=connection-lost-reported-twice seed={seed} node {node} conn {ch}: {:?}", nc.obs.lost));
            }
            if nc.obs.drained_events > 1 {
                out.fails.push(format!("key=drained-notified-twice seed={seed} node {node} conn {ch}"));
            }
        }
    }
    out.runs += 1;
    out.evaluations += sim.steps;
    let faults: u64 = sim.faults.values().sum();
    let bytes: u64 = w.sides.iter().map(|s| s.recv.values().map(|r| r.bytes).sum::<u64>()).sum();
    if connected && faults > 0 && bytes >= 1000 {
        out.nontrivial += 1;
    }
    out.count(&format!("end:{end:?}"), 1);
    out.count("datagrams-delivered", sim.delivered[0] + sim.delivered[1]);
    out.count("frame-count-checks", checks);
    out.count("stream-bytes-read", bytes);
    for (k, v) in &sim.faults {
        out.count(&format!("fault:{k}"), *v);
    }
    if out.samples.len() < 2 {
        out.samples.push(format!(
            "seed {seed}: net {:?}; plans c={:?} s={:?}; end {end:?} at t={}ms after {} steps; delivered {:?}; faults {:?}",
            sim.net,
            w.sides[CLIENT].plans.iter().map(|p| (p.len, p.chunk)).collect::<Vec<_>>(),
            w.sides[SERVER].plans.iter().map(|p| (p.len, p.chunk)).collect::<Vec<_>>(),
            sim.now / 1_000_000,
            sim.steps,
            sim.delivered,
            sim.faults
        ));
    }
    if std::env::var("VERIF_SIM_VERBOSE").is_ok() {
        eprintln!("--- seed {seed}: end {end:?} net {:?}", sim.net);
        for node in 0..2 { eprintln!("app node {node}: plans {:?} send {:?} recv {:?}", w.sides[node].plans, w.sides[node].send, w.sides[node].recv); }
        let all = std::env::var("VERIF_SIM_VERBOSE").map_or(false, |v| v == "2");
        for r in sim.trace.iter().filter(|r| all || matches!(r, Rec::Ev { .. } | Rec::EpEv { .. } | Rec::EpTx { .. })) {
            eprintln!("{r:?}");
        }
        for node in 0..2 {
            for (ch, nc) in &sim.nodes[node].conns {
                eprintln!("node {node} conn {ch}: obs lost {:?} drained {} stats {:?}", nc.obs.lost, nc.obs.drained_events, nc.conn.stats().path);
                eprintln!("   snapshot {:?}", nc.conn.verif_snapshot());
            }
        }
    }
    for f in sim.fails.drain(..) {
        out.fails.push(format!("{f} seed={seed}"));
    }
    out.take_trace(seed, &mut sim);
}

pub const AMP_RULE: &str = "one execution = a server (random transport config, Retry on/off) facing: a genuine client whose datagrams stop arriving after its first K in {1..4} (so only server timers fire), 0..3 further clients at spoofed addresses that send one genuine Initial flight and vanish, replays of genuine client datagrams from spoofed addresses, and short-header garbage of 17..1400 bytes at random instants; 40 s of virtual time; oracles: per-datagram anti-amplification gate towards every unvalidated address (bytes received from that address counted by the simulator), stateless reset strictly smaller than the inciting datagram and at most one per min_reset_interval, every observed path transition validated against the Lean path model; non-trivial = server created >= 1 connection and retransmitted on a timer";

pub fn amp(seed: u64, out: &mut Outcome) {
    use std::cell::Cell;
    use std::rc::Rc;
    let mut rng = Rng::new(seed ^ 0xa3b);
    let (ts, _) = random_transport(&mut rng);
    let (tc, _) = random_transport(&mut rng);
    let (mut sim, ccfg) = default_pair(seed, tc, ts);
    sim.model_trace = true;
    sim.keep_history = true;
    sim.net.latency_ns = *rng.pick(&[1_000_000u64, 20_000_000]);
    sim.net.path_mtu = 65000;
    sim.nodes[SERVER].max_datagrams = rng.range(1, 10) as usize;
    if rng.chance(1, 3) {
        sim.nodes[SERVER].policy = IncomingPolicy::Retry;
    }
    let k = rng.range(1, 4);
    let passed = Rc::new(Cell::new(0u64));
    let p2 = passed.clone();
    let client_addr = sim.nodes[CLIENT].addr;
    sim.wire_filter = Some(Box::new(move |d: &mut Dgram, _r: &mut Rng| {
        if d.from == client_addr {
            p2.set(p2.get() + 1);
            return p2.get() <= k;
        }
        true
    }));
    let _cch = sim.connect(ccfg.clone());
    // further vanishing clients at spoofed addresses: one genuine first flight each
    let extra = rng.below(4);
    let mut pending_attacks: Vec<(u64, Dgram)> = Vec::new();
    for i in 0..extra {
        let (mut s2, c2) = default_pair(seed.wrapping_add(1000 + i), TransportConfig::default(), TransportConfig::default());
        let ch = s2.connect(c2);
        let mut buf = Vec::new();
        let now = s2.t();
        if let Some(t) = s2.conn(CLIENT, ch).poll_transmit(now, 1, &mut buf) {
            let from = addr(50000 + i as u16);
            let at = rng.below(5_000_000_000);
            pending_attacks.push((at, Dgram { at: 0, seq: 0, from, to: sim.nodes[SERVER].addr, ecn: None, data: buf[..t.size].to_vec(), origin: usize::MAX, genuine: true }));
        }
    }
    let n_garbage = rng.below(30);
    for _ in 0..n_garbage {
        let len = *rng.pick(&[17usize, 20, 21, 22, 30, 41, 42, 43, 60, 100, 500, 1200, 1400]);
        let mut data = rng.bytes(len);
        data[0] = 0x40 | (data[0] & 0x3f); // short header, fixed bit set
        let from = addr(51000 + rng.below(3) as u16);
        let at = rng.below(10_000_000_000);
        pending_attacks.push((at, Dgram { at: 0, seq: 0, from, to: sim.nodes[SERVER].addr, ecn: None, data, origin: usize::MAX, genuine: false }));
    }
    let n_replay = rng.below(6);
    let mut replays_left = n_replay;
    pending_attacks.sort_by_key(|a| a.0);
    let mut resets: Vec<(u64, usize, usize)> = Vec::new();
    let mut last_ep_tx = 0usize;
    let end = sim.run_until(40_000_000_000, 200_000, |sim| {
        while let Some((at, _)) = pending_attacks.first() {
            if *at > sim.now {
                break;
            }
            let (_, mut d) = pending_attacks.remove(0);
            d.at = sim.now;
            let short = d.data[0] & 0x80 == 0;
            let len = d.data.len();
            let before_tx = sim.trace.len();
            sim.handle_datagram(SERVER, d);
            if short {
                for r in &sim.trace[before_tx..] {
                    if let Rec::EpTx { at, size, .. } = r {
                        resets.push((*at, *size, len));
                    }
                }
            }
        }
        if replays_left > 0 && sim.now > 50_000_000 && !sim.history.is_empty() && sim.steps % 7 == 0 {
            replays_left -= 1;
            let i = sim.rng.below(sim.history.len() as u64) as usize;
            let mut d = sim.history[i].clone();
            if d.origin == CLIENT {
                d.from = addr(52000 + sim.rng.below(2) as u16);
                d.at = sim.now;
                d.origin = usize::MAX;
                sim.push_wire(d);
            }
        }
        let _ = &mut last_ep_tx;
        false
    });
    // stateless reset oracles (C07)
    for w in resets.windows(2) {
        if w[1].0 < w[0].0 + 20_000_000 {
            sim.fail("stateless-reset-rate-exceeded", format!("two stateless resets {} ns apart (min_reset_interval 20 ms)", w[1].0 - w[0].0));
        }
    }
    for (at, size, inciting) in &resets {
        if size >= inciting {
            sim.fail("stateless-reset-not-smaller", format!("at {at}: reset of {size} bytes for a {inciting}-byte datagram"));
        }
    }
    out.runs += 1;
    out.evaluations += sim.steps;
    let server_conns = sim.nodes[SERVER].conns.len();
    let timeouts = sim.trace.iter().filter(|r| matches!(r, Rec::Timeout { node: 1, .. })).count();
    if server_conns >= 1 && timeouts >= 1 {
        out.nontrivial += 1;
    }
    out.count(&format!("end:{end:?}"), 1);
    out.count("server-connections", server_conns as u64);
    out.count("server-timeouts", timeouts as u64);
    out.count("stateless-resets", resets.len() as u64);
    out.count("attack-datagrams", extra + n_garbage + n_replay);
    if out.samples.len() < 2 {
        let sent: Vec<_> = sim.nodes[SERVER].sent_to.iter().map(|(a, b)| (a.port(), *b, *sim.nodes[SERVER].recv_from.get(a).unwrap_or(&0))).collect();
        out.samples.push(format!("seed {seed}: client datagrams let through {k}, extra vanishing clients {extra}, garbage {n_garbage}, replays {n_replay}; server (port, sent, received) {sent:?}; resets {resets:?}"));
    }
    if std::env::var("VERIF_SIM_VERBOSE").is_ok() {
        for r in &sim.trace {
            eprintln!("{r:?}");
        }
        for (i, (o, m)) in sim.model_ops.iter().zip(sim.model_impl.iter()).enumerate() {
            eprintln!("{i}: {o} => {m}");
        }
    }
    for f in sim.fails.drain(..) {
        out.fails.push(format!("{f} seed={seed}"));
    }
    out.take_trace(seed, &mut sim);
}
