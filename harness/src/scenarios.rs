//! Scenario families run by `bin/sim`: each takes a seed, runs one simulated execution and records
//! oracle failures (the property applied to the real implementation's behaviour).
use std::collections::BTreeMap;
use std::sync::Arc;
use std::time::Duration;

use bytes::Bytes;
use quinn_proto::{congestion, IdleTimeout, MtuDiscoveryConfig, TransportConfig, VarInt};

use crate::sim::*;
use crate::workload::*;
use crate::Rng;

#[derive(Default)]
pub struct Outcome {
    pub runs: u64,
    pub evaluations: u64,
    pub nontrivial: u64,
    pub hist: BTreeMap<String, u64>,
    pub samples: Vec<String>,
    pub fails: Vec<String>,
    /// model-validation trace: request lines for the Lean driver and the implementation's answers
    pub model_ops: Vec<String>,
    pub model_impl: Vec<String>,
}

impl Outcome {
    pub fn merge(&mut self, o: Outcome) {
        self.runs += o.runs;
        self.evaluations += o.evaluations;
        self.nontrivial += o.nontrivial;
        for (k, v) in o.hist {
            *self.hist.entry(k).or_default() += v;
        }
        if self.samples.len() < 4 {
            self.samples.extend(o.samples);
        }
        self.fails.extend(o.fails);
        if self.model_ops.len() < 300_000 {
            self.model_ops.extend(o.model_ops);
            self.model_impl.extend(o.model_impl);
        }
    }
    pub fn take_trace(&mut self, seed: u64, sim: &mut Sim) {
        // C07 evidence: how often the 3x oracle judged a datagram, how often while the connection's own flag already said
        // "validated", and which causes of validation the harness observed (crate::addrval)
        for (k, n) in [("amp-oracle:datagrams-judged", sim.av.judged), ("amp-oracle:judged-while-code-says-validated", sim.av.judged_code_validated), ("addr-validated-by:handshake-packet", sim.av.by_handshake), ("addr-validated-by:path-response", sim.av.by_response), ("addr-validated-by:token", sim.av.by_token), ("addrval-misaligned-records", sim.av.misaligned), ("addrval-handshake-packets-known-from-header-only", sim.av.by_header_bits_only)] {
            if n > 0 {
                self.count(k, n);
            }
        }
        if !sim.model_ops.is_empty() {
            self.model_ops.push(format!("case sim-{seed}"));
            self.model_impl.push(format!("case sim-{seed}"));
            self.model_ops.append(&mut sim.model_ops);
            self.model_impl.append(&mut sim.model_impl);
        }
    }
    pub fn count(&mut self, k: &str, n: u64) {
        *self.hist.entry(k.to_string()).or_default() += n;
    }
}

pub type ScenFn = fn(u64, &mut Outcome);

pub fn lookup(name: &str) -> Option<(&'static str, ScenFn)> {
    Some(match name {
        "xfer" => (XFER_RULE, xfer as ScenFn),
        "amp" => (AMP_RULE, amp as ScenFn),
        "close" => (CLOSE_RULE, close as ScenFn),
        "determ" => (DETERM_RULE, determ as ScenFn),
        "determcc" => (crate::scen_determ::DETERMCC_RULE, crate::scen_determ::determcc as ScenFn),
        "migrate" => (MIGRATE_RULE, migrate as ScenFn),
        "zrtt" => (ZRTT_RULE, zrtt as ScenFn),
        "mtu" => (MTU_RULE, mtu as ScenFn),
        "hostile" => (HOSTILE_RULE, hostile as ScenFn),
        "frames" => (crate::frames::FRAMES_RULE, frames as ScenFn),
        "gate" => (crate::scen_gate::GATE_RULE, crate::scen_gate::gate as ScenFn),
        "dgq" => (crate::scen_dgram::DGQ_RULE, crate::scen_dgram::dgq as ScenFn),
        "zrtt2" => (crate::scen_zrtt2::ZRTT2_RULE, crate::scen_zrtt2::zrtt2 as ScenFn),
        "multi" => (crate::scen_multi::MULTI_RULE, crate::scen_multi::multi as ScenFn),
        "closedinj" => (crate::scen_conn::CLOSEDINJ_RULE, crate::scen_conn::closedinj as ScenFn),
        "offpath" => (crate::scen_conn::OFFPATH_RULE, crate::scen_conn::offpath as ScenFn),
        "progress" => (crate::scen_progress::PROGRESS_RULE, crate::scen_progress::progress as ScenFn),
        "pathv" => (crate::scen_path::PATHV_RULE, crate::scen_path::pathv as ScenFn),
        "term" => (crate::scen_term::TERM_RULE, crate::scen_term::term as ScenFn),
        "tokflow" => (crate::scen_token::TOKFLOW_RULE, crate::scen_token::tokflow as ScenFn),
        "resettok" => (crate::scen_reset::RESETTOK_RULE, crate::scen_reset::resettok as ScenFn),
        _ => return None,
    })
}

/// Random transport configuration (both peers get independent ones).
pub fn random_transport(rng: &mut Rng) -> (TransportConfig, [u32; 2]) {
    let mut t = TransportConfig::default();
    match rng.below(4) {
        0 => {
            t.receive_window(VarInt::from_u32(*rng.pick(&[1000u32, 5000, 20000])));
            t.stream_receive_window(VarInt::from_u32(*rng.pick(&[500u32, 3000, 20000])));
        }
        1 => {
            t.send_window(*rng.pick(&[1500u64, 8000, 100_000]));
        }
        _ => {}
    }
    let lim = [*rng.pick(&[0u32, 1, 2, 100]), *rng.pick(&[0u32, 1, 3, 100])];
    t.max_concurrent_bidi_streams(VarInt::from_u32(lim[0]));
    t.max_concurrent_uni_streams(VarInt::from_u32(lim[1]));
    match rng.below(4) {
        0 => {
            t.congestion_controller_factory(Arc::new(congestion::NewRenoConfig::default()));
        }
        1 => {
            t.congestion_controller_factory(Arc::new(congestion::BbrConfig::default()));
        }
        _ => {}
    }
    match rng.below(4) {
        0 => {
            t.mtu_discovery_config(None);
        }
        1 => {
            let mut m = MtuDiscoveryConfig::default();
            m.upper_bound(*rng.pick(&[1300u16, 1452, 2000, 9000]));
            t.mtu_discovery_config(Some(m));
        }
        _ => {}
    }
    if rng.chance(1, 4) {
        t.initial_mtu(*rng.pick(&[1200u16, 1300, 1400]));
    }
    if rng.chance(1, 4) {
        t.keep_alive_interval(Some(Duration::from_millis(*rng.pick(&[200u64, 3000]))));
    }
    if rng.chance(1, 5) {
        t.max_idle_timeout(Some(IdleTimeout::try_from(Duration::from_secs(*rng.pick(&[20u64, 60]))).unwrap()));
    }
    if rng.chance(1, 4) {
        t.datagram_receive_buffer_size(Some(*rng.pick(&[0usize, 2000, 100_000])));
        t.datagram_send_buffer_size(*rng.pick(&[1500usize, 20_000]));
    }
    if rng.chance(1, 5) {
        t.enable_segmentation_offload(false);
    }
    // further knobs come from a fork of the generator: the main stream of random choices stays what it was, so
    // the raw seeds recorded in known_findings.txt and the corpus keep replaying the same executions
    let mut r2 = Rng(rng.0 ^ 0x5eed_c0de_0bad_f00d);
    if r2.chance(1, 5) {
        // padded datagrams (also padded loss probes: a STREAM frame without length field must not swallow the padding)
        t.pad_to_mtu(true);
    }
    (t, lim)
}

pub fn random_net(rng: &mut Rng) -> NetCfg {
    let mut n = NetCfg::default();
    n.latency_ns = *rng.pick(&[0u64, 1_000_000, 10_000_000, 80_000_000]);
    n.jitter_ns = *rng.pick(&[0u64, 0, 2_000_000, 50_000_000]);
    n.drop_permille = *rng.pick(&[0u64, 10, 50, 150, 300]);
    n.dup_permille = *rng.pick(&[0u64, 0, 20, 200]);
    n.corrupt_permille = *rng.pick(&[0u64, 0, 10, 40]);
    n.truncate_permille = *rng.pick(&[0u64, 0, 10]);
    n.replay_permille = *rng.pick(&[0u64, 0, 20, 100]);
    n.path_mtu = *rng.pick(&[1200usize, 1280, 1452, 1452, 1500, 4000, 65000]);
    n.ce = rng.chance(1, 10);
    n
}

pub const XFER_RULE: &str = "one execution = random transport configs for both peers (windows, stream limits 0/1/.., controllers NewReno/Cubic/BBR, MTU discovery on/off/bounds, keep-alive, GSO), random network (latency/jitter/loss<=30% with at most 3 consecutive drops per direction/duplication/corruption/truncation/replay/path MTU/CE), event-driven workloads on both sides (streams bi/uni of 0..200KB in chunks 1..70000, ordered and unordered reads with random max_length, datagrams), driver with optional spurious calls and late timers; oracles: C01 content/prefix/disjointness/fin, C02 completion (no wedge), C04 frames processed <= frames sent, C07 amplification, C12 in-flight returns to zero, C13 datagram sizes, C08 event uniqueness; non-trivial = handshake completed, >= 1 fault injected and >= 1 KB transferred";

/// Driver-schedule variant of an execution (C20): extra shift of the time base, forced spurious-call rate.
#[derive(Clone, Copy, Default)]
pub struct Variant {
    pub shift_s: u64,
    pub spurious: Option<u64>,
    pub no_late: bool,
    /// record the plaintext frame sequence of every packet (C20 byte-level comparison)
    pub plain: bool,
    /// many concurrent streams with small stream windows (several streams owe credit / data at the same time, so
    /// anything that iterates a set of streams shows its order in the output)
    pub many_streams: bool,
}

pub struct XferRun {
    pub sim: Sim,
    pub w: Workload,
    pub end: RunEnd,
    pub cch: usize,
    pub checks: u64,
}

pub fn xfer_core(seed: u64, v: Variant) -> XferRun {
    let mut rng = Rng::new(seed ^ 0x51ab);
    let (mut tc, mut lim_c) = random_transport(&mut rng);
    let (mut ts, mut lim_s) = random_transport(&mut rng);
    if v.many_streams {
        for (t, lim) in [(&mut tc, &mut lim_c), (&mut ts, &mut lim_s)] {
            t.stream_receive_window(VarInt::from_u32(*rng.pick(&[400u32, 1500, 4000])));
            t.receive_window(VarInt::from_u32(*rng.pick(&[20_000u32, 1_000_000])));
            t.max_concurrent_bidi_streams(VarInt::from_u32(100));
            t.max_concurrent_uni_streams(VarInt::from_u32(100));
            *lim = [100, 100];
        }
    }
    let (mut sim, ccfg) = default_pair(seed, tc, ts);
    sim.base += Duration::from_secs(v.shift_s);
    sim.record_plain = v.plain;
    sim.net = random_net(&mut rng);
    // `initial_mtu` above the real path MTU is a documented misconfiguration, not a supported configuration
    sim.net.path_mtu = sim.net.path_mtu.max(1400);
    sim.model_trace = true;
    sim.nodes[CLIENT].max_datagrams = rng.range(1, 10) as usize;
    sim.nodes[SERVER].max_datagrams = rng.range(1, 10) as usize;
    if rng.chance(1, 3) {
        sim.drv.spurious_permille = *rng.pick(&[50u64, 300]);
    }
    if rng.chance(1, 4) {
        sim.drv.late_ns = *rng.pick(&[100_000u64, 5_000_000]);
    }
    if let Some(sp) = v.spurious {
        sim.drv.spurious_permille = sp;
    }
    if v.no_late {
        sim.drv.late_ns = 0;
    }
    if rng.chance(1, 5) {
        sim.nodes[SERVER].policy = IncomingPolicy::Retry;
    }
    let mut w = Workload::new(seed);
    let nplans_c = rng.below(5) as usize;
    let nplans_s = rng.below(3) as usize;
    w.sides[CLIENT].plans = Workload::random_plans(&mut rng, nplans_c, 200_000);
    w.sides[SERVER].plans = Workload::random_plans(&mut rng, nplans_s, 60_000);
    if v.many_streams {
        for side in 0..2 {
            let n = rng.range(4, 9) as usize;
            w.sides[side].plans = (0..n)
                .map(|_| Plan { dir: if rng.chance(1, 2) { quinn_proto::Dir::Bi } else { quinn_proto::Dir::Uni }, len: rng.range(3_000, 40_000), chunk: *rng.pick(&[1200usize, 5000, 70000]), finish: true, reset_at: None })
                .collect();
        }
    }
    // a peer limit of 0 streams in a direction makes such a plan impossible (not a wedge): drop those plans
    let di = |d: quinn_proto::Dir| if d == quinn_proto::Dir::Bi { 0 } else { 1 };
    w.sides[CLIENT].plans.retain(|p| lim_s[di(p.dir)] > 0);
    w.sides[SERVER].plans.retain(|p| lim_c[di(p.dir)] > 0);
    for s in 0..2 {
        w.sides[s].unordered_permille = *rng.pick(&[0u64, 300, 1000]);
        if rng.chance(1, 3) {
            let n = rng.below(6);
            for _ in 0..n {
                let len = rng.below(900) as usize;
                w.sides[s].dgrams_to_send.push(rng.bytes(len));
            }
        }
    }
    // stream limits of 0 on the peer make a plan impossible: drop plans the peer will never allow
    let cch = sim.connect(ccfg);
    w.ch[CLIENT] = Some(cch);
    let mut key_updates = rng.below(3);
    let mut checks = 0u64;
    let end = sim.run_until(900_000_000_000, 400_000, |sim| {
        if w.ch[SERVER].is_none() {
            if let Some(&ch) = sim.nodes[SERVER].accepted.first() {
                w.ch[SERVER] = Some(ch);
            }
        }
        w.tick(sim);
        if let (Some(c), Some(s)) = (w.ch[CLIENT], w.ch[SERVER]) {
            if sim.steps % 16 == 0 {
                sim.check_frame_counts(c, s);
                checks += 1;
            }
            if key_updates > 0 && sim.steps % 97 == 0 && sim.nodes[CLIENT].conns[&c].obs.confirmed {
                let side = (sim.steps / 97 % 2) as usize;
                let ch = if side == CLIENT { c } else { s };
                if !sim.conn(side, ch).is_closed() && !sim.conn(side, ch).is_handshaking() {
                    sim.conn(side, ch).force_key_update();
                    key_updates -= 1;
                }
            }
        }
        w.complete() && w.ch[SERVER].is_some()
    });
    XferRun { sim, w, end, cch, checks }
}

pub fn xfer(seed: u64, out: &mut Outcome) {
    let XferRun { mut sim, mut w, end, cch, checks } = xfer_core(seed, Variant::default());
    let connected = sim.nodes[CLIENT].conns[&cch].obs.connected;
    let mut require_complete = connected;
    if w.ch[SERVER].is_none() {
        require_complete = false;
        if end != RunEnd::Done {
            sim.fail("handshake-never-completed", format!("run ended {end:?} without the server accepting a connection"));
        }
    }
    let lost_c = sim.nodes[CLIENT].conns[&cch].obs.lost.clone();
    if !lost_c.is_empty() {
        sim.fail("connection-lost-under-fair-loss", format!("client lost the connection: {lost_c:?}"));
        require_complete = false;
    }
    w.final_check(&mut sim, require_complete);
    if end == RunEnd::Done {
        // let acknowledgements settle on a clean network, then C12: nothing in flight
        sim.net.drop_permille = 0;
        sim.net.corrupt_permille = 0;
        sim.net.truncate_permille = 0;
        let t_end = sim.now + 10_000_000_000;
        sim.time_cap = Some(t_end);
        let _ = sim.run_until(t_end, 100_000, |sim| {
            w.tick(sim);
            false
        });
        sim.time_cap = None;
        if let Some(sch) = w.ch[SERVER] {
            for (node, ch) in [(CLIENT, cch), (SERVER, sch)] {
                let sn = sim.snap(node, ch);
                if sn.state == "established" && sn.path.in_flight_bytes != 0 && !sn.spaces[2].sent_in_flight {
                    sim.fail("in-flight-nonzero-with-nothing-outstanding", format!("node {node}: in_flight.bytes = {} but no sent packet is outstanding", sn.path.in_flight_bytes));
                }
            }
            sim.check_frame_counts(cch, sch);
        }
    }
    // C08 event uniqueness on whatever happened
    for node in 0..2 {
        for (ch, nc) in &sim.nodes[node].conns {
            if nc.obs.lost.len() > 1 {
                out.fails.push(format!("key=connection-lost-reported-twice seed={seed} node {node} conn {ch}: {:?}", nc.obs.lost));
            }
            if nc.obs.drained_events > 1 {
                out.fails.push(format!("key=drained-notified-twice seed={seed} node {node} conn {ch}"));
            }
        }
    }
    out.runs += 1;
    out.evaluations += sim.steps;
    let faults: u64 = sim.faults.values().sum();
    let bytes: u64 = w.sides.iter().map(|s| s.recv.values().map(|r| r.bytes).sum::<u64>()).sum();
    if connected && faults > 0 && bytes >= 1000 {
        out.nontrivial += 1;
    }
    out.count(&format!("end:{end:?}"), 1);
    out.count("datagrams-delivered", sim.delivered[0] + sim.delivered[1]);
    out.count("frame-count-checks", checks);
    out.count("stream-bytes-read", bytes);
    for (k, v) in &sim.faults {
        out.count(&format!("fault:{k}"), *v);
    }
    if out.samples.len() < 2 {
        out.samples.push(format!(
            "seed {seed}: net {:?}; plans c={:?} s={:?}; end {end:?} at t={}ms after {} steps; delivered {:?}; faults {:?}",
            sim.net,
            w.sides[CLIENT].plans.iter().map(|p| (p.len, p.chunk)).collect::<Vec<_>>(),
            w.sides[SERVER].plans.iter().map(|p| (p.len, p.chunk)).collect::<Vec<_>>(),
            sim.now / 1_000_000,
            sim.steps,
            sim.delivered,
            sim.faults
        ));
    }
    if std::env::var("VERIF_SIM_VERBOSE").is_ok() {
        eprintln!("--- seed {seed}: end {end:?} net {:?}", sim.net);
        for node in 0..2 { eprintln!("app node {node}: plans {:?} send {:?} recv {:?}", w.sides[node].plans, w.sides[node].send, w.sides[node].recv); }
        let all = std::env::var("VERIF_SIM_VERBOSE").map_or(false, |v| v == "2");
        for r in sim.trace.iter().filter(|r| all || matches!(r, Rec::Ev { .. } | Rec::EpEv { .. } | Rec::EpTx { .. })) {
            eprintln!("{r:?}");
        }
        for node in 0..2 {
            for (ch, nc) in &sim.nodes[node].conns {
                eprintln!("node {node} conn {ch}: obs lost {:?} drained {} stats {:?}", nc.obs.lost, nc.obs.drained_events, nc.conn.stats().path);
                eprintln!("   snapshot {:?}", nc.conn.verif_snapshot());
            }
        }
    }
    for f in sim.fails.drain(..) {
        out.fails.push(format!("{f} seed={seed}"));
    }
    out.take_trace(seed, &mut sim);
}

pub const AMP_RULE: &str = "one execution = a server (random transport config, Retry on/off) facing: a genuine client whose datagrams stop arriving after its first K in {1..4} (so only server timers fire), 0..3 further clients at spoofed addresses that send one genuine Initial flight and vanish, replays of genuine client datagrams from spoofed addresses, and short-header garbage of 17..1400 bytes at random instants; 40 s of virtual time; oracles: per-datagram anti-amplification gate towards every unvalidated address (bytes received from that address counted by the simulator), stateless reset strictly smaller than the inciting datagram and at most one per min_reset_interval, every observed path transition validated against the Lean path model; non-trivial = server created >= 1 connection and retransmitted on a timer";

pub fn amp(seed: u64, out: &mut Outcome) {
    use std::cell::Cell;
    use std::rc::Rc;
    let mut rng = Rng::new(seed ^ 0xa3b);
    let (ts, _) = random_transport(&mut rng);
    let (tc, _) = random_transport(&mut rng);
    let (mut sim, ccfg) = default_pair(seed, tc, ts);
    sim.model_trace = true;
    sim.keep_history = true;
    sim.net.latency_ns = *rng.pick(&[1_000_000u64, 20_000_000]);
    sim.net.path_mtu = 65000;
    sim.nodes[SERVER].max_datagrams = rng.range(1, 10) as usize;
    if rng.chance(1, 3) {
        sim.nodes[SERVER].policy = IncomingPolicy::Retry;
    }
    let k = rng.range(1, 4);
    let passed = Rc::new(Cell::new(0u64));
    let p2 = passed.clone();
    let client_addr = sim.nodes[CLIENT].addr;
    sim.wire_filter = Some(Box::new(move |d: &mut Dgram, _r: &mut Rng| {
        if d.from == client_addr {
            p2.set(p2.get() + 1);
            return p2.get() <= k;
        }
        true
    }));
    let _cch = sim.connect(ccfg.clone());
    // further vanishing clients at spoofed addresses: one genuine first flight each
    let extra = rng.below(4);
    let mut pending_attacks: Vec<(u64, Dgram)> = Vec::new();
    for i in 0..extra {
        let (mut s2, c2) = default_pair(seed.wrapping_add(1000 + i), TransportConfig::default(), TransportConfig::default());
        let ch = s2.connect(c2);
        let mut buf = Vec::new();
        let now = s2.t();
        if let Some(t) = s2.conn(CLIENT, ch).poll_transmit(now, 1, &mut buf) {
            let from = addr(50000 + i as u16);
            let at = rng.below(5_000_000_000);
            // the connection-creating datagram may carry bytes after its Initial packet (coalesced junk): they count once
            let mut data = buf[..t.size].to_vec();
            let junk = *rng.pick(&[0usize, 0, 1, 50, 600, 1200]);
            data.extend(rng.bytes(junk));
            pending_attacks.push((at, Dgram { at: 0, seq: 0, from, to: sim.nodes[SERVER].addr, ecn: None, data, origin: usize::MAX, genuine: true }));
            // "partial and repeated handshakes": half of the vanishing clients retransmit their Initial once or twice (their own
            // probe timeout fires; still no Handshake packet, so still no proof that anybody reads what is sent to the address).
            // Drawn from a fork of the generator, so recorded seeds keep replaying
            let mut r2 = Rng::new(seed ^ 0xb2b2 ^ (i << 20));
            if r2.chance(1, 2) {
                for _ in 0..r2.range(1, 2) {
                    s2.now += 4_000_000_000;
                    let now2 = s2.t();
                    s2.conn(CLIENT, ch).handle_timeout(now2);
                    let mut buf2 = Vec::new();
                    if let Some(t2) = s2.conn(CLIENT, ch).poll_transmit(now2, 1, &mut buf2) {
                        let at2 = at + r2.range(1_000_000, 3_000_000_000);
                        pending_attacks.push((at2, Dgram { at: 0, seq: 0, from, to: sim.nodes[SERVER].addr, ecn: None, data: buf2[..t2.size].to_vec(), origin: usize::MAX, genuine: true }));
                    }
                }
            }
        }
    }
    let n_garbage = rng.below(30);
    for _ in 0..n_garbage {
        let len = *rng.pick(&[17usize, 20, 21, 22, 30, 41, 42, 43, 60, 100, 500, 1200, 1400]);
        let mut data = rng.bytes(len);
        data[0] = 0x40 | (data[0] & 0x3f); // short header, fixed bit set
        let from = addr(51000 + rng.below(3) as u16);
        let at = rng.below(10_000_000_000);
        pending_attacks.push((at, Dgram { at: 0, seq: 0, from, to: sim.nodes[SERVER].addr, ecn: None, data, origin: usize::MAX, genuine: false }));
    }
    let n_replay = rng.below(6);
    let mut replays_left = n_replay;
    pending_attacks.sort_by_key(|a| a.0);
    let mut resets: Vec<(u64, usize, usize)> = Vec::new();
    let mut last_ep_tx = 0usize;
    let end = sim.run_until(40_000_000_000, 200_000, |sim| {
        while let Some((at, _)) = pending_attacks.first() {
            if *at > sim.now {
                break;
            }
            let (_, mut d) = pending_attacks.remove(0);
            d.at = sim.now;
            let short = d.data[0] & 0x80 == 0;
            let len = d.data.len();
            let before_tx = sim.trace.len();
            sim.handle_datagram(SERVER, d);
            if short {
                for r in &sim.trace[before_tx..] {
                    if let Rec::EpTx { at, size, .. } = r {
                        resets.push((*at, *size, len));
                    }
                }
            }
        }
        if replays_left > 0 && sim.now > 50_000_000 && !sim.history.is_empty() && sim.steps % 7 == 0 {
            replays_left -= 1;
            let i = sim.rng.below(sim.history.len() as u64) as usize;
            let mut d = sim.history[i].clone();
            if d.origin == CLIENT {
                d.from = addr(52000 + sim.rng.below(2) as u16);
                d.at = sim.now;
                d.origin = usize::MAX;
                sim.push_wire(d);
            }
        }
        let _ = &mut last_ep_tx;
        false
    });
    // stateless reset oracles (C07)
    for w in resets.windows(2) {
        if w[1].0 < w[0].0 + 20_000_000 {
            sim.fail("stateless-reset-rate-exceeded", format!("two stateless resets {} ns apart (min_reset_interval 20 ms)", w[1].0 - w[0].0));
        }
    }
    for (at, size, inciting) in &resets {
        if size >= inciting {
            sim.fail("stateless-reset-not-smaller", format!("at {at}: reset of {size} bytes for a {inciting}-byte datagram"));
        }
    }
    out.runs += 1;
    out.evaluations += sim.steps;
    let server_conns = sim.nodes[SERVER].conns.len();
    let timeouts = sim.trace.iter().filter(|r| matches!(r, Rec::Timeout { node: 1, .. })).count();
    if server_conns >= 1 && timeouts >= 1 {
        out.nontrivial += 1;
    }
    out.count(&format!("end:{end:?}"), 1);
    out.count("server-connections", server_conns as u64);
    out.count("server-timeouts", timeouts as u64);
    out.count("stateless-resets", resets.len() as u64);
    out.count("attack-datagrams", extra + n_garbage + n_replay);
    if out.samples.len() < 2 {
        let sent: Vec<_> = sim.nodes[SERVER].sent_to.iter().map(|(a, b)| (a.port(), *b, *sim.nodes[SERVER].recv_from.get(a).unwrap_or(&0))).collect();
        out.samples.push(format!("seed {seed}: client datagrams let through {k}, extra vanishing clients {extra}, garbage {n_garbage}, replays {n_replay}; server (port, sent, received) {sent:?}; resets {resets:?}"));
    }
    if std::env::var("VERIF_SIM_VERBOSE").is_ok() {
        for r in &sim.trace {
            eprintln!("{r:?}");
        }
        for (i, (o, m)) in sim.model_ops.iter().zip(sim.model_impl.iter()).enumerate() {
            eprintln!("{i}: {o} => {m}");
        }
    }
    for f in sim.fails.drain(..) {
        out.fails.push(format!("{f} seed={seed}"));
    }
    out.take_trace(seed, &mut sim);
}

pub const CLOSE_RULE: &str = "one execution = handshake + transfer under a random network, then one terminating action at a random step of the exchange: local close by client/server/both (with code and reason), the peer vanishing (all its datagrams dropped from then on), the peer endpoint being replaced by a fresh one (stateless resets), or nothing (idle timeout with/without keep-alive); afterwards the run continues for 90 s of virtual time. Oracles (C08): ConnectionLost reported at most once per connection and never for a purely local close; the peer of a closer learns the close with the closer's code/reason (over a path that still delivers); Drained endpoint event exactly once and within 3 PTO of closing; no output after drained; TimedOut no earlier than the idle timeout after the last datagram received; no idle timeout while keep-alives flow; the closing packet is emitted by the first poll_transmit after close() whatever the congestion state; non-trivial = the terminating action happened after the handshake completed";

pub fn close(seed: u64, out: &mut Outcome) {
    let mut rng = Rng::new(seed ^ 0xc105e);
    let (mut tc, _) = random_transport(&mut rng);
    let (mut ts, _) = random_transport(&mut rng);
    let idle_ms = *rng.pick(&[2_000u64, 10_000, 30_000]);
    for t in [&mut tc, &mut ts] {
        t.max_idle_timeout(Some(IdleTimeout::try_from(Duration::from_millis(idle_ms)).unwrap()));
        t.max_concurrent_bidi_streams(VarInt::from_u32(100));
        t.max_concurrent_uni_streams(VarInt::from_u32(100));
    }
    let keep_alive = rng.chance(1, 3);
    if keep_alive {
        tc.keep_alive_interval(Some(Duration::from_millis(idle_ms / 4)));
    } else {
        tc.keep_alive_interval(None);
        ts.keep_alive_interval(None);
    }
    let (mut sim, ccfg) = default_pair(seed, tc, ts);
    sim.model_trace = true;
    sim.net = random_net(&mut rng);
    sim.net.path_mtu = sim.net.path_mtu.max(1400);
    sim.net.drop_permille = sim.net.drop_permille.min(100);
    sim.net.corrupt_permille = 0;
    sim.net.truncate_permille = 0;
    sim.net.replay_permille = 0;
    let mut w = Workload::new(seed);
    w.sides[CLIENT].plans = Workload::random_plans(&mut rng, 3, 400_000);
    w.sides[SERVER].plans = Workload::random_plans(&mut rng, 2, 100_000);
    let cch = sim.connect(ccfg);
    w.ch[CLIENT] = Some(cch);
    // 0 client close, 1 server close, 2 both, 3 client vanishes, 4 server vanishes, 5 server endpoint replaced, 6 nothing (idle),
    // 7 server closes and its endpoint restarts at once, 8 client closes and the server endpoint restarts at once
    let action = rng.below(9);
    let act_step = rng.range(1, 120);
    let mut acted_at: Option<u64> = None;
    let mut acted_after_handshake = false;
    let code = *rng.pick(&[rng.clone().below(1000) as u32, 16383, 16384, (1 << 30) - 1, 1 << 30, u32::MAX]);
    let rl = *rng.pick(&[0usize, 5, 39, 1100, 1190, 1300, 1500, 3000]);
    let reason: Vec<u8> = rng.bytes(rl);
    let mut close_tx_ok: Vec<(usize, bool)> = Vec::new();
    let mut closer_had_hs_keys = [false; 2];
    let mut vanished: Option<usize> = None;
    let horizon = 200_000_000_000u64;
    let end = sim.run_until(horizon * 3, 300_000, |sim| {
        if w.ch[SERVER].is_none() {
            if let Some(&ch) = sim.nodes[SERVER].accepted.first() {
                w.ch[SERVER] = Some(ch);
            }
        }
        w.tick(sim);
        if acted_at.is_none() && sim.steps >= act_step && (w.ch[SERVER].is_some() || sim.steps > act_step + 50) {
            acted_at = Some(sim.now);
            acted_after_handshake = sim.nodes[CLIENT].conns[&cch].obs.connected;
            let sch = w.ch[SERVER];
            let mut do_close = |sim: &mut Sim, node: usize, ch: usize| {
                let now = sim.t();
                if sim.conn(node, ch).is_closed() {
                    return;
                }
                let b = sim.snap(node, ch);
                sim.conn(node, ch).close(now, VarInt::from_u32(code), reason.clone().into());
                let a = sim.snap(node, ch);
                let pto3 = a.timers[2].map_or(0, |t| sim.off(t).saturating_sub(sim.now));
                sim.model_ops.push(format!("life close {} {pto3} {}", sim.now, life_state(sim.base, &b)));
                sim.model_impl.push(life_state(sim.base, &a));
                sim.nodes[node].conns.get_mut(&ch).unwrap().obs.closed_locally_at = Some(sim.now);
                // C08: the close is announced at once, whatever the congestion/pacing state
                let before = sim.snap(node, ch);
                closer_had_hs_keys[node] = before.spaces[0].has_keys || before.spaces[1].has_keys;
                let mut buf = Vec::new();
                let t = sim.conn(node, ch).poll_transmit(now, 1, &mut buf);
                // the only excuse for silence is the anti-amplification limit, and only towards an address the HARNESS has not
                // seen validated either (crate::addrval): a path wrongly kept unvalidated, or keys dropped too early, excuse nothing
                // (an open connection always holds the keys of at least one packet number space)
                let peer_validated = sim.av.is_validated(node, ch, &before.path.remote);
                let blocked_by_amp = !peer_validated && !before.path.validated && before.path.total_sent >= 3 * before.path.total_recvd;
                let has_keys = true;
                match t {
                    Some(t) => {
                        close_tx_ok.push((node, true));
                        if t.size > before.path.current_mtu as usize {
                            sim.fail("datagram-exceeds-mtu", format!("node {node}: closing datagram of {} bytes > current_mtu {} (code {code}, reason {} bytes)", t.size, before.path.current_mtu, reason.len()));
                        }
                        let data = buf[..t.size].to_vec();
                        let from = sim.nodes[node].addr;
                        *sim.nodes[node].sent_to.entry(t.destination).or_default() += t.size as u64;
                        sim.send_wire(node, from, t.destination, t.ecn, data);
                    }
                    None => {
                        if has_keys && !blocked_by_amp {
                            close_tx_ok.push((node, false));
                            sim.fail(
                                "close-not-announced-at-once",
                                format!("node {node}: poll_transmit right after close() returned None (in_flight {} cwnd {} state {})", before.path.in_flight_bytes, before.path.cwnd, before.state),
                            );
                        }
                    }
                }
            };
            match action {
                0 => do_close(sim, CLIENT, cch),
                1 => {
                    if let Some(s) = sch {
                        do_close(sim, SERVER, s)
                    }
                }
                2 => {
                    do_close(sim, CLIENT, cch);
                    if let Some(s) = sch {
                        do_close(sim, SERVER, s)
                    }
                }
                3 | 4 => {
                    let who = if action == 3 { CLIENT } else { SERVER };
                    vanished = Some(who);
                    let a = sim.nodes[who].addr;
                    sim.wire.retain(|d| d.from != a);
                    sim.wire_filter = Some(Box::new(move |d: &mut Dgram, _r: &mut Rng| d.from != a));
                }
                5 | 7 | 8 => {
                    if action == 7 {
                        if let Some(s) = sch {
                            do_close(sim, SERVER, s)
                        }
                    }
                    if action == 8 {
                        do_close(sim, CLIENT, cch);
                    }
                    // the server process restarts: fresh endpoint with the same reset key, all state lost
                    let clock = sim.clock.clone();
                    let fresh = quinn_proto::Endpoint::new(
                        std::sync::Arc::new(endpoint_config(seed ^ 1, 8, None)),
                        Some(std::sync::Arc::new(server_config(seed, TransportConfig::default(), &clock))),
                        true,
                    );
                    sim.nodes[SERVER].ep = fresh;
                    for c in sim.nodes[SERVER].conns.values_mut() {
                        c.removed = true;
                    }
                    vanished = Some(SERVER);
                }
                _ => {}
            }
        }
        acted_at.is_some_and(|t| sim.now > t + horizon)
    });
    let acted = acted_at.unwrap_or(0);
    // ---- oracles
    let idle_ns = idle_ms * 1_000_000;
    for node in 0..2 {
        let peer = 1 - node;
        let chs: Vec<usize> = sim.nodes[node].conns.keys().cloned().collect();
        for ch in chs {
            let (lost, drained_events, closed_local, drained_at, removed) = {
                let nc = &sim.nodes[node].conns[&ch];
                (nc.obs.lost.clone(), nc.obs.drained_events, nc.obs.closed_locally_at, nc.obs.drained_at, nc.removed)
            };
            if removed {
                continue;
            }
            // (the recorded findings that involve `Reset` are tied to a stateless reset really handled: lostkeys.rs)
            let resets = sim.ledger.stateless_resets_handled(node, ch);
            if lost.len() > 1 {
                sim.fail(&crate::lostkeys::twice_key(&lost, resets), format!("node {node}: {lost:?} (stateless resets of the peer endpoint handled: {resets})"));
            }
            if drained_events > 1 {
                sim.fail("drain-notified-twice", format!("node {node} conn {ch}"));
            }
            let sn = sim.snap(node, ch);
            if closed_local.is_some() && !lost.is_empty() {
                // a local close reports nothing at the protocol layer
                let peer_closed_too = action == 2;
                let k = crate::lostkeys::after_local_close_key(&lost[0], resets, if peer_closed_too { "" } else { "lost-after-local-close:other" });
                if !k.is_empty() {
                    sim.fail(k, format!("node {node} closed locally yet polled {lost:?}"));
                }
            }
            if let Some(t0) = closed_local {
                // drained within 3 PTO (pto at most: 3 * (srtt + 4 rttvar + max_ack_delay) -- we bound by observed pto * 3 with slack for backoff-free close timer)
                let pto_max = sn.pto.iter().max().unwrap().as_nanos() as u64;
                match drained_at {
                    Some(td) => {
                        if td > t0 + 3 * pto_max + 1_000_000 {
                            sim.fail("drain-later-than-3pto", format!("node {node}: closed at {t0}, drained at {td}, 3*pto = {}", 3 * pto_max));
                        }
                    }
                    None => sim.fail("drain-never", format!("node {node}: closed at {t0}, never drained by {}", sim.now)),
                }
            }
            if (sn.state != "drained" || drained_at.is_none()) && acted_at.is_some() && action != 6 {
                // whatever happened, 90 s later everything must have drained (idle timeout <= 30 s)
                sim.fail("drain-never", format!("node {node} conn {ch} still {} at the end (action {action})", sn.state));
            }
            // peer learns the close and its reason (path still delivers, nobody vanished)
            if let (Some(_), None, Some(pch)) = (closed_local, vanished, w.ch[peer]) {
                if action != 2 && action != 7 && acted_after_handshake {
                    let pl = sim.nodes[peer].conns[&pch].obs.lost.clone();
                    let want = format!("error_code: {code},");
                    // the generic APPLICATION_ERROR is what a closer announces in the Initial/Handshake spaces,
                    // which it must still use while it holds those keys
                    let generic_ok = closer_had_hs_keys[node] && pl.len() == 1 && pl[0].contains("APPLICATION_ERROR");
                    if !generic_ok && (pl.len() != 1 || !(pl[0].contains("ApplicationClosed") && pl[0].contains(&want))) {
                        sim.fail("close-reason-not-delivered", format!("node {node} closed with code {code}; peer polled {pl:?}"));
                    }
                }
            }
            // idle timeout bounds
            for l in &lost {
                if l.contains("TimedOut") {
                    if keep_alive && vanished.is_none() && action == 6 {
                        sim.fail("idle-timeout-despite-keep-alive", format!("node {node}: {l}"));
                    }
                    let (last_rx, last_tx) = { let o = &sim.nodes[node].conns[&ch].obs; (o.last_authed_rx_at.unwrap_or(0), o.last_tx_at.unwrap_or(0)) };
                    if let Some(td) = drained_at {
                        // no earlier than the negotiated idle timeout after the last datagram received
                        if td < last_rx + idle_ns {
                            sim.fail("idle-timeout-too-early", format!("node {node}: last authenticated datagram received at {last_rx}, TimedOut at {td}, idle timeout {idle_ns}"));
                        }
                        // no later than max(idle, 3 PTO) after the last event that may restart the timer
                        let pto_max = sn.pto.iter().max().unwrap().as_nanos() as u64;
                        let bound = last_rx.max(last_tx) + idle_ns.max(3 * pto_max) + 2_000_000 + sim.drv.late_ns;
                        if td > bound {
                            sim.fail("idle-timeout-too-late", format!("node {node}: last rx {last_rx} last tx {last_tx}, TimedOut at {td} > {bound}"));
                        }
                    }
                }
            }
        }
    }
    out.runs += 1;
    out.evaluations += sim.steps;
    if acted_after_handshake {
        out.nontrivial += 1;
    }
    out.count(&format!("action:{action}"), 1);
    out.count(&format!("end:{end:?}"), 1);
    out.count("close-announced-checks", close_tx_ok.len() as u64);
    if out.samples.len() < 3 {
        let l: Vec<_> = (0..2).map(|n| sim.nodes[n].conns.values().map(|c| (c.obs.lost.clone(), c.obs.drained_events, c.obs.closed_locally_at, c.obs.drained_at)).collect::<Vec<_>>()).collect();
        out.samples.push(format!("seed {seed}: action {action} at step {act_step} (t={acted}ns, after handshake: {acted_after_handshake}), idle {idle_ms}ms keep_alive {keep_alive}; per node (lost, drained events, closed at, drained at): {l:?}"));
    }
    if std::env::var("VERIF_SIM_VERBOSE").is_ok() {
        for r in sim.trace.iter().filter(|r| !matches!(r, Rec::Tx { .. })) {
            eprintln!("{r:?}");
        }
    }
    for f in sim.fails.drain(..) {
        out.fails.push(format!("{f} seed={seed}"));
    }
    out.take_trace(seed, &mut sim);
}

pub const DETERM_RULE: &str = "one execution = the transfer scenario of seed s run four times in one process: (a) reference with a driver that makes no spurious calls, (b) identical replay, (c) time base shifted by 1000 s, (d) spurious handle_timeout / poll_timeout calls, and repeated poll_transmit / poll calls after one that returned None, inserted at 30% of the opportunities; the full observable traces (every Transmit: instant offset, size, segment size, destination; every application event; every endpoint event; every serviced timeout and the next deadline it leaves) must be identical (a)=(b)=(c)=(d). Ed25519 certificates and seeded CID generators / rng_seed make datagram sizes independent of TLS randomness. Also: servicing timeouts at one instant settles within 2*16+9 rounds; no output after drained. Non-trivial = reference trace has > 50 records and >= 1 fault";

fn trace_key(t: &[Rec]) -> Vec<String> {
    t.iter().map(|r| format!("{r:?}")).collect()
}

pub fn determ(seed: u64, out: &mut Outcome) {
    let base = Variant { shift_s: 0, spurious: Some(0), no_late: true, plain: true, many_streams: seed % 2 == 0 };
    let a = xfer_core(seed, base);
    let ta = trace_key(&a.sim.trace);
    let mut plain_compared = 0u64;
    let variants: [(&str, Variant); 3] = [
        ("determinism-replay-differs", base),
        ("shift-equivariance-broken", Variant { shift_s: 1000, ..base }),
        ("spurious-calls-change-behaviour", Variant { spurious: Some(300), ..base }),
    ];
    for (key, v) in variants {
        let b = xfer_core(seed, v);
        let tb = trace_key(&b.sim.trace);
        if ta != tb {
            let i = ta.iter().zip(tb.iter()).position(|(x, y)| x != y).unwrap_or(ta.len().min(tb.len()));
            out.fails.push(format!(
                "key={key} seed={seed} traces diverge at record {i} of {}/{}: reference {:?} vs variant {:?}",
                ta.len(),
                tb.len(),
                ta.get(i),
                tb.get(i)
            ));
        }
        // the frames written into every packet, in order (TLS-made bytes reduced to lengths): same inputs, same output
        if a.sim.plain != b.sim.plain {
            let i = a.sim.plain.iter().zip(b.sim.plain.iter()).position(|(x, y)| x != y).unwrap_or(a.sim.plain.len().min(b.sim.plain.len()));
            let cut = |s: Option<&String>| s.map(|s| s.chars().take(300).collect::<String>());
            out.fails.push(format!(
                "key=determinism-plaintext-differs seed={seed} variant {key}: packet {i} of {}/{} differs: reference {:?} vs variant {:?}",
                a.sim.plain.len(),
                b.sim.plain.len(),
                cut(a.sim.plain.get(i)),
                cut(b.sim.plain.get(i))
            ));
        }
        plain_compared += a.sim.plain.len() as u64;
        for f in &b.sim.fails {
            if f.contains("timeout-settle") || f.contains("output-after-drained") {
                out.fails.push(format!("{f} seed={seed}"));
            }
        }
        out.evaluations += b.sim.steps;
    }
    for f in &a.sim.fails {
        if f.contains("timeout-settle") || f.contains("output-after-drained") {
            out.fails.push(format!("{f} seed={seed}"));
        }
    }
    out.runs += 1;
    out.evaluations += a.sim.steps;
    let faults: u64 = a.sim.faults.values().sum();
    if ta.len() > 50 && faults > 0 {
        out.nontrivial += 1;
    }
    out.count("trace-records-compared", 3 * ta.len() as u64);
    out.count("packets-compared-frame-by-frame", plain_compared);
    if out.samples.len() < 2 {
        out.samples.push(format!("seed {seed}: reference trace {} records, e.g. {:?}", ta.len(), ta.iter().skip(ta.len() / 2).take(4).collect::<Vec<_>>()));
    }
}

pub const MIGRATE_RULE: &str = "one execution = handshake + transfer in both directions; at random steps the client's address changes (port-only rebinding or a different IP, once or twice, possibly overlapping) with or without local_address_changed(); an attacker replays genuine client datagrams (and genuine server datagrams towards the client) from third addresses at random times; server migration enabled or disabled; lossy network. Oracles (C15): with migration enabled the server follows a client that keeps sending from the new address, validates it and the workload completes; whenever the server's path points to an address the client is not at, it returns to the client's address within 3 PTO (+1 RTT); the anti-amplification gate holds on every unvalidated path (C07 oracle); a client never changes its path; a server with migration disabled never changes its path; non-trivial = at least one address change or replay happened after the handshake";

pub fn migrate(seed: u64, out: &mut Outcome) {
    use std::net::{IpAddr, Ipv6Addr, SocketAddr};
    let mut rng = Rng::new(seed ^ 0x319a);
    let (mut tc, lim_c) = random_transport(&mut rng);
    let (mut ts, lim_s) = random_transport(&mut rng);
    let mut mig_initial = [1200u16; 2];
    let mut mig_upper = [1452u16; 2];
    for (i, t) in [&mut tc, &mut ts].into_iter().enumerate() {
        t.max_idle_timeout(Some(IdleTimeout::try_from(Duration::from_secs(30)).unwrap()));
        // explicit MTU configuration (known to the C13 oracles): initial_mtu, discovery on (default bounds) or off
        mig_initial[i] = *rng.pick(&[1200u16, 1200, 1300, 1400]);
        t.initial_mtu(mig_initial[i]);
        if rng.chance(1, 3) {
            t.mtu_discovery_config(None);
            mig_upper[i] = mig_initial[i];
        } else {
            t.mtu_discovery_config(Some(MtuDiscoveryConfig::default()));
            mig_upper[i] = 1452;
        }
    }
    let migration_enabled = !rng.chance(1, 4);
    let clock = SimClock(Arc::new(std::sync::Mutex::new(std::time::UNIX_EPOCH + Duration::from_secs(1_700_000_000))));
    let mut scfg = server_config(seed, ts, &clock);
    scfg.migration(migration_enabled);
    let mups = [*rng.pick(&[1200u16, 1350, 1472, 1472]), *rng.pick(&[1200u16, 1350, 1472, 1472])];
    let mut ecs = endpoint_config(seed ^ 1, 8, None);
    ecs.max_udp_payload_size(mups[SERVER]).unwrap();
    let mut ecc = endpoint_config(seed ^ 2, 8, None);
    ecc.max_udp_payload_size(mups[CLIENT]).unwrap();
    let server = quinn_proto::Endpoint::new(Arc::new(ecs), Some(Arc::new(scfg)), true);
    let client = quinn_proto::Endpoint::new(Arc::new(ecc), None, true);
    let mut sim = Sim::new(seed, client, server, clock);
    // C13 on every path of a migrating connection: nothing above the peer's max_udp_payload_size
    sim.mtu_rules = Some([
        MtuRule { initial: mig_initial[CLIENT].min(mups[SERVER]), probe_cap: (mig_upper[CLIENT] as usize).min(mups[SERVER] as usize), peer_max_udp: mups[SERVER] as usize },
        MtuRule { initial: mig_initial[SERVER].min(mups[CLIENT]), probe_cap: (mig_upper[SERVER] as usize).min(mups[CLIENT] as usize), peer_max_udp: mups[CLIENT] as usize },
    ]);
    sim.path_may_migrate = [false, migration_enabled];
    // half of the executions run over IPv4: a port-only change of an IPv4 peer takes the NAT-rebinding branch of
    // `migrate` (PathData::from_previous) instead of building a fresh path
    let v4 = rng.chance(1, 2);
    if v4 {
        use std::net::Ipv4Addr;
        sim.nodes[CLIENT].addr = SocketAddr::new(IpAddr::V4(Ipv4Addr::new(10, 0, 0, 1)), 44433);
        sim.nodes[SERVER].addr = SocketAddr::new(IpAddr::V4(Ipv4Addr::new(10, 0, 0, 2)), 4433);
    }
    let ccfg = client_config(seed, tc);
    sim.model_trace = true;
    sim.keep_history = true;
    sim.net = random_net(&mut rng);
    sim.net.path_mtu = sim.net.path_mtu.max(1400);
    sim.net.drop_permille = sim.net.drop_permille.min(100);
    sim.net.replay_permille = 0;
    sim.net.corrupt_permille = 0;
    sim.net.truncate_permille = 0;
    let mut w = Workload::new(seed);
    w.sides[CLIENT].plans = Workload::random_plans(&mut rng, 3, 300_000);
    w.sides[SERVER].plans = Workload::random_plans(&mut rng, 2, 100_000);
    let di = |d: quinn_proto::Dir| if d == quinn_proto::Dir::Bi { 0 } else { 1 };
    w.sides[CLIENT].plans.retain(|p| lim_s[di(p.dir)] > 0);
    w.sides[SERVER].plans.retain(|p| lim_c[di(p.dir)] > 0);
    // keep-alives make the client "keep sending from the new address" even when it has nothing to write
    let cch = sim.connect(ccfg);
    w.ch[CLIENT] = Some(cch);
    // C12 in-flight ledger on every snapshot (`in-flight-bytes-unaccounted`, module `inflight`)
    let infl = crate::inflight::install(&mut sim);
    let n_moves = if migration_enabled { rng.below(3) } else { rng.below(2) };
    let mut move_steps: Vec<u64> = (0..n_moves).map(|_| rng.range(30, 400)).collect();
    move_steps.sort();
    let n_replays = rng.below(6);
    let mut replay_steps: Vec<u64> = (0..n_replays).map(|_| rng.range(20, 500)).collect();
    replay_steps.sort();
    let mut moved = 0u64;
    let mut replays = 0u64;
    let mut acted_after_hs = false;
    // how long has the server's path pointed somewhere the client is not?
    let mut wrong_since: Option<u64> = None;
    let genuine_client_addrs = std::cell::RefCell::new(vec![sim.nodes[CLIENT].addr]);
    let end = sim.run_until(600_000_000_000, 400_000, |sim| {
        if w.ch[SERVER].is_none() {
            if let Some(&ch) = sim.nodes[SERVER].accepted.first() {
                w.ch[SERVER] = Some(ch);
            }
        }
        w.tick(sim);
        let hs_done = sim.nodes[CLIENT].conns[&cch].obs.confirmed;
        if hs_done && move_steps.first().is_some_and(|s| sim.steps >= *s) {
            move_steps.remove(0);
            moved += 1;
            acted_after_hs = true;
            let old = sim.nodes[CLIENT].addr;
            let new = if sim.rng.chance(1, 2) {
                SocketAddr::new(old.ip(), old.port() + 1 + moved as u16)
            } else if v4 {
                SocketAddr::new(IpAddr::V4(std::net::Ipv4Addr::new(10, 0, 1, 2 + moved as u8)), old.port())
            } else {
                SocketAddr::new(IpAddr::V6(Ipv6Addr::new(0, 0, 0, 0, 0, 0, 0, 2 + moved as u16)), old.port())
            };
            sim.nodes[CLIENT].addr = new;
            genuine_client_addrs.borrow_mut().push(new);
            if sim.rng.chance(1, 2) {
                sim.conn(CLIENT, cch).local_address_changed();
            } else {
                // the client must keep sending for the server to notice: a ping stands for ongoing traffic
                sim.conn(CLIENT, cch).ping();
            }
        }
        if hs_done && replay_steps.first().is_some_and(|s| sim.steps >= *s) && !sim.history.is_empty() {
            replay_steps.remove(0);
            replays += 1;
            acted_after_hs = true;
            // replay one of the most recent genuine datagrams from a third address
            let n = sim.history.len();
            let i = n - 1 - sim.rng.below(n.min(8) as u64) as usize;
            let mut d = sim.history[i].clone();
            // from a third party's address, or (spoofed) from another port of the client's own IP address
            d.from = if sim.rng.chance(1, 2) {
                SocketAddr::new(sim.nodes[CLIENT].addr.ip(), 6000 + replays as u16)
            } else if v4 {
                SocketAddr::new(IpAddr::V4(std::net::Ipv4Addr::new(10, 9, 9, 9)), 6000 + replays as u16)
            } else {
                SocketAddr::new(IpAddr::V6(Ipv6Addr::new(0, 0, 0, 0, 0, 0, 9, 9)), 6000 + replays as u16)
            };
            d.at = sim.now + sim.rng.below(2_000_000);
            d.origin = usize::MAX;
            sim.push_wire(d);
        }
        // ---- oracles evaluated continuously
        if let Some(sch) = w.ch[SERVER] {
            infl.borrow_mut().check(sim, CLIENT, cch);
            infl.borrow_mut().check(sim, SERVER, sch);
            let ss = sim.snap(SERVER, sch);
            let cs = sim.snap(CLIENT, cch);
            let caddr = sim.nodes[CLIENT].addr;
            if cs.path.remote != sim.nodes[SERVER].addr {
                sim.fail("path-client-changed-its-path", format!("client path is {} but the server is at {}", cs.path.remote, sim.nodes[SERVER].addr));
            }
            if !migration_enabled && ss.path.remote != genuine_client_addrs.borrow()[0] {
                sim.fail("path-server-migrated-although-disabled", format!("server path is {}", ss.path.remote));
            }
            if ss.state == "established" && cs.state == "established" {
                let genuine = genuine_client_addrs.borrow().contains(&ss.path.remote);
                if ss.path.remote != caddr && !genuine {
                    // pointing at an attacker's address: must revert within 3 PTO (+ an RTT of slack)
                    let since = *wrong_since.get_or_insert(sim.now);
                    let pto = ss.pto[2].as_nanos() as u64;
                    let bound = 3 * pto.max(cs.pto[2].as_nanos() as u64) * 2 + 4 * (sim.net.latency_ns + sim.net.jitter_ns) + 50_000_000;
                    if sim.now > since + bound {
                        sim.fail("migration-to-spoofed-address-not-reverted", format!("server path has been {} (client is at {caddr}) since {since}, now {}, bound {bound}", ss.path.remote, sim.now));
                        wrong_since = Some(sim.now + 1_000_000_000_000);
                    }
                } else {
                    wrong_since = None;
                }
            }
        }
        if w.complete() && w.ch[SERVER].is_some() {
            // nothing left to transfer: pending address changes / replays are dropped
            move_steps.clear();
            replay_steps.clear();
            return true;
        }
        false
    });
    if end == RunEnd::Done {
        // let an address change made at the very end take effect (the client's ping / next packets reach the server)
        let t_end = sim.now + 3_000_000_000;
        sim.time_cap = Some(t_end);
        let _ = sim.run_until(t_end, 100_000, |sim| {
            w.tick(sim);
            false
        });
        sim.time_cap = None;
    }
    let connected = sim.nodes[CLIENT].conns[&cch].obs.connected;
    // with migration disabled a moved client legitimately loses the connection
    let expect_complete = connected && (migration_enabled || moved == 0);
    if expect_complete {
        let lost_c = sim.nodes[CLIENT].conns[&cch].obs.lost.clone();
        if !lost_c.is_empty() {
            sim.fail("migration-connection-lost", format!("client lost the connection: {lost_c:?} (moves {moved}, replays {replays})"));
        } else {
            w.final_check(&mut sim, true);
            // the server ends up on the client's current address, validated
            if let Some(sch) = w.ch[SERVER] {
                let ss = sim.snap(SERVER, sch);
                if moved > 0 && ss.state == "established" && (ss.path.remote != sim.nodes[CLIENT].addr) {
                    sim.fail("migration-not-followed", format!("server path {} != client address {} at the end", ss.path.remote, sim.nodes[CLIENT].addr));
                }
            }
        }
    } else {
        w.final_check(&mut sim, false);
    }
    out.runs += 1;
    out.evaluations += sim.steps;
    if acted_after_hs {
        out.nontrivial += 1;
    }
    out.count(&format!("end:{end:?}"), 1);
    out.count("address-changes", moved);
    out.count("replays-from-third-addresses", replays);
    out.count(if migration_enabled { "migration-enabled" } else { "migration-disabled" }, 1);
    sim.tx_tap = None;
    for (k, v) in infl.borrow().counters() {
        out.count(k, v);
    }
    if out.samples.len() < 3 {
        out.samples.push(format!("seed {seed}: migration_enabled {migration_enabled}, moves {moved}, replays {replays}, client addresses {:?}, end {end:?} at {} ms", genuine_client_addrs.borrow(), sim.now / 1_000_000));
    }
    if std::env::var("VERIF_SIM_VERBOSE").is_ok() {
        let all = std::env::var("VERIF_SIM_VERBOSE").map_or(false, |v| v == "2");
        for r in sim.trace.iter().filter(|r| all || !matches!(r, Rec::Tx { .. })) {
            eprintln!("{r:?}");
        }
        for node in 0..2 {
            for (ch, nc) in &sim.nodes[node].conns {
                eprintln!("node {node} conn {ch}: snapshot {:?}", nc.conn.verif_snapshot());
            }
        }
        for node in 0..2 {
            eprintln!("app node {node}: plans {:?} next {} send {:?} recv {:?}", w.sides[node].plans, w.sides[node].next_plan, w.sides[node].send, w.sides[node].recv.iter().map(|(k, v)| (*k, v.bytes, v.fin, v.unordered)).collect::<Vec<_>>());
        }
    }
    // only C15/C07/C01 relevant keys matter here; everything is reported, routing is by key
    for f in sim.fails.drain(..) {
        out.fails.push(format!("{f} seed={seed}"));
    }
    out.take_trace(seed, &mut sim);
}

pub const ZRTT_RULE: &str = "one execution = a first connection to obtain a session ticket, then a second connection on the same endpoints using 0-RTT: the client opens streams and writes early data before the handshake completes; the server accepts early data (same TLS state) or rejects it (server TLS state replaced, optionally with smaller limits), with or without Retry; every subset pattern of the first 8 datagrams of the second connection may be dropped (seeded), plus random loss/duplication/reordering afterwards. Oracles: C17/C01 the server application sees every stream's bytes exactly once and in order whatever was sent early, nothing from a rejected attempt is visible in addition to the re-sent data, after rejection stream numbering restarts (the re-opened streams get the same ids) and the workload completes under the newly negotiated limits; C02 the handshake and the workload complete under fair loss; C05 the server never reports FLOW_CONTROL/STREAM_LIMIT errors against an honest client; non-trivial = the second connection really had 0-RTT keys and wrote early data";

pub fn zrtt(seed: u64, out: &mut Outcome) {
    let mut rng = Rng::new(seed ^ 0x02e7);
    let (tc, lim_c) = random_transport(&mut rng);
    let (mut ts, _) = random_transport(&mut rng);
    ts.max_concurrent_bidi_streams(VarInt::from_u32(*rng.pick(&[2u32, 100])));
    ts.max_concurrent_uni_streams(VarInt::from_u32(*rng.pick(&[2u32, 100])));
    let big_windows = rng.chance(1, 2);
    if big_windows {
        ts.receive_window(VarInt::from_u32(1_000_000));
        ts.stream_receive_window(VarInt::from_u32(500_000));
    }
    // a handshake that loses 7 of its first 8 datagrams backs the PTO off beyond the default idle timeout:
    // give the connection a long idle timeout so that an idle timeout is never the legitimate outcome
    let (mut tc, mut ts) = (tc, ts);
    for t in [&mut tc, &mut ts] {
        t.max_idle_timeout(Some(IdleTimeout::try_from(Duration::from_secs(600)).unwrap()));
    }
    let (mut sim, ccfg) = default_pair(seed, tc, ts);
    sim.net.latency_ns = *rng.pick(&[1_000_000u64, 10_000_000]);
    // ---- first connection: get a ticket
    let c1 = sim.connect(ccfg.clone());
    let mut w1 = Workload::new(seed);
    w1.ch[CLIENT] = Some(c1);
    let _ = sim.run_until(5_000_000_000, 20_000, |sim| {
        w1.tick(sim);
        sim.now > 300_000_000 && sim.nodes[CLIENT].conns[&c1].obs.confirmed
    });
    let now = sim.t();
    sim.conn(CLIENT, c1).close(now, VarInt::from_u32(0), Bytes::new());
    sim.time_cap = Some(sim.now + 5_000_000_000);
    let _ = sim.run_until(sim.now + 5_000_000_000, 20_000, |_| false);
    sim.time_cap = None;
    for n in 0..2 {
        for c in sim.nodes[n].conns.values_mut() {
            c.removed = true;
        }
    }
    sim.nodes[SERVER].accepted.clear();
    sim.fails.clear();
    sim.trace.clear();
    // ---- server for the second connection: same TLS state (accept) or replaced (reject)
    let reject = rng.chance(1, 3);
    if reject {
        let (mut ts2, _) = random_transport(&mut rng);
        ts2.max_idle_timeout(Some(IdleTimeout::try_from(Duration::from_secs(600)).unwrap()));
        // possibly smaller limits than the client remembers
        if rng.chance(1, 2) {
            ts2.receive_window(VarInt::from_u32(*rng.pick(&[2000u32, 10_000])));
            ts2.stream_receive_window(VarInt::from_u32(*rng.pick(&[1000u32, 5_000])));
        }
        ts2.max_concurrent_bidi_streams(VarInt::from_u32(*rng.pick(&[1u32, 2, 100])));
        ts2.max_concurrent_uni_streams(VarInt::from_u32(*rng.pick(&[1u32, 2, 100])));
        let clock = sim.clock.clone();
        let scfg = server_config(seed ^ 0x99, ts2, &clock);
        sim.nodes[SERVER].ep.set_server_config(Some(Arc::new(scfg)));
    }
    if rng.chance(1, 4) {
        sim.nodes[SERVER].policy = IncomingPolicy::Retry;
    }
    sim.net = random_net(&mut rng);
    sim.net.path_mtu = sim.net.path_mtu.max(1400);
    sim.net.corrupt_permille = 0;
    sim.net.truncate_permille = 0;
    // targeted loss among the first 8 datagrams of the second connection
    let drop_mask = rng.below(256);
    let counter = std::rc::Rc::new(std::cell::Cell::new(0u64));
    let c2 = counter.clone();
    sim.wire_filter = Some(Box::new(move |_d: &mut Dgram, _r: &mut Rng| {
        let i = c2.get();
        c2.set(i + 1);
        !(i < 8 && (drop_mask >> i) & 1 == 1)
    }));
    let mut w = Workload::new(seed ^ 5);
    let (npc, nps) = (1 + rng.below(4) as usize, rng.below(2) as usize);
    w.sides[CLIENT].plans = Workload::random_plans(&mut rng, npc, 60_000);
    w.sides[SERVER].plans = Workload::random_plans(&mut rng, nps, 20_000);
    let di = |d: quinn_proto::Dir| if d == quinn_proto::Dir::Bi { 0 } else { 1 };
    w.sides[SERVER].plans.retain(|p| lim_c[di(p.dir)] > 0);
    for s in 0..2 {
        w.sides[s].unordered_permille = *rng.pick(&[0u64, 500]);
    }
    let cch = sim.connect(ccfg);
    w.ch[CLIENT] = Some(cch);
    let had_0rtt = sim.conn(CLIENT, cch).has_0rtt();
    if had_0rtt {
        w.start_early(&mut sim, CLIENT, cch);
    }
    let early_written: u64 = w.sides[CLIENT].send.values().map(|s| s.written).sum();
    let end = sim.run_until(3_000_000_000_000, 300_000, |sim| {
        if w.ch[SERVER].is_none() {
            if let Some(&ch) = sim.nodes[SERVER].accepted.first() {
                w.ch[SERVER] = Some(ch);
            }
        }
        w.tick(sim);
        w.complete() && w.ch[SERVER].is_some()
    });
    let accepted = sim.conn(CLIENT, cch).accepted_0rtt();
    let connected = sim.nodes[CLIENT].conns[&cch].obs.connected;
    let lost_c = sim.nodes[CLIENT].conns[&cch].obs.lost.clone();
    let lost_s: Vec<String> = w.ch[SERVER].map(|s| sim.nodes[SERVER].conns[&s].obs.lost.clone()).unwrap_or_default();
    if !lost_c.is_empty() || !lost_s.is_empty() {
        // an honest pair must never end in a transport error
        let k = if format!("{lost_c:?}{lost_s:?}").contains("FLOW_CONTROL") { "flow-control-error-between-honest-peers" } else if format!("{lost_c:?}{lost_s:?}").contains("STREAM_LIMIT") { "flow-stream-limit-error-between-honest-peers" } else { "connection-lost-under-fair-loss" };
        sim.fail(k, format!("client {lost_c:?} server {lost_s:?} (0-RTT available {had_0rtt}, accepted {accepted}, reject configured {reject}, early bytes {early_written})"));
        w.final_check(&mut sim, false);
    } else {
        if !connected || w.ch[SERVER].is_none() {
            sim.fail("handshake-never-completed", format!("run ended {end:?} (0-RTT {had_0rtt}, reject {reject}, drop mask {drop_mask:#b})"));
        }
        w.final_check(&mut sim, connected);
        if reject && accepted {
            sim.fail("zero-rtt-accepted-by-a-server-that-lost-its-state", "client reports accepted_0rtt although the server TLS state was replaced".to_string());
        }
    }
    out.runs += 1;
    out.evaluations += sim.steps;
    if had_0rtt && early_written > 0 {
        out.nontrivial += 1;
    }
    out.count(&format!("end:{end:?}"), 1);
    out.count(if had_0rtt { "had-0rtt-keys" } else { "no-0rtt-keys" }, 1);
    out.count(if accepted { "0rtt-accepted" } else { "0rtt-not-accepted" }, 1);
    out.count("early-bytes-written", early_written);
    out.count("client-restarts-after-rejection", w.sides[CLIENT].restarts as u64);
    if out.samples.len() < 3 {
        out.samples.push(format!("seed {seed}: 0-RTT keys {had_0rtt}, early bytes {early_written}, reject configured {reject}, accepted {accepted}, drop mask {drop_mask:#010b}, plans {:?}, end {end:?} at {} ms", w.sides[CLIENT].plans.iter().map(|p| (p.len, p.chunk)).collect::<Vec<_>>(), sim.now / 1_000_000));
    }
    if std::env::var("VERIF_SIM_VERBOSE").is_ok() {
        let all = std::env::var("VERIF_SIM_VERBOSE").map_or(false, |v| v == "2");
        for r in sim.trace.iter().filter(|r| all || !matches!(r, Rec::Tx { .. })) {
            eprintln!("{r:?}");
        }
        for node in 0..2 {
            eprintln!("app node {node}: plans {:?} next {} send {:?} recv {:?}", w.sides[node].plans, w.sides[node].next_plan, w.sides[node].send, w.sides[node].recv.iter().map(|(k, v)| (*k, v.bytes, v.fin, v.unordered)).collect::<Vec<_>>());
            for (ch, nc) in sim.nodes[node].conns.iter().filter(|(_, c)| !c.removed) {
                eprintln!("node {node} conn {ch} stats {:?}\n   snapshot {:?}", nc.conn.stats(), nc.conn.verif_snapshot());
            }
        }
        eprintln!("net {:?} faults {:?}", sim.net, sim.faults);
    }
    for f in sim.fails.drain(..) {
        out.fails.push(format!("{f} seed={seed}"));
    }
}


pub const MTU_RULE: &str = "one execution = both peers with random initial_mtu {1200..1350}, MTU discovery bounds {1300..9000} / interval / black-hole cooldown / minimum_change, endpoint max_udp_payload_size {1200..65527}, controller, GSO batch 1..10; a network whose path MTU starts anywhere >= the initial_mtu values and changes 0..3 times at random instants to any value >= the min_mtu values (silently dropping larger datagrams), loss <= 3%; bulk workloads (streams up to 600 KB in large chunks, so the sender is window-limited when probes fall due) and datagrams; oracles: every datagram <= the MTU estimate of its time except one single probe, no probe above min(upper_bound, peer max_udp_payload_size), the estimate rises only to the size of a probe sent before (or initial_mtu), GSO segment count, and the workload completes after every shrink (black-hole fallback); non-trivial = >= 1 probe sent, >= 50 KB delivered and (an MTU rise or a shrink below the estimate)";

pub fn mtu(seed: u64, out: &mut Outcome) {
    let mut rng = Rng::new(seed ^ 0x3707);
    let mut rules = [MtuRule { initial: 1200, probe_cap: 0, peer_max_udp: 0 }; 2];
    let mut tcs = Vec::new();
    let mut min_mtus = [1200u16; 2];
    let mut upper = [0u16; 2];
    let mut dgram_buf = [0usize; 2];
    for side in 0..2 {
        let mut t = TransportConfig::default();
        let initial = *rng.pick(&[1200u16, 1200, 1280, 1350]);
        t.initial_mtu(initial);
        let min = if rng.chance(1, 3) { initial } else { 1200 };
        t.min_mtu(min);
        min_mtus[side] = min;
        let mut m = MtuDiscoveryConfig::default();
        upper[side] = *rng.pick(&[1300u16, 1452, 1452, 2000, 9000]);
        m.upper_bound(upper[side]);
        if rng.chance(1, 2) {
            m.interval(Duration::from_secs(*rng.pick(&[2u64, 5, 30])));
        }
        if rng.chance(1, 2) {
            m.black_hole_cooldown(Duration::from_secs(*rng.pick(&[1u64, 3, 10])));
        }
        if rng.chance(1, 3) {
            m.minimum_change(*rng.pick(&[5u16, 20, 64]));
        }
        if rng.chance(1, 8) {
            t.mtu_discovery_config(None);
        } else {
            t.mtu_discovery_config(Some(m));
        }
        match rng.below(3) {
            0 => {
                t.congestion_controller_factory(Arc::new(congestion::NewRenoConfig::default()));
            }
            1 => {
                t.congestion_controller_factory(Arc::new(congestion::BbrConfig::default()));
            }
            _ => {}
        }
        if rng.chance(1, 5) {
            t.enable_segmentation_offload(false);
        }
        t.max_idle_timeout(Some(IdleTimeout::try_from(Duration::from_secs(120)).unwrap()));
        dgram_buf[side] = *rng.pick(&[1500usize, 20_000, 1_048_576]);
        t.datagram_send_buffer_size(dgram_buf[side]);
        rules[side].initial = initial;
        tcs.push(t);
    }
    let ts = tcs.pop().unwrap();
    let tc = tcs.pop().unwrap();
    // endpoints with their own max_udp_payload_size (what the peer may probe up to)
    let mups = [*rng.pick(&[1200u16, 1350, 1472, 1472, 9000, 65527]), *rng.pick(&[1200u16, 1350, 1472, 1472, 9000, 65527])];
    let clock = SimClock(Arc::new(std::sync::Mutex::new(std::time::UNIX_EPOCH + Duration::from_secs(1_700_000_000))));
    let mut ecs = endpoint_config(seed ^ 1, 8, None);
    ecs.max_udp_payload_size(mups[SERVER]).unwrap();
    let mut ecc = endpoint_config(seed ^ 2, 8, None);
    ecc.max_udp_payload_size(mups[CLIENT]).unwrap();
    let server = quinn_proto::Endpoint::new(Arc::new(ecs), Some(Arc::new(server_config(seed, ts, &clock))), true);
    let client = quinn_proto::Endpoint::new(Arc::new(ecc), None, true);
    let mut sim = Sim::new(seed, client, server, clock);
    let ccfg = client_config(seed, tc);
    for side in 0..2 {
        rules[side].probe_cap = (upper[side] as usize).min(mups[1 - side] as usize);
        rules[side].peer_max_udp = mups[1 - side] as usize;
    }
    // a peer max_udp_payload_size below our initial_mtu lowers the estimate before the first transmit; a fresh
    // path then starts from that value, not from initial_mtu
    for side in 0..2 {
        rules[side].initial = rules[side].initial.min(mups[1 - side]);
    }
    sim.mtu_rules = Some(rules);
    sim.model_trace = true;
    sim.net.latency_ns = *rng.pick(&[1_000_000u64, 10_000_000, 40_000_000]);
    sim.net.jitter_ns = *rng.pick(&[0u64, 0, 1_000_000]);
    sim.net.drop_permille = *rng.pick(&[0u64, 0, 10, 30]);
    let floor_start = rules[0].initial.max(rules[1].initial) as usize;
    let floor_later = min_mtus[0].max(min_mtus[1]) as usize;
    let sizes = [1200usize, 1250, 1280, 1326, 1350, 1400, 1452, 1500, 2000, 4000, 9000, 65000];
    let pick_ge = |rng: &mut Rng, lo: usize| -> usize {
        let c: Vec<usize> = sizes.iter().copied().filter(|x| *x >= lo).collect();
        *rng.pick(&c)
    };
    sim.net.path_mtu = pick_ge(&mut rng, floor_start);
    let mut changes: Vec<(u64, usize)> = (0..rng.below(4)).map(|_| (rng.range(2, 400) * sim.net.latency_ns, pick_ge(&mut rng, floor_later))).collect();
    changes.sort();
    sim.nodes[CLIENT].max_datagrams = rng.range(1, 10) as usize;
    sim.nodes[SERVER].max_datagrams = rng.range(1, 10) as usize;
    let mut w = Workload::new(seed);
    let big = |rng: &mut Rng| Plan {
        dir: if rng.chance(1, 2) { quinn_proto::Dir::Bi } else { quinn_proto::Dir::Uni },
        len: rng.range(60_000, 600_000),
        chunk: *rng.pick(&[5000usize, 70000, 70000]),
        finish: true,
        reset_at: None,
    };
    w.sides[CLIENT].plans = (0..rng.range(1, 2)).map(|_| big(&mut rng)).collect();
    w.sides[SERVER].plans = (0..rng.below(2)).map(|_| big(&mut rng)).collect();
    for s in 0..2 {
        if rng.chance(1, 3) {
            for _ in 0..rng.below(6) {
                let len = rng.below(1150) as usize;
                w.sides[s].dgrams_to_send.push(rng.bytes(len));
            }
        }
    }
    let cch = sim.connect(ccfg);
    w.ch[CLIENT] = Some(cch);
    let mut shrinks_below = 0u64;
    let mut next_change = 0usize;
    let dgram_every = *rng.pick(&[0u64, 3, 7, 20]);
    let dgram_drop = rng.chance(1, 2);
    let mut dgram_seq = 0u64;
    let mut dgrams_accepted = 0u64;
    let end = sim.run_until(900_000_000_000, 600_000, |sim| {
        if w.ch[SERVER].is_none() {
            if let Some(&ch) = sim.nodes[SERVER].accepted.first() {
                w.ch[SERVER] = Some(ch);
            }
        }
        while next_change < changes.len() && sim.now >= changes[next_change].0 {
            let to = changes[next_change].1;
            let est = sim.nodes[CLIENT].conns[&cch].conn.current_mtu() as usize;
            if to < est {
                shrinks_below += 1;
            }
            sim.net.path_mtu = to;
            next_change += 1;
        }
        // C16: application datagrams of every size up to the reported maximum, all along (also while the path is
        // a black hole): send() accepts exactly what fits the reported maximum
        if dgram_every > 0 && sim.steps % dgram_every == 0 && dgram_seq < 4000 {
            for node in 0..2 {
                let Some(ch) = w.ch[node] else { continue };
                if sim.nodes[node].conns[&ch].conn.is_closed() || !sim.nodes[node].conns[&ch].obs.connected {
                    continue;
                }
                let mtu_now = sim.nodes[node].conns[&ch].conn.current_mtu() as usize;
                let Some(max) = sim.conn(node, ch).datagrams().max_size() else { continue };
                if max > mtu_now {
                    sim.fail("dgram-max-size-exceeds-mtu", format!("node {node}: datagrams().max_size() = {max} > current_mtu {mtu_now}"));
                }
                let len = match sim.rng.below(4) {
                    0 => max,
                    1 => max.saturating_sub(sim.rng.below(3) as usize),
                    2 => max + 1 + sim.rng.below(3) as usize,
                    _ => sim.rng.below(max as u64 + 1) as usize,
                };
                let mut d = sim.rng.bytes(len);
                // unique prefix so that the at-most-once matching of the receiver is exact
                dgram_seq += 1;
                for (i, b) in dgram_seq.to_be_bytes().iter().enumerate() {
                    if i < d.len() {
                        d[i] = *b;
                    }
                }
                let space = sim.conn(node, ch).datagrams().send_buffer_space();
                let r = sim.conn(node, ch).datagrams().send(d.clone().into(), dgram_drop);
                match r {
                    Ok(()) => {
                        dgrams_accepted += 1;
                        if len > max {
                            sim.fail("dgram-send-accepted-oversized", format!("node {node}: send() accepted {len} bytes, max_size() = {max}"));
                        }
                        w.sides[node].dgrams_sent.push(d);
                    }
                    Err(quinn_proto::SendDatagramError::TooLarge) => {
                        // a datagram larger than the whole send buffer is also reported as TooLarge
                        if len <= max && len <= dgram_buf[node] {
                            sim.fail("dgram-send-rejected-fitting", format!("node {node}: send() said TooLarge for {len} bytes, max_size() = {max}, send buffer {}", dgram_buf[node]));
                        }
                    }
                    Err(quinn_proto::SendDatagramError::Blocked(_)) => {
                        if dgram_drop {
                            sim.fail("dgram-blocked-with-drop", format!("node {node}: send(drop = true) returned Blocked"));
                        }
                        if len <= space {
                            sim.fail("dgram-blocked-with-space", format!("node {node}: send() blocked for {len} bytes although send_buffer_space() = {space}"));
                        }
                    }
                    Err(_) => {}
                }
            }
        }
        w.tick(sim);
        w.complete() && w.ch[SERVER].is_some()
    });
    let connected = sim.nodes[CLIENT].conns[&cch].obs.connected;
    let lost_c = sim.nodes[CLIENT].conns[&cch].obs.lost.clone();
    // C16: once everything else is done, nothing may remain in a datagram send queue for ever
    if connected && lost_c.is_empty() && w.complete() && end == RunEnd::Done && dgram_every > 0 {
        let t_end = sim.now + 30_000_000_000;
        sim.time_cap = Some(t_end);
        let _ = sim.run_until(t_end, 200_000, |sim| {
            w.tick(sim);
            false
        });
        sim.time_cap = None;
        for node in 0..2 {
            if let Some(ch) = w.ch[node] {
                let sn = sim.snap(node, ch);
                if sn.state == "established" && sn.dgram_out_len != 0 {
                    let max = sim.conn(node, ch).datagrams().max_size();
                    sim.fail("dgram-stuck-in-send-queue", format!("node {node}: {} datagrams ({} bytes) still queued 30 s after the workload completed with nothing in flight; max_size() = {max:?}, current_mtu {}", sn.dgram_out_len, sn.dgram_out_total, sn.path.current_mtu));
                }
            }
        }
    }
    if connected && (!lost_c.is_empty() || !w.complete()) && w.ch[SERVER].is_some() {
        sim.fail(
            "mtu-blackhole-no-recovery",
            format!("workload incomplete / connection lost ({lost_c:?}) with path MTU {} (changes {changes:?}), estimates c={} s={}; end {end:?}", sim.net.path_mtu, sim.nodes[CLIENT].conns[&cch].conn.current_mtu(), w.ch[SERVER].map_or(0, |ch| sim.nodes[SERVER].conns[&ch].conn.current_mtu())),
        );
    }
    w.final_check(&mut sim, false);
    out.runs += 1;
    out.evaluations += sim.steps;
    let bytes: u64 = w.sides.iter().map(|s| s.recv.values().map(|r| r.bytes).sum::<u64>()).sum();
    let mut probes = 0;
    let mut rises = 0;
    for node in 0..2 {
        for nc in sim.nodes[node].conns.values() {
            probes += nc.obs.oversize_sent;
            rises += nc.obs.mtu_rises;
        }
    }
    if probes > 0 && bytes >= 50_000 && (rises > 0 || shrinks_below > 0) {
        out.nontrivial += 1;
    }
    out.count(&format!("end:{end:?}"), 1);
    out.count("probes-sent", probes);
    out.count("mtu-rises", rises);
    out.count("path-shrinks-below-estimate", shrinks_below);
    out.count("path-mtu-changes", changes.len() as u64);
    out.count("stream-bytes-read", bytes);
    out.count("app-datagrams-accepted", dgrams_accepted);
    out.count("black-holes-detected", sim.nodes.iter().flat_map(|n| n.conns.values()).map(|nc| nc.conn.stats().path.black_holes_detected).sum());
    for (k, v) in &sim.faults {
        out.count(&format!("fault:{k}"), *v);
    }
    if out.samples.len() < 2 {
        out.samples.push(format!("seed {seed}: rules {rules:?} path_mtu changes {changes:?}; end {end:?} at t={}ms; probes {probes} rises {rises} bytes {bytes}", sim.now / 1_000_000));
    }
    if std::env::var("VERIF_SIM_VERBOSE").is_ok() {
        eprintln!("--- seed {seed}: end {end:?} net {:?} rules {rules:?} changes {changes:?}", sim.net);
        for node in 0..2 {
            for (ch, nc) in &sim.nodes[node].conns {
                eprintln!("node {node} conn {ch}: obs lost {:?} probes {:?} stats {:?}", nc.obs.lost, nc.obs.probe_sizes, nc.conn.stats().path);
            }
        }
    }
    for f in sim.fails.drain(..) {
        out.fails.push(format!("{f} seed={seed}"));
    }
    out.take_trace(seed, &mut sim);
}


pub const HOSTILE_RULE: &str = "one execution = one endpoint pair, a bystander connection B that completes its handshake undisturbed and then transfers, and a victim connection A opened afterwards; from then on an attacker injects 20..400 unauthenticated datagrams at random instants into either endpoint, from the genuine peer address or a foreign one: random bytes of every length 0..64 and boundary lengths up to 1500 with long/short first byte, and structure-aware mutations of genuine datagrams seen on the wire (version 0/1/grease/random, DCID/SCID length bytes 0/1/20/21/255, token-length and Length varints 0/1/past-the-end/2^62-1, packet type and fixed bit, truncation at every header boundary and at random, coalescing with another genuine or garbage datagram, bit flips); in half of the executions only datagrams of A are mutated; oracles: no panic anywhere in Endpoint::handle / Connection::{handle_event,handle_timeout,poll_transmit,poll} (C03); when only A is attacked, B is never lost and completes its workload with intact content (C03: other connections unaffected); in every execution no connection that the client had seen established is lost and both complete, and A may fail before that only by a (forged) Version Negotiation (C04: forged packets are discarded without effect); the number of server connections stays <= 2 + attack datagrams; bounded steps; non-trivial = both handshakes completed and >= 20 hostile datagrams were processed";

/// (long packet type, total length of the packet) of the long-header packet at the start of `d`.
fn long_packet_len(d: &[u8]) -> Option<(u8, usize)> {
    fn varint(d: &[u8], at: usize) -> Option<(u64, usize)> {
        let b = *d.get(at)?;
        let n = 1usize << (b >> 6);
        let mut v = (b & 0x3f) as u64;
        for i in 1..n {
            v = (v << 8) | *d.get(at + i)? as u64;
        }
        Some((v, n))
    }
    let ty = (d.first()? >> 4) & 3;
    let dl = *d.get(5)? as usize;
    let sl = *d.get(6 + dl)? as usize;
    let mut at = 7 + dl + sl;
    if ty == 3 {
        return None;
    }
    if ty == 0 {
        let (tl, n) = varint(d, at)?;
        at += n + tl as usize;
    }
    let (len, n) = varint(d, at)?;
    Some((ty, at + n + len as usize))
}

fn varint_bytes(v: u64) -> Vec<u8> {
    if v < 64 {
        vec![v as u8]
    } else if v < 16384 {
        (0x4000u16 | v as u16).to_be_bytes().to_vec()
    } else if v < (1 << 30) {
        (0x8000_0000u32 | v as u32).to_be_bytes().to_vec()
    } else {
        (0xc000_0000_0000_0000u64 | v).to_be_bytes().to_vec()
    }
}

/// Structure-aware mutation of a genuine datagram.
pub fn hostile_mutate(rng: &mut Rng, g: &[u8], other: &[u8]) -> (Vec<u8>, &'static str) {
    let mut d = g.to_vec();
    if d.is_empty() {
        return (vec![0xc0], "empty");
    }
    let long = d[0] & 0x80 != 0;
    // header boundaries of a long header
    let mut bounds = vec![1usize];
    let mut tok_at = None;
    let mut len_at = None;
    if long && d.len() >= 7 {
        bounds.push(5);
        let dl = d[5] as usize;
        bounds.push(6);
        let so = 6 + dl;
        bounds.push(so);
        if so < d.len() {
            let sl = d[so] as usize;
            let after = so + 1 + sl;
            bounds.push(so + 1);
            bounds.push(after);
            let ty = (d[0] >> 4) & 3;
            if after < d.len() {
                if ty == 0 {
                    tok_at = Some(after);
                    let tl_len = 1usize << (d[after] >> 6);
                    let mut tl = (d[after] & 0x3f) as u64;
                    for i in 1..tl_len {
                        tl = (tl << 8) | *d.get(after + i).unwrap_or(&0) as u64;
                    }
                    let la = after + tl_len + tl as usize;
                    bounds.push(after + tl_len);
                    if la < d.len() {
                        len_at = Some(la);
                        bounds.push(la);
                    }
                } else if ty != 3 {
                    len_at = Some(after);
                }
            }
        }
    }
    let bounds: Vec<usize> = bounds.into_iter().filter(|b| *b <= d.len()).collect();
    let huge = [0u64, 1, 2, 63, 64, 1199, 16383, 16384, (1 << 30) - 1, 1 << 30, (1u64 << 62) - 1];
    match rng.below(12) {
        0 if long && d.len() >= 5 => {
            let v: u32 = *rng.pick(&[0u32, 1, 2, 0xff00_001d, 0x0a1a_2a3a, 0xffff_ffff, 0x6b33_43cf]);
            d[1..5].copy_from_slice(&v.to_be_bytes());
            (d, "version")
        }
        1 if long && d.len() >= 6 => {
            d[5] = *rng.pick(&[0u8, 1, 7, 9, 20, 21, 255]);
            (d, "dcid-len")
        }
        2 if long && d.len() >= 7 => {
            let so = 6 + d[5] as usize;
            if so < d.len() {
                d[so] = *rng.pick(&[0u8, 1, 7, 9, 20, 21, 255]);
            }
            (d, "scid-len")
        }
        3 if tok_at.is_some() => {
            let at = tok_at.unwrap();
            let old = 1usize << (d[at] >> 6);
            let nv = varint_bytes(*rng.pick(&huge));
            d.splice(at..(at + old).min(d.len()), nv);
            (d, "token-len")
        }
        4 if len_at.is_some() => {
            let at = len_at.unwrap();
            let old = 1usize << (d[at] >> 6);
            let nv = varint_bytes(*rng.pick(&huge));
            d.splice(at..(at + old).min(d.len()), nv);
            (d, "length")
        }
        5 => {
            d[0] ^= *rng.pick(&[0x80u8, 0x40, 0x30, 0x10, 0x20, 0x0c, 0x04, 0x03, 0x01]);
            (d, "first-byte")
        }
        6 => {
            let b = *rng.pick(&bounds);
            d.truncate(b);
            (d, "truncate-boundary")
        }
        7 => {
            let n = rng.below(d.len() as u64) as usize;
            d.truncate(n);
            (d, "truncate")
        }
        8 => {
            d.extend_from_slice(other);
            (d, "coalesce-genuine")
        }
        9 => {
            let n = rng.below(80) as usize;
            d.extend(rng.bytes(n));
            (d, "append-garbage")
        }
        10 => {
            // a shorter Length so that the tail is parsed as a second (garbage) packet
            if let Some(at) = len_at {
                let old = 1usize << (d[at] >> 6);
                let nv = varint_bytes(rng.below(40));
                d.splice(at..(at + old).min(d.len()), nv);
            }
            (d, "length-short")
        }
        _ => {
            let k = 1 + rng.below(4);
            for _ in 0..k {
                let i = rng.below(d.len() as u64) as usize;
                d[i] ^= 1 << rng.below(8);
            }
            (d, "bitflip")
        }
    }
}

pub fn hostile(seed: u64, out: &mut Outcome) {
    let mut rng = Rng::new(seed ^ 0x4057);
    let (mut tc, lim_c) = random_transport(&mut rng);
    let (mut ts, lim_s) = random_transport(&mut rng);
    // no idle timeout: a connection that has finished its workload may legitimately sit idle while the other works
    tc.max_idle_timeout(None);
    ts.max_idle_timeout(None);
    let (mut sim, ccfg) = default_pair(seed, tc, ts);
    sim.keep_history = true;
    // the amplification ledger of the simulator is per peer address; here two connections share one
    sim.check_amp = false;
    sim.net.latency_ns = *rng.pick(&[1_000_000u64, 10_000_000]);
    sim.net.path_mtu = 65000;
    sim.nodes[CLIENT].max_datagrams = rng.range(1, 10) as usize;
    sim.nodes[SERVER].max_datagrams = rng.range(1, 10) as usize;
    if rng.chance(1, 4) {
        sim.nodes[SERVER].policy = IncomingPolicy::Retry;
    }
    let di = |d: quinn_proto::Dir| if d == quinn_proto::Dir::Bi { 0 } else { 1 };
    let mut ws: Vec<Workload> = Vec::new();
    for k in 0..2u64 {
        let mut w = Workload::new(seed ^ (k << 20));
        let (nc, ns) = (1 + rng.below(3) as usize, rng.below(2) as usize);
        w.sides[CLIENT].plans = Workload::random_plans(&mut rng, nc, 150_000);
        w.sides[SERVER].plans = Workload::random_plans(&mut rng, ns, 60_000);
        w.sides[CLIENT].plans.retain(|p| lim_s[di(p.dir)] > 0);
        w.sides[SERVER].plans.retain(|p| lim_c[di(p.dir)] > 0);
        ws.push(w);
    }
    let mut wa = ws.pop().unwrap();
    let mut wb = ws.pop().unwrap();
    let bch = sim.connect(ccfg.clone());
    wb.ch[CLIENT] = Some(bch);
    let n_attack = rng.range(20, 400);
    let mut injected = 0u64;
    let mut kinds: BTreeMap<&'static str, u64> = BTreeMap::new();
    let mut ach: Option<usize> = None;
    let mut a_established_at: Option<u64> = None;
    let every = rng.range(1, 3);
    let only_a = rng.chance(1, 2);
    let mut late_retries_left = rng.below(3);
    let mut late_retries = 0u64;
    let mut vn_retry = crate::scen_vnretry::VnAfterRetry::new(seed);
    let retry_crypto = server_config(0, TransportConfig::default(), &SimClock(Arc::new(std::sync::Mutex::new(std::time::UNIX_EPOCH)))).crypto;
    let caddr = sim.nodes[CLIENT].addr;
    let saddr = sim.nodes[SERVER].addr;
    let small: Vec<usize> = (0..=64).collect();
    let end = sim.run_until(600_000_000_000, 500_000, |sim| {
        if wb.ch[SERVER].is_none() {
            if let Some(&ch) = sim.nodes[SERVER].accepted.first() {
                wb.ch[SERVER] = Some(ch);
            }
        }
        let b_up = sim.nodes[CLIENT].conns[&bch].obs.connected && wb.ch[SERVER].is_some();
        if b_up && ach.is_none() {
            let ch = sim.connect(ccfg.clone());
            wa.ch[CLIENT] = Some(ch);
            ach = Some(ch);
            if late_retries_left > 0 {
                // keep A's client between "processed the server's Initial" and "established" for a probe timeout:
                // the server's first datagram that starts with a Handshake packet arrives with a damaged tail once
                let mut done = false;
                sim.wire_filter = Some(Box::new(move |d: &mut Dgram, _r: &mut Rng| {
                    if !done && d.origin == SERVER {
                        // walk the coalesced long-header packets; damage the last byte of the first Handshake packet
                        let mut off = 0usize;
                        while off < d.data.len() && d.data[off] & 0x80 != 0 {
                            let Some((ty, len)) = long_packet_len(&d.data[off..]) else { break };
                            if ty == 2 && len > 0 && off + len <= d.data.len() {
                                d.data[off + len - 1] ^= 0x01;
                                d.genuine = false;
                                done = true;
                                break;
                            }
                            off += len.max(1);
                        }
                    }
                    true
                }));
            }
        }
        if let Some(ch) = ach {
            if wa.ch[SERVER].is_none() {
                // A's server side = the accepted connection (other than B's) whose handshake completes: replays of
                // genuine Initials may create further server connections that nobody answers
                let cand = sim.nodes[SERVER].accepted.iter().copied().find(|c| Some(*c) != wb.ch[SERVER] && sim.nodes[SERVER].conns.get(c).is_some_and(|nc| nc.obs.connected));
                if let Some(sch) = cand {
                    wa.ch[SERVER] = Some(sch);
                }
            }
            if a_established_at.is_none() && sim.nodes[CLIENT].conns[&ch].obs.connected {
                a_established_at = Some(sim.now);
            }
            vn_retry.tick(sim, ch, caddr, saddr);
            // C14: a Retry with a VALID integrity tag (anyone who sees the CIDs can compute it) that reaches the
            // client after it has already processed a server packet must be discarded
            if late_retries_left > 0 && a_established_at.is_none() {
                let sn = sim.snap(CLIENT, ch);
                if sn.state == "handshake" && sn.total_authed_packets > 0 {
                    // the CIDs the client currently uses, from its latest long-header datagram
                    let last = (0..sim.history.len()).rev().find(|i| sim.history[*i].origin == CLIENT && sim.history_ch[*i] == Some(ch) && sim.history[*i].data.len() > 7 && sim.history[*i].data[0] & 0x80 != 0);
                    if let Some(i) = last {
                        let g = sim.history[i].data.clone();
                        let dl = g[5] as usize;
                        if g.len() > 7 + dl {
                            let dcid = g[6..6 + dl].to_vec();
                            let sl = g[6 + dl] as usize;
                            if g.len() >= 7 + dl + sl && dl <= 20 {
                                let scid = g[7 + dl..7 + dl + sl].to_vec();
                                let mut pkt = vec![0xf0 | (sim.rng.below(16) as u8)];
                                pkt.extend_from_slice(&1u32.to_be_bytes());
                                pkt.push(scid.len() as u8);
                                pkt.extend_from_slice(&scid);
                                let newcid = sim.rng.bytes(8);
                                pkt.push(8);
                                pkt.extend_from_slice(&newcid);
                                pkt.extend(sim.rng.bytes(16));
                                let tag = retry_crypto.retry_tag(1, quinn_proto::ConnectionId::new(&dcid), &pkt);
                                pkt.extend_from_slice(&tag);
                                late_retries_left -= 1;
                                late_retries += 1;
                                *kinds.entry("late-valid-retry").or_default() += 1;
                                let at = sim.now;
                                sim.handle_datagram(CLIENT, Dgram { at, seq: 0, from: saddr, to: caddr, ecn: None, data: pkt, origin: usize::MAX, genuine: false });
                            }
                        }
                    }
                }
            }
            // the attacker
            if injected < n_attack && sim.steps % every == 0 {
                injected += 1;
                let to_server = sim.rng.chance(2, 3);
                let spoof = sim.rng.chance(2, 3);
                let (to, from) = if to_server { (saddr, if spoof { caddr } else { addr(53000 + sim.rng.below(3) as u16) }) } else { (caddr, if spoof { saddr } else { addr(54000 + sim.rng.below(3) as u16) }) };
                // a copy of the newest client long-header datagram with a damaged AEAD tag that overtakes the original
                // (still on the wire): the first packet of an attempt — with or without a Retry token — fails
                // authentication inside Endpoint::accept, and the genuine copy must still get through afterwards
                let racing = if to_server && sim.rng.chance(1, 4) {
                    (0..sim.history.len()).rev().find(|i| sim.history[*i].origin == CLIENT && sim.history[*i].data.first().is_some_and(|b| b & 0x80 != 0)).filter(|i| sim.history_at[*i] + sim.net.latency_ns > sim.now)
                } else {
                    None
                };
                let from = if racing.is_some() { caddr } else { from };
                let (data, kind) = if let Some(i) = racing {
                    let mut g = sim.history[i].data.clone();
                    let n = g.len();
                    let k = 1 + sim.rng.below(16) as usize;
                    g[n - k.min(n)] ^= 0x10;
                    (g, "race-damaged-tag")
                } else if sim.history.is_empty() || sim.rng.chance(1, 3) {
                    let len = if sim.rng.chance(2, 3) { *sim.rng.pick(&small) } else { *sim.rng.pick(&[100usize, 1199, 1200, 1201, 1452, 1500]) };
                    let mut data = sim.rng.bytes(len);
                    if len > 0 {
                        match sim.rng.below(4) {
                            0 => data[0] = 0x40 | (data[0] & 0x3f),
                            1 => data[0] |= 0xc0,
                            2 => data[0] = 0x80 | (data[0] & 0x3f),
                            _ => {}
                        }
                        // half of the long-header garbage carries a plausible version
                        if data[0] & 0x80 != 0 && len >= 5 && sim.rng.chance(1, 2) {
                            data[1..5].copy_from_slice(&1u32.to_be_bytes());
                        }
                    }
                    (data, "random")
                } else {
                    // mutate a genuine datagram that travelled in the chosen direction
                    let want = if to_server { CLIENT } else { SERVER };
                    // B's handles: client side `bch`, server side wb.ch[SERVER]
                    let b_handle = if want == CLIENT { Some(bch) } else { wb.ch[SERVER] };
                    // a mutation may leave a genuine packet intact, i.e. act as a replay: from a foreign address only
                    // datagrams the network has already delivered are used ("replays at any later time"); racing
                    // the genuine copy from another address is an on-path relay, which QUIC does not defend against
                    let old_enough = sim.now.saturating_sub(3 * sim.net.latency_ns + 1);
                    let foreign = from != caddr && from != saddr;
                    let cands: Vec<usize> = (0..sim.history.len()).filter(|i| sim.history[*i].origin == want && !(foreign && sim.history_at[*i] > old_enough) && !(only_a && (sim.history_ch[*i].is_none() || sim.history_ch[*i] == b_handle))).collect();
                    if cands.is_empty() {
                        (vec![0x40], "random")
                    } else {
                        let i = cands[sim.rng.below(cands.len() as u64) as usize];
                        let j = cands[sim.rng.below(cands.len() as u64) as usize];
                        let g = sim.history[i].data.clone();
                        let o = sim.history[j].data.clone();
                        let mut r2 = Rng::new(sim.rng.next());
                        hostile_mutate(&mut r2, &g, &o)
                    }
                };
                *kinds.entry(kind).or_default() += 1;
                let node = if to_server { SERVER } else { CLIENT };
                let at = sim.now;
                sim.handle_datagram(node, Dgram { at, seq: 0, from, to, ecn: None, data, origin: usize::MAX, genuine: false });
            }
        }
        wb.tick(sim);
        if ach.is_some() {
            wa.tick(sim);
        }
        wb.complete() && wb.ch[SERVER].is_some() && ach.is_some_and(|ch| !sim.nodes[CLIENT].conns[&ch].obs.lost.is_empty() || (a_established_at.is_some() && wa.complete() && wa.ch[SERVER].is_some()))
    });
    // oracles
    let lost_b = sim.nodes[CLIENT].conns[&bch].obs.lost.clone();
    let b_connected = sim.nodes[CLIENT].conns[&bch].obs.connected;
    let lost_bs = wb.ch[SERVER].map(|sch| sim.nodes[SERVER].conns[&sch].obs.lost.clone()).unwrap_or_default();
    if b_connected && (!lost_b.is_empty() || !lost_bs.is_empty()) {
        let key = if only_a { "hostile-bystander-lost" } else { "forged-packet-ended-connection" };
        sim.fail(key, format!("connection B (established before the attack) lost: client {lost_b:?} server {lost_bs:?} after {injected} hostile datagrams (only A attacked: {only_a})"));
    }
    if b_connected && lost_b.is_empty() && lost_bs.is_empty() {
        wb.final_check(&mut sim, false);
        if !wb.complete() {
            let key = if only_a { "hostile-bystander-incomplete" } else { "forged-packets-stalled-connection" };
            sim.fail(key, format!("workload of B incomplete at end {end:?} (t={} ms, {injected} hostile datagrams)", sim.now / 1_000_000));
        }
    }
    let mut a_up = false;
    if let Some(ch) = ach {
        let lost_a = sim.nodes[CLIENT].conns[&ch].obs.lost.clone();
        let lost_as = wa.ch[SERVER].map(|sch| sim.nodes[SERVER].conns[&sch].obs.lost.clone()).unwrap_or_default();
        a_up = a_established_at.is_some();
        vn_retry.judge(&mut sim, &lost_a);
        if a_up && (!lost_a.is_empty() || !lost_as.is_empty()) {
            sim.fail("forged-packet-ended-connection", format!("connection A was established at {} ns and then lost: client {lost_a:?} server {lost_as:?}", a_established_at.unwrap()));
        }
        if late_retries > 0 && !a_up {
            sim.fail("forged-retry-after-server-packet-derailed-handshake", format!("{late_retries} Retry packet(s) with a valid integrity tag reached the client after it had processed a server packet; the handshake then never completed (client {lost_a:?})"));
        }
        if !a_up && !lost_a.is_empty() && !lost_a.iter().all(|l| l.contains("VersionMismatch")) {
            sim.fail("forged-packet-ended-handshake", format!("connection A failed during its handshake under unauthenticated injection: {lost_a:?}"));
        }
        if a_up && lost_a.is_empty() && lost_as.is_empty() {
            wa.final_check(&mut sim, false);
            if !wa.complete() {
                sim.fail("forged-packets-stalled-connection", format!("workload of A incomplete at end {end:?} although the connection stayed up"));
            }
        }
    }
    let sconns = sim.nodes[SERVER].conns.len() as u64;
    if sconns > 2 + injected {
        sim.fail("hostile-connection-table-growth", format!("{sconns} server connections for 2 clients and {injected} hostile datagrams"));
    }
    out.runs += 1;
    out.evaluations += sim.steps + injected;
    if b_connected && a_up && injected >= 20 {
        out.nontrivial += 1;
    }
    out.count(&format!("end:{end:?}"), 1);
    out.count("hostile-datagrams", injected);
    out.count("victim-established", a_up as u64);
    out.count("late-valid-retries", late_retries);
    out.count("version-negotiation-after-followed-retry", vn_retry.injected);
    out.count("server-connections", sconns);
    for (k, v) in &kinds {
        out.count(&format!("mutation:{k}"), *v);
    }
    if out.samples.len() < 2 {
        out.samples.push(format!("seed {seed}: {injected} hostile datagrams {kinds:?}; end {end:?} at t={}ms; server connections {sconns}; victim established {a_up}", sim.now / 1_000_000));
    }
    if std::env::var("VERIF_SIM_VERBOSE").is_ok() {
        eprintln!("--- seed {seed}: end {end:?} kinds {kinds:?}");
        for (n, w) in [("A", &wa), ("B", &wb)] {
            for node in 0..2 {
                eprintln!("app {n} node {node}: ch {:?} plans {:?} send {:?} recv {:?}", w.ch[node], w.sides[node].plans, w.sides[node].send, w.sides[node].recv.iter().map(|(k, r)| (*k, r.bytes, r.fin)).collect::<Vec<_>>());
            }
        }
        for node in 0..2 {
            for (ch, nc) in &sim.nodes[node].conns {
                eprintln!("node {node} conn {ch}: lost {:?} stats {:?}", nc.obs.lost, nc.conn.stats().path);
                eprintln!("   snapshot {:?}", nc.conn.verif_snapshot());
                eprintln!("   frames rx {:?} tx {:?}", nc.conn.stats().frame_rx, nc.conn.stats().frame_tx);
            }
        }
        if std::env::var("VERIF_SIM_VERBOSE").map_or(false, |v| v == "2") {
            for r in sim.trace.iter().take(600) {
                eprintln!("{r:?}");
            }
        }
    }
    for f in sim.fails.drain(..) {
        out.fails.push(format!("{f} seed={seed}"));
    }
}

/// Scenario `frames` (C03): hostile *authenticated* peer injecting arbitrary frames; see `crate::frames`.
pub fn frames(seed: u64, out: &mut Outcome) {
    crate::frames::frames(seed, out)
}
