//! op classes of the loss-recovery components: `sentpk`, `cc`, `mtud` (see opclass.rs for the classes).
//! The real call sites named are in quinn-proto/src/connection/mod.rs unless said otherwise; the long
//! version of the reasoning is in the NOTES of the `panics` delivery (group `recovery`).
use crate::opclass::*;

pub fn tracker(comp: &str) -> Option<Box<dyn Tracker>> {
    Some(match comp {
        "sentpk" => Box::new(Sentpk::default()),
        "cc" => Box::new(Cc::default()),
        "mtud" => Box::new(Mtud::default()),
        _ => return None,
    })
}

/// size of one packet (`SentPacket::size` is a u16)
const PKT_MAX: u64 = 65535;
/// Aggregate byte counts (`PathData::in_flight.bytes`, `size_of_lost_packets`): sums of u16 sizes of packets
/// that are all in the sent-packet table at the same time; 2^48 would need 2^32 tracked packets.
const AGG_MAX: u64 = 1 << 48;
/// One `poll_transmit` batch (`buf.len()`): bounded by the caller's buffer, `max_datagrams * segment_size`
/// and the congestion window; 4 GiB is far beyond any batch (quinn itself asks for at most 10 segments).
const BATCH_MAX: u64 = 1 << 32;
/// smallest MTU any real caller can pass (INITIAL_MTU; config setters clamp, transport parameters < 1200
/// are rejected by `TransportParameters::read`)
const MIN_MTU: u64 = 1200;

fn flag(w: &[&str], i: usize) -> Option<bool> {
    match *w.get(i)? {
        "0" => Some(false),
        "1" => Some(true),
        _ => None,
    }
}

fn field(resp: &str, key: &str) -> Option<u64> {
    resp.split_ascii_whitespace()
        .find_map(|t| t.strip_prefix(key)?.strip_prefix('=')?.parse().ok())
}

// =====================================================================================================
// sentpk: SentPackets ring, PacketSpace::{sent,take}, PathData::{sent,remove_in_flight}
// =====================================================================================================

/// Ghost state: per space the largest packet number inserted, the `unacked_non_ack_eliciting_tail` last
/// printed (`t=`), whether the space was discarded with a stale tail; whether the case used the raw ring
/// ops and/or the accounting ops (the two must not be mixed: raw ops bypass the counters).
#[derive(Default)]
struct Sentpk {
    max_pn: [Option<u64>; 3],
    tail: [u64; 3],
    dead: [bool; 3],
    raw: bool,
    acct: bool,
}

impl Sentpk {
    fn sp(w: &[&str]) -> Option<usize> {
        n(w, 2).filter(|s| *s < 3).map(|s| s as usize)
    }
    fn pn(w: &[&str], i: usize) -> Option<u64> {
        n(w, i).filter(|p| *p <= VARINT_MAX)
    }
    fn fresh(&self, sp: usize, p: u64) -> bool {
        self.max_pn[sp].map_or(true, |m| p > m)
    }
}

fn bound_ok(s: &str) -> Option<bool> {
    if s == "u" {
        return Some(true);
    }
    let v: u64 = s.get(1..)?.parse().ok()?;
    matches!(s.as_bytes()[0], b'i' | b'e').then_some(v <= VARINT_MAX)
}

impl Tracker for Sentpk {
    fn classify(&mut self, w: &[&str]) -> Class {
        let Some(op) = w.get(1).copied() else { return Class::Contract };
        let Some(sp) = Self::sp(w) else { return Class::Contract };
        match (op, w.len()) {
            // Local: PacketBuilder::finish_and_track -> PathData::sent(exact_number, SentPacket{size: u16,
            //   ack_eliciting, path_generation: self.path.generation}). Packet numbers of a space strictly
            //   increase and are < 2^62; an ack-eliciting packet has size = its length > 0; the packet carries the
            //   generation of the path that accounts for it (the executor's only path has generation 0).
            // Contract: non-increasing number (SentPackets::insert debug_assert), foreign generation, ack-eliciting
            //   with size 0, any send after raw ring pokes, sends in a space discarded with a stale tail counter.
            ("sent", 7) => {
                let (Some(p), Some(size), Some(ae), Some(g)) = (Self::pn(w, 3), n(w, 4), flag(w, 5), n(w, 6)) else {
                    return Class::Contract;
                };
                let ok = size <= PKT_MAX && g == 0 && !(ae && size == 0) && self.fresh(sp, p) && !self.raw && !self.dead[sp];
                when(ok, Class::Local)
            }
            // Local: `n` consecutive non-ack-eliciting packets through PathData::sent (a receiver that only ever
            //   sends ACK-only packets); same conditions as `sent`; n in 1..=1500 (else bad-op).
            ("burst", 7) => {
                let (Some(p), Some(cnt), Some(size), Some(g)) = (Self::pn(w, 3), n(w, 4), n(w, 5), n(w, 6)) else {
                    return Class::Contract;
                };
                let ok = size <= PKT_MAX && g == 0 && (1..=1500).contains(&cnt) && p + cnt - 1 <= VARINT_MAX
                    && self.fresh(sp, p) && !self.raw && !self.dead[sp];
                when(ok, Class::Local)
            }
            // Peer: on_ack_received (newly acked numbers of an ACK frame, < 2^62 by the varint decoder) and
            //   detect_lost_packets: PacketSpace::take + PathData::remove_in_flight. A number that is not outstanding
            //   is a no-op of `take` (the real callers pre-filter with `sent_packets.range`, Retry calls `take(0)`
            //   unconditionally). Contract after raw ring pokes (packets that were never counted) / in a dead space.
            ("ack" | "lost", l) if (4..=67).contains(&l) => {
                let ok = (3..l).all(|i| Self::pn(w, i).is_some()) && !self.raw && !self.dead[sp];
                when(ok, Class::Peer)
            }
            // Peer: discard_space(Initial|Handshake) on handshake progress / Retry; for the Data space the
            //   `mem::take(sent_packets)` of a Retry or of a 0-RTT rejection, where every tracked packet is an
            //   ack-eliciting 0-RTT packet, i.e. the non-ack-eliciting tail counter is 0. The real code does not
            //   reset `unacked_non_ack_eliciting_tail`; for Initial/Handshake nothing is sent in the space afterwards
            //   (Retry installs a fresh PacketSpace), which the executor cannot express: with a non-zero tail the
            //   space is dead for the rest of the case, and for the Data space the call is Contract.
            ("discard", 3) => {
                if self.raw || self.dead[sp] || (sp == 2 && self.tail[sp] != 0) {
                    return Class::Contract;
                }
                Class::Peer
            }
            // Local: SentPackets::insert alone = the ring effect of PacketSpace::sent (documented precondition: the
            //   number exceeds every number inserted before). Contract if not increasing, or mixed with accounting ops.
            ("rinsert", 7) => {
                let (Some(p), Some(size), Some(_), Some(_)) = (Self::pn(w, 3), n(w, 4), flag(w, 5), n(w, 6)) else {
                    return Class::Contract;
                };
                when(size <= PKT_MAX && self.fresh(sp, p) && !self.acct, Class::Local)
            }
            // Peer: SentPackets::remove alone = the ring effect of PacketSpace::take (ack / loss of any number).
            ("rremove", 4) => when(Self::pn(w, 3).is_some() && !self.acct, Class::Peer),
            // Local: pure observers
            ("get", 4) => when(Self::pn(w, 3).is_some(), Class::Local),
            ("hif" | "values" | "dump", 3) => Class::Local,
            // Peer: `sent_packets.range(range)` with the ranges of an ACK frame (bounds < 2^62), `range(0..largest_acked)`,
            //   `(Excluded(largest_ack_eliciting_sent), Unbounded)`. Larger bounds: pure call out of contract.
            ("range", 5) => match (bound_ok(w[3]), bound_ok(w[4])) {
                (Some(true), Some(true)) => Class::Peer,
                (Some(_), Some(_)) => Class::Probe,
                _ => Class::Contract,
            },
            _ => Class::Contract,
        }
    }

    fn observe(&mut self, w: &[&str], resp: &str) {
        let Some(sp) = Self::sp(w) else { return };
        if !(resp.starts_with("ok ") || resp.starts_with("some ") || resp.starts_with("none ")) {
            return;
        }
        match w[1] {
            "sent" | "rinsert" => {
                if let Some(p) = n(w, 3) {
                    self.max_pn[sp] = Some(self.max_pn[sp].map_or(p, |m| m.max(p)));
                }
            }
            "burst" => {
                if let (Some(p), Some(c)) = (n(w, 3), n(w, 4)) {
                    let last = p.saturating_add(c).saturating_sub(1);
                    self.max_pn[sp] = Some(self.max_pn[sp].map_or(last, |m| m.max(last)));
                }
            }
            _ => {}
        }
        match w[1] {
            "rinsert" | "rremove" => self.raw = true,
            "sent" | "burst" | "ack" | "lost" | "discard" => {
                self.acct = true;
                if w[1] == "discard" && self.tail[sp] != 0 {
                    self.dead[sp] = true;
                }
                if let Some(t) = field(resp, "t") {
                    self.tail[sp] = t;
                }
            }
            _ => {}
        }
    }
}

// =====================================================================================================
// cc: congestion::Controller (NewReno, Cubic, Bbr) as driven by Connection
// =====================================================================================================

/// Ghost state: a controller exists; the largest `now` passed so far (Instants handed to one connection never
/// decrease). There is deliberately no "was sent" table: the controller legitimately sees `on_ack` for packets
/// it never saw in `on_sent` (MTU probes are not reported to `on_sent`; after `Connection::path_changed` a new
/// controller receives the acknowledgements of packets sent before), and `on_sent` reports whole GSO batches.
#[derive(Default)]
struct Cc {
    built: bool,
    now: u64,
}

impl Cc {
    /// executor times are < 2^62 ns; monotone
    fn time(&self, w: &[&str], i: usize) -> Option<u64> {
        n(w, i).filter(|t| *t < (1 << 62) && *t >= self.now)
    }
}

impl Tracker for Cc {
    fn classify(&mut self, w: &[&str]) -> Class {
        // trailing `key=value` tokens are observations for the model, ignored by the call
        let end = w.iter().position(|t| t.contains('=')).unwrap_or(w.len());
        let w = &w[..end];
        let Some(op) = w.get(1).copied() else { return Class::Contract };
        if op == "peek" {
            // runs on a clone, off the record
            return Class::Probe;
        }
        if op != "new" && !self.built {
            return Class::Contract; // bad-op
        }
        match (op, w.len()) {
            // Local: ControllerFactory::build(now, config.get_initial_mtu()) in PathData::{new,reset}; get_initial_mtu()
            //   = max(initial_mtu, min_mtu) >= 1200 by the TransportConfig setters. Smaller: Contract.
            ("new", 4) => {
                let ok = matches!(w[2], "reno" | "cubic" | "bbr") && matches!(n(w, 3), Some(m) if (MIN_MTU..=PKT_MAX).contains(&m));
                when(ok, Class::Local)
            }
            // Local: poll_transmit -> on_sent(now, buf.len(), last_packet_number): a non-empty batch, a packet number
            //   < 2^62 (numbers of the three spaces interleave: not monotone), time monotone.
            ("sent", 5) => {
                let ok = self.time(w, 2).is_some()
                    && matches!(n(w, 3), Some(b) if (1..=BATCH_MAX).contains(&b))
                    && matches!(n(w, 4), Some(p) if p <= VARINT_MAX);
                when(ok, Class::Local)
            }
            // Peer: on_ack_received -> on_packet_acked -> on_ack(now, info.time_sent, info.size, app_limited, &path.rtt)
            //   for an ack-eliciting packet: 1 <= size <= 65535, time_sent <= now. The RTT estimate is built from
            //   samples bounded by the elapsed time, or is TransportConfig::initial_rtt (any Duration): a value above
            //   the elapsed time is only reachable through that setter -> Local.
            ("ack", 7) => {
                let (Some(now), Some(sent), Some(b), Some(_), Some(rtt)) =
                    (self.time(w, 2), n(w, 3), n(w, 4), flag(w, 5), n(w, 6))
                else {
                    return Class::Contract;
                };
                if !(sent <= now && (1..=PKT_MAX).contains(&b) && rtt < (1 << 62)) {
                    return Class::Contract;
                }
                if rtt <= now { Class::Peer } else { Class::Local }
            }
            // Peer: end of on_ack_received: on_end_acks(now, path.in_flight.bytes, app_limited, largest_acked_packet).
            //   The real argument is always Some(<2^62); `-` (None) leaves BBR's max_acked_packet_number unchanged,
            //   exactly like an ACK frame that does not raise the largest acknowledged -> same class.
            ("endacks", 6) => {
                let ok = self.time(w, 2).is_some()
                    && matches!(n(w, 3), Some(b) if b <= AGG_MAX)
                    && flag(w, 4).is_some()
                    && (w[5] == "-" || matches!(n(w, 5), Some(p) if p <= VARINT_MAX));
                when(ok, Class::Peer)
            }
            // Peer: detect_lost_packets -> on_congestion_event(now, largest_lost_sent, persistent, false, lost > 0) and
            //   process_ecn -> on_congestion_event(now, largest_sent_time, false, true, 0).
            ("cong", 7) => {
                let (Some(now), Some(sent), Some(pers), Some(ecn), Some(lost)) =
                    (self.time(w, 2), n(w, 3), flag(w, 4), flag(w, 5), n(w, 6))
                else {
                    return Class::Contract;
                };
                let ok = sent <= now && if ecn { !pers && lost == 0 } else { (1..=AGG_MAX).contains(&lost) };
                when(ok, Class::Peer)
            }
            // Peer: detect_spurious_loss (an ACK frame covering every packet declared lost)
            ("spurious", 2) => Class::Peer,
            // Peer: on_mtu_update(mtud.current_mtu()) after the ack of an MTU probe or a black hole: current_mtu is
            //   always >= 1200 (min of initial >= 1200 and the peer's max_udp_payload_size >= 1200; probes are
            //   larger; black hole -> min(current, min_mtu >= 1200)).
            ("mtu", 3) => when(matches!(n(w, 2), Some(m) if (MIN_MTU..=PKT_MAX).contains(&m)), Class::Peer),
            // Local: poll_transmit reads window() before every datagram
            ("window", 2) => Class::Local,
            _ => Class::Contract,
        }
    }

    fn observe(&mut self, w: &[&str], resp: &str) {
        match w.get(1).copied() {
            Some("new") if resp.starts_with("ok ") => {
                self.built = true;
                self.now = 0;
            }
            Some("sent" | "ack" | "endacks" | "cong") => {
                if let Some(t) = n(w, 2) {
                    self.now = self.now.max(t);
                }
            }
            _ => {}
        }
    }
}

// =====================================================================================================
// mtud: MtuDiscovery (connection/mtud.rs)
// =====================================================================================================

/// Ghost state: `poll_transmit` was called on this object (the connection is established: transport parameters
/// never arrive afterwards); the last packet number of the loss batch still open (detect_lost_packets reports
/// losses in increasing order and closes every batch with black_hole_detected); the largest time; whether the
/// state printed last has a probe in flight.
struct Mtud {
    polled: bool,
    open_burst: Option<u64>,
    now: u64,
    in_flight: bool,
}

impl Default for Mtud {
    fn default() -> Self {
        Self { polled: false, open_burst: None, now: 0, in_flight: false }
    }
}

fn u16_(w: &[&str], i: usize) -> Option<u64> {
    n(w, i).filter(|x| *x <= PKT_MAX)
}

impl Mtud {
    fn time(&self, w: &[&str], i: usize) -> Option<u64> {
        n(w, i).filter(|t| *t < (1 << 60))
    }
}

impl Tracker for Mtud {
    fn classify(&mut self, w: &[&str]) -> Class {
        let Some(op) = w.get(1).copied() else { return Class::Contract };
        match (op, w.len()) {
            // Local: PathData::new -> MtuDiscovery::new(config.get_initial_mtu(), config.min_mtu, peer, mtud_config).
            //   TransportConfig::{initial_mtu,min_mtu} clamp to >= 1200 and get_initial_mtu() = max(initial, min_mtu):
            //   initial >= min_mtu >= 1200. `peer` is None at creation, Some(peer_params.max_udp_payload_size) on
            //   migration (>= 1200, see `peer`). MtuDiscoveryConfig setters accept every interval / cooldown /
            //   minimum_change; upper_bound goes through the (clamping) setter inside the executor.
            ("new", 9) => {
                let (Some(i), Some(m), Some(_), Some(_), Some(_), Some(_)) =
                    (u16_(w, 2), u16_(w, 3), self.time(w, 5), u16_(w, 6), u16_(w, 7), self.time(w, 8))
                else {
                    return Class::Contract;
                };
                let peer_ok = w[4] == "-" || matches!(u16_(w, 4), Some(p) if p >= MIN_MTU);
                when(i >= m && m >= MIN_MTU && peer_ok, Class::Local)
            }
            // Local: same call site with mtu_discovery_config = None / allow_mtud = false
            ("disabled", 4) => {
                let (Some(i), Some(m)) = (u16_(w, 2), u16_(w, 3)) else { return Class::Contract };
                when(i >= m && m >= MIN_MTU, Class::Local)
            }
            // Local: Connection::path_changed -> PathData::reset -> reset(config.get_initial_mtu(), config.min_mtu)
            ("reset", 4) => {
                let (Some(c), Some(m)) = (u16_(w, 2), u16_(w, 3)) else { return Class::Contract };
                when(c >= m && m >= MIN_MTU, Class::Local)
            }
            // Local: poll_transmit (established, validated path) -> poll_transmit(now, next packet number of the Data
            //   space): number < 2^62, time monotone
            ("poll", 4) => {
                let ok = matches!(self.time(w, 2), Some(t) if t >= self.now) && matches!(n(w, 3), Some(p) if p <= VARINT_MAX);
                when(ok, Class::Local)
            }
            // Peer: set_peer_params -> on_peer_max_udp_payload_size_received(u16::try_from(v).unwrap_or(u16::MAX)) with
            //   v >= 1200 (TransportParameters::read rejects smaller values), called from handle_peer_params (handshake)
            //   and init_0rtt (remembered parameters) only, i.e. before the connection is established; poll_transmit
            //   runs only when `state.is_established()`. After the first poll: Contract (never called again; a
            //   migration builds a new object with `new .. Some(peer)`).
            ("peer", 3) => when(matches!(u16_(w, 2), Some(v) if v >= MIN_MTU) && !self.polled, Class::Peer),
            // Peer: on_ack_received -> on_acked(space, pn, info.size) for a packet that was sent
            ("acked", 5) => {
                let ok = matches!(w[2], "0" | "1" | "2") && matches!(n(w, 3), Some(p) if p <= VARINT_MAX) && u16_(w, 4).is_some();
                when(ok, Class::Peer)
            }
            // Peer: detect_lost_packets -> on_probe_lost() only when `in_flight_mtu_probe()` named a lost packet.
            //   Without a probe in flight (per the state printed last): Contract.
            ("ploss", 2) => when(self.in_flight, Class::Peer),
            // Peer: detect_lost_packets -> on_non_probe_lost(pn, size) for the lost packets of ONE space in increasing
            //   packet-number order, the batch always closed by black_hole_detected(now) before anything else
            //   happens. A number not above the previous one of the open batch: Contract (`pn - latest_non_probe`).
            ("nploss", 4) => {
                let (Some(p), Some(_)) = (n(w, 2).filter(|p| *p <= VARINT_MAX), u16_(w, 3)) else {
                    return Class::Contract;
                };
                when(self.open_burst.map_or(true, |last| p > last), Class::Peer)
            }
            // Peer: closes a loss batch (time monotone). Without an open batch the call is a no-op returning false
            //   (finish_loss_burst returns at once; the table holds <= BLACK_HOLE_THRESHOLD bursts whenever no batch
            //   is open): not produced by the real caller, harmless -> Probe.
            ("bhd", 3) => match self.time(w, 2) {
                Some(t) if t >= self.now => {
                    if self.open_burst.is_some() { Class::Peer } else { Class::Probe }
                }
                _ => Class::Contract,
            },
            // Local: observer (detect_lost_packets reads it)
            ("inflight", 2) => Class::Local,
            _ => Class::Contract,
        }
    }

    fn observe(&mut self, w: &[&str], resp: &str) {
        let Some(op) = w.get(1).copied() else { return };
        if let Some((_, st)) = resp.split_once(" | ") {
            // ph=S:lower,upper,min_change,last,inflight,lost
            self.in_flight = st
                .split(' ')
                .find_map(|t| t.strip_prefix("ph=S:"))
                .is_some_and(|s| s.split(',').nth(4).is_some_and(|f| f != "-"));
            match op {
                "new" | "disabled" => {
                    self.polled = false;
                    self.open_burst = None;
                }
                "reset" => self.open_burst = None,
                "poll" => self.polled = true,
                "nploss" => self.open_burst = n(w, 2),
                "bhd" => self.open_burst = None,
                _ => {}
            }
            if matches!(op, "poll" | "bhd") {
                if let Some(t) = n(w, 2) {
                    self.now = self.now.max(t);
                }
            }
        }
    }
}
