//! Scenarios `closedinj` (C04/C08) and `offpath` (C07): unauthenticated / off-path inputs at connection level.
use std::cell::RefCell;
use std::collections::{BTreeMap, VecDeque};
use std::rc::Rc;
use std::sync::Arc;
use std::time::Duration;

use quinn_proto::verif::Snapshot;
use quinn_proto::{IdleTimeout, TransportConfig, VarInt};

use crate::scenarios::{hostile_mutate, random_transport, Outcome};
use crate::sim::*;
use crate::workload::*;
use crate::Rng;

// ------------------------------------------------------------------------------------------------------------
// helpers

/// Destination connection ID of a datagram (8-byte local CIDs, as `default_pair` configures).
fn dcid_of(d: &[u8]) -> Option<Vec<u8>> {
    if d.is_empty() {
        return None;
    }
    if d[0] & 0x80 != 0 {
        let dl = *d.get(5)? as usize;
        d.get(6..6 + dl).map(|x| x.to_vec())
    } else {
        d.get(1..9).map(|x| x.to_vec())
    }
}

/// Property C04 "without effect beyond counters": which fields of the observable projection differ, counters
/// (bytes received, authentication failures) aside.
fn snapshot_diff(b: &Snapshot, a: &Snapshot, frx_b: &str, frx_a: &str) -> Vec<String> {
    let mut d = Vec::new();
    macro_rules! cmp {
        ($($f:ident).+) => {
            if b.$($f).+ != a.$($f).+ {
                d.push(format!("{}: {:?} -> {:?}", stringify!($($f).+), b.$($f).+, a.$($f).+));
            }
        };
    }
    cmp!(state);
    cmp!(has_error);
    cmp!(close);
    cmp!(timers);
    cmp!(path.remote);
    cmp!(path.validated);
    cmp!(path.total_sent);
    cmp!(path.in_flight_bytes);
    cmp!(path.in_flight_ack_eliciting);
    cmp!(path.current_mtu);
    cmp!(path.cwnd);
    cmp!(path.challenge);
    cmp!(path.challenge_pending);
    cmp!(path.rtt_pto_base);
    cmp!(prev_path);
    cmp!(spaces);
    cmp!(highest_space);
    cmp!(pto_count);
    cmp!(idle_timeout);
    cmp!(total_authed_packets);
    cmp!(streams);
    cmp!(dgram_out_total);
    cmp!(dgram_out_len);
    cmp!(dgram_in_buffered);
    cmp!(dgram_in_len);
    cmp!(events_queued);
    cmp!(endpoint_events_queued);
    cmp!(path_responses_empty);
    cmp!(permit_idle_reset);
    cmp!(key_phase);
    cmp!(accepted_0rtt);
    if frx_b != frx_a {
        d.push(format!("frame_rx: {frx_b} -> {frx_a}"));
    }
    d
}

/// A long-header packet that carries no packet protection, addressed to `dcid`: `retry` = Retry-typed (version 1),
/// else Version-Negotiation-typed (version 0); `payload` follows the header verbatim.
fn unprotected_packet(rng: &mut Rng, retry: bool, dcid: &[u8], payload: &[u8]) -> Vec<u8> {
    let mut p = vec![if retry { 0xf0 | (rng.below(16) as u8) } else { 0x80 | (rng.below(128) as u8) }];
    p.extend_from_slice(&(if retry { 1u32 } else { 0u32 }).to_be_bytes());
    p.push(dcid.len() as u8);
    p.extend_from_slice(dcid);
    let scid = rng.bytes(8);
    p.push(8);
    p.extend_from_slice(&scid);
    p.extend_from_slice(payload);
    p
}

struct InjShared {
    /// per (node, connection): labels of the injected datagram events queued and not yet handled
    pending: BTreeMap<(usize, usize), VecDeque<&'static str>>,
    before: Option<(Snapshot, String, &'static str)>,
    /// (label, state it was processed in) -> count
    processed: BTreeMap<(String, &'static str), u64>,
    fails: Vec<(String, String)>,
}

pub const CLOSEDINJ_RULE: &str = "one execution = one connection over a loss-free network with a small workload; at a random step after the handshake the client, the server, both or nobody calls close(code, reason); from then on (closed / draining / drained, or established for the control group) an attacker who knows the connection IDs injects 6..40 datagrams that carry NO valid packet protection into either endpoint, from the genuine peer address (3/4) or a foreign one: Retry-typed and Version-Negotiation-typed long headers addressed to the victim's CID with payload empty / `1c 00 00 00` (bytes that parse as CONNECTION_CLOSE) / `1c` + garbage / random bytes / a token with a VALID Retry integrity tag (computed like a server would) / a version list containing version 1; random bytes behind a short header with the victim's CID; structure-aware mutations (hostile_mutate) of genuine datagrams the victim has already received. Oracles: C04 `forged-packet-changed-state`: the observable projection of the victim (lifecycle state, pending error, close-owed flag, all timers, both paths, packet spaces, stream/datagram accounting, queued events, per-frame-type receive counters) is identical before and after it handles such a datagram, except bytes-received and authentication-failure counters; C08: a connection that was closed locally never reports ConnectionLost (`lost-after-local-close:unauthenticated-packet`), nobody reports it twice (`lost-reported-twice:*`), the peer of a closer still learns the closer's code (`close-reason-not-delivered`), everything drains once (`drain-never`, `drain-notified-twice`); non-trivial = handshake completed, somebody closed and >= 5 injected datagrams were handled by a connection in the closed or draining state";

pub fn closedinj(seed: u64, out: &mut Outcome) {
    let mut rng = Rng::new(seed ^ 0xc10d1);
    let (mut tc, _) = random_transport(&mut rng);
    let (mut ts, _) = random_transport(&mut rng);
    for t in [&mut tc, &mut ts] {
        t.max_idle_timeout(Some(IdleTimeout::try_from(Duration::from_secs(30)).unwrap()));
        t.max_concurrent_bidi_streams(VarInt::from_u32(100));
        t.max_concurrent_uni_streams(VarInt::from_u32(100));
        t.keep_alive_interval(None);
    }
    let (mut sim, ccfg) = default_pair(seed, tc, ts);
    sim.keep_history = true;
    sim.net.latency_ns = *rng.pick(&[1_000_000u64, 10_000_000, 40_000_000]);
    sim.net.path_mtu = 65000;
    sim.ledger.on = true;
    let mut w = Workload::new(seed);
    w.sides[CLIENT].plans = Workload::random_plans(&mut rng, 2, 60_000);
    w.sides[SERVER].plans = Workload::random_plans(&mut rng, 1, 30_000);
    let cch = sim.connect(ccfg);
    w.ch[CLIENT] = Some(cch);
    let retry_crypto = server_config(0, TransportConfig::default(), &SimClock(Arc::new(std::sync::Mutex::new(std::time::UNIX_EPOCH)))).crypto;

    let shared = Rc::new(RefCell::new(InjShared { pending: BTreeMap::new(), before: None, processed: BTreeMap::new(), fails: Vec::new() }));
    let sh = shared.clone();
    sim.rx_tap = Some(Box::new(move |sim: &mut Sim, node: usize, ch: usize, _len: usize, post: bool| {
        let mut s = sh.borrow_mut();
        if !post {
            let label = s.pending.get_mut(&(node, ch)).and_then(|q| q.pop_front());
            s.before = label.map(|l| (sim.snap(node, ch), format!("{:?}", sim.nodes[node].conns[&ch].conn.stats().frame_rx), l));
        } else if let Some((b, frx_b, label)) = s.before.take() {
            let a = sim.snap(node, ch);
            let frx_a = format!("{:?}", sim.nodes[node].conns[&ch].conn.stats().frame_rx);
            *s.processed.entry((label.to_string(), b.state)).or_default() += 1;
            let d = if label.starts_with("auth-") { Vec::new() } else { snapshot_diff(&b, &a, &frx_b, &frx_a) };
            if label == "auth-close-then-stream" {
                // C08 "once closed it stops delivering data": nothing that follows the peer's CONNECTION_CLOSE is acted on
                let cnt = |x: &str| x.rsplit("STREAM: ").next().and_then(|t| t.split(|c: char| !c.is_ascii_digit()).next().map(|n| n.to_string())).unwrap_or_default();
                if a.state == "draining" && (cnt(&frx_a) != cnt(&frx_b) || a.streams.n_recv != b.streams.n_recv || a.events_queued > b.events_queued + 1) {
                    s.fails.push(("close-data-delivered-after-close".into(), format!("node {node} conn {ch}: a 1-RTT packet [CONNECTION_CLOSE, STREAM(new stream, 5 bytes, FIN), PING] closed the connection and still delivered the stream: STREAM frames processed {} -> {}, receive streams {} -> {}, application events queued {} -> {}", cnt(&frx_b), cnt(&frx_a), b.streams.n_recv, a.streams.n_recv, b.events_queued, a.events_queued)));
                }
            }
            if label == "auth-reserved-bits" && b.state == "draining" && (a.state != "draining" || a.close) {
                // RFC 9000 10.2.2 / C08: a draining connection sends nothing and stays draining until it is drained
                s.fails.push(("drain-state-left-on-late-packet".into(), format!("node {node} conn {ch} was draining; an authenticated packet with non-zero reserved bits moved it to {} with a CONNECTION_CLOSE owed: {}", a.state, a.close)));
            }
            if !d.is_empty() {
                s.fails.push(("forged-packet-changed-state".into(), format!("node {node} conn {ch} in state {} handled an injected datagram without valid packet protection ({label}) and changed: {}", b.state, d.join("; "))));
            }
        }
    }));

    // 0 client closes, 1 server closes, 2 both, 3 nobody (control: injection into an established connection);
    // authenticated late inputs (no unauthenticated injection in these executions):
    // 4/5 client/server closes locally while a packet of its (still established) peer with non-zero reserved header bits is in flight,
    // 6 a random side builds such a packet, closes, and the packet reaches the peer once that is draining,
    // 7/8 a random side sends one 1-RTT packet [CONNECTION_CLOSE(app), STREAM on a new stream | a truncated STREAM frame, PING]
    let action = rng.below(9);
    let hostile_side = rng.below(2) as usize;
    let act_step = rng.range(8, 80);
    let code = *rng.pick(&[0u32, 7, 16383, u32::MAX]);
    let rl = *rng.pick(&[0usize, 5, 300]);
    let reason: Vec<u8> = rng.bytes(rl);
    let n_inject = if action <= 3 { rng.range(6, 40) } else { 0 };
    if action >= 7 {
        // the injection hook writes a packet that holds nothing but the injected frames: no GSO batch may start with it
        sim.nodes[hostile_side].max_datagrams = 1;
    }
    let mut late: Option<(usize, Vec<u8>)> = None; // (victim node, withheld datagram) for action 6
    let mut auth_sent = 0u64;
    let every = rng.range(1, 4);
    let mut injected = 0u64;
    let mut acted_at: Option<u64> = None;
    let mut closed_local = [false; 2];
    let horizon = 100_000_000_000u64;
    let caddr = sim.nodes[CLIENT].addr;
    let saddr = sim.nodes[SERVER].addr;
    let end = sim.run_until(horizon * 3, 300_000, |sim| {
        if w.ch[SERVER].is_none() {
            if let Some(&ch) = sim.nodes[SERVER].accepted.first() {
                w.ch[SERVER] = Some(ch);
            }
        }
        w.tick(sim);
        let up = sim.nodes[CLIENT].conns[&cch].obs.connected && w.ch[SERVER].is_some_and(|s| sim.nodes[SERVER].conns[&s].obs.connected);
        if acted_at.is_none() && up && (sim.steps >= act_step || w.complete()) {
            acted_at = Some(sim.now);
            let sch = w.ch[SERVER].unwrap();
            let chof = |n: usize| if n == CLIENT { cch } else { sch };
            let addr_of = |n: usize| if n == CLIENT { caddr } else { saddr };
            // one hand-built datagram of `from_node` (still established), not put on the wire
            let build = |sim: &mut Sim, from_node: usize, reserved: bool, frames: Option<Vec<u8>>| -> Option<Vec<u8>> {
                let ch = chof(from_node);
                let now = sim.t();
                if sim.conn(from_node, ch).is_closed() {
                    return None;
                }
                let _ = sim.conn(from_node, ch).verif_take_injected();
                if let Some(f) = frames {
                    if !sim.conn(from_node, ch).verif_inject_frames(2, f) {
                        return None;
                    }
                } else {
                    sim.conn(from_node, ch).ping();
                }
                if reserved {
                    sim.conn(from_node, ch).verif_set_reserved_bits_next();
                }
                let mut buf = Vec::new();
                let t = sim.conn(from_node, ch).poll_transmit(now, 1, &mut buf)?;
                let inj = sim.conn(from_node, ch).verif_take_injected();
                if !reserved && !(inj.len() == 1 && inj[0].2 > 0) {
                    // the packet built is not the injected one: let it travel normally, nothing acted
                    let data = buf[..t.size].to_vec();
                    sim.send_wire(from_node, addr_of(from_node), t.destination, t.ecn, data);
                    return None;
                }
                Some(buf[..t.size].to_vec())
            };
            let close_frame = |code: u32, reason: &[u8]| -> Vec<u8> {
                let mut f = vec![0x1d];
                f.extend_from_slice(&(0xc000_0000_0000_0000u64 | code as u64).to_be_bytes());
                f.push(reason.len().min(40) as u8);
                f.extend_from_slice(&reason[..reason.len().min(40)]);
                f
            };
            let deliver = |sim: &mut Sim, victim: usize, data: Vec<u8>, label: &'static str| {
                let vch = chof(victim);
                let qlen = sim.nodes[victim].conns[&vch].events.len();
                let at = sim.now;
                sim.handle_datagram(victim, Dgram { at, seq: 0, from: addr_of(1 - victim), to: addr_of(victim), ecn: None, data, origin: usize::MAX, genuine: true });
                if sim.nodes[victim].conns[&vch].events.len() > qlen {
                    shared.borrow_mut().pending.entry((victim, vch)).or_default().push_back(label);
                }
            };
            match action {
                4 | 5 => {
                    let closer = if action == 4 { CLIENT } else { SERVER };
                    if let Some(d) = build(sim, 1 - closer, true, None) {
                        let now = sim.t();
                        sim.conn(closer, chof(closer)).close(now, VarInt::from_u32(code), reason.clone().into());
                        sim.nodes[closer].conns.get_mut(&chof(closer)).unwrap().obs.closed_locally_at = Some(sim.now);
                        closed_local[closer] = true;
                        deliver(sim, closer, d, "auth-reserved-bits");
                        auth_sent += 1;
                    }
                }
                6 => {
                    let closer = hostile_side;
                    if let Some(d) = build(sim, closer, true, None) {
                        let now = sim.t();
                        sim.conn(closer, chof(closer)).close(now, VarInt::from_u32(code), reason.clone().into());
                        sim.nodes[closer].conns.get_mut(&chof(closer)).unwrap().obs.closed_locally_at = Some(sim.now);
                        closed_local[closer] = true;
                        late = Some((1 - closer, d));
                    }
                }
                7 | 8 => {
                    let mut f = close_frame(code, &reason);
                    if action == 7 {
                        // a stream of the hostile side that its peer's limit (100) admits and nobody has used
                        let id = 4 * 60 + 2 + hostile_side as u64;
                        f.push(0x0b);
                        f.extend_from_slice(&(0x4000u16 | id as u16).to_be_bytes());
                        f.push(5);
                        f.extend_from_slice(&content(id, 0, 5));
                    } else {
                        // STREAM frame whose length field points far beyond the packet
                        f.extend_from_slice(&[0x0b, 0x02, 0x7f, 0xff]);
                    }
                    if let Some(d) = build(sim, hostile_side, false, Some(f)) {
                        deliver(sim, 1 - hostile_side, d, if action == 7 { "auth-close-then-stream" } else { "auth-close-then-malformed" });
                        auth_sent += 1;
                    }
                }
                _ => {}
            }
            for (node, ch, doit) in [(CLIENT, cch, action == 0 || action == 2), (SERVER, sch, action == 1 || action == 2)] {
                if doit && !sim.conn(node, ch).is_closed() {
                    let now = sim.t();
                    sim.conn(node, ch).close(now, VarInt::from_u32(code), reason.clone().into());
                    sim.nodes[node].conns.get_mut(&ch).unwrap().obs.closed_locally_at = Some(sim.now);
                    closed_local[node] = true;
                }
            }
        }
        if let (Some((victim, _)), Some(sch)) = (late.as_ref(), w.ch[SERVER]) {
            let victim = *victim;
            let vch = if victim == CLIENT { cch } else { sch };
            if sim.snap(victim, vch).state == "draining" {
                let (_, data) = late.take().unwrap();
                let qlen = sim.nodes[victim].conns[&vch].events.len();
                let at = sim.now;
                let (from, to) = if victim == CLIENT { (saddr, caddr) } else { (caddr, saddr) };
                sim.handle_datagram(victim, Dgram { at, seq: 0, from, to, ecn: None, data, origin: usize::MAX, genuine: true });
                if sim.nodes[victim].conns[&vch].events.len() > qlen {
                    shared.borrow_mut().pending.entry((victim, vch)).or_default().push_back("auth-reserved-bits");
                }
                auth_sent += 1;
            }
        }
        if let (Some(_), Some(sch)) = (acted_at, w.ch[SERVER]) {
            let burst = if injected < n_inject && sim.steps % every == 0 { 1 + sim.rng.below(3) } else { 0 };
            for _ in 0..burst {
                // a drained connection is forgotten by its endpoint: nothing sent there is handled by a connection (the
                // endpoint answers with a genuine stateless reset, which is not an unauthenticated input of the peer)
                let live: Vec<usize> = [(CLIENT, cch), (SERVER, sch)].iter().filter(|(n, c)| sim.snap(*n, *c).state != "drained").map(|(n, _)| *n).collect();
                if live.is_empty() {
                    break;
                }
                injected += 1;
                let victim = *sim.rng.pick(&live);
                let vch = if victim == CLIENT { cch } else { sch };
                let peer = 1 - victim;
                let from = if sim.rng.chance(3, 4) { if victim == CLIENT { saddr } else { caddr } } else { addr(55000 + sim.rng.below(3) as u16) };
                let to = if victim == CLIENT { caddr } else { saddr };
                // what the attacker has seen: datagrams of the peer towards the victim
                let old_enough = sim.now.saturating_sub(3 * sim.net.latency_ns + 1);
                let seen: Vec<usize> = (0..sim.history.len()).filter(|i| sim.history[*i].origin == peer && sim.history_at[*i] <= old_enough).collect();
                let cid = seen.iter().rev().find_map(|i| dcid_of(&sim.history[*i].data)).unwrap_or_else(|| vec![0; 8]);
                let mut r = Rng::new(sim.rng.next());
                let (data, label): (Vec<u8>, &'static str) = match r.below(12) {
                    0 => (unprotected_packet(&mut r, true, &cid, &[]), "retry-empty"),
                    1 => (unprotected_packet(&mut r, false, &cid, &[]), "vn-empty"),
                    2 => (unprotected_packet(&mut r, true, &cid, &[0x1c, 0, 0, 0]), "retry-close-bytes"),
                    3 => (unprotected_packet(&mut r, false, &cid, &[0x1c, 0, 0, 0]), "vn-close-bytes"),
                    4 => {
                        let mut p = vec![0x1c];
                        let n = r.below(30) as usize;
                        p.extend(r.bytes(n));
                        let retry = r.chance(1, 2);
                        (unprotected_packet(&mut r, retry, &cid, &p), "unprotected-close-garbage")
                    }
                    5 => {
                        let n = 1 + r.below(60) as usize;
                        let p = r.bytes(n);
                        let retry = r.chance(1, 2);
                        (unprotected_packet(&mut r, retry, &cid, &p), "unprotected-garbage")
                    }
                    6 => {
                        // Retry whose integrity tag verifies against the client's original destination CID
                        let odcid = sim.history.iter().find(|h| h.origin == CLIENT).and_then(|h| dcid_of(&h.data)).unwrap_or_else(|| cid.clone());
                        let tok = r.bytes(16);
                        let mut pkt = unprotected_packet(&mut r, true, &cid, &tok);
                        let tag = retry_crypto.retry_tag(1, quinn_proto::ConnectionId::new(&odcid), &pkt);
                        pkt.extend_from_slice(&tag);
                        (pkt, "retry-valid-tag")
                    }
                    7 => (unprotected_packet(&mut r, false, &cid, &[0x0a, 0x1a, 0x2a, 0x3a, 0, 0, 0, 1]), "vn-lists-v1"),
                    8 => {
                        let n = 20 + r.below(60) as usize;
                        let mut p = r.bytes(n);
                        p[0] = 0x40 | (p[0] & 0x3f);
                        p[1..9].copy_from_slice(&cid[..8.min(cid.len())]);
                        (p, "short-garbage")
                    }
                    _ => {
                        if seen.is_empty() {
                            (vec![0x40], "mutated-genuine")
                        } else {
                            let i = seen[r.below(seen.len() as u64) as usize];
                            let j = seen[r.below(seen.len() as u64) as usize];
                            let (d, _) = hostile_mutate(&mut r, &sim.history[i].data, &sim.history[j].data);
                            (d, "mutated-genuine")
                        }
                    }
                };
                let qlen = sim.nodes[victim].conns[&vch].events.len();
                let at = sim.now;
                sim.handle_datagram(victim, Dgram { at, seq: 0, from, to, ecn: None, data, origin: usize::MAX, genuine: false });
                if sim.nodes[victim].conns[&vch].events.len() > qlen {
                    shared.borrow_mut().pending.entry((victim, vch)).or_default().push_back(label);
                }
            }
        }
        acted_at.is_some_and(|t| sim.now > t + horizon)
    });
    sim.rx_tap = None;
    let sh = Rc::try_unwrap(shared).ok().expect("tap dropped").into_inner();
    for (k, m) in sh.fails {
        sim.fail(&k, m);
    }
    // ---- C08 oracles
    for node in 0..2 {
        let peer = 1 - node;
        let chs: Vec<usize> = sim.nodes[node].conns.keys().cloned().collect();
        for ch in chs {
            let (lost, drained_events) = {
                let nc = &sim.nodes[node].conns[&ch];
                (nc.obs.lost.clone(), nc.obs.drained_events)
            };
            // (the recorded findings that involve `Reset` are tied to a stateless reset really handled: lostkeys.rs)
            let resets = sim.ledger.stateless_resets_handled(node, ch);
            if lost.len() > 1 {
                sim.fail(&crate::lostkeys::twice_key(&lost, resets), format!("node {node}: {lost:?} (stateless resets of the peer endpoint handled: {resets})"));
            }
            if drained_events > 1 {
                sim.fail("drain-notified-twice", format!("node {node} conn {ch}"));
            }
            if closed_local[node] && Some(ch) == w.ch[node] && !lost.is_empty() {
                // (a genuine stateless reset reported after a local close is the recorded finding of scenario `close`)
                let key = crate::lostkeys::after_local_close_key(&lost[0], resets, if action <= 3 { "lost-after-local-close:unauthenticated-packet" } else { "lost-after-local-close:protocol-error" });
                let what = if action <= 3 { "only datagrams without valid packet protection were injected afterwards" } else { "a packet of its peer with non-zero reserved header bits arrived afterwards" };
                sim.fail(key, format!("node {node} closed locally (code {code}); {what}, yet it polled {lost:?}"));
            }
            if acted_at.is_some() && action != 3 && Some(ch) == w.ch[node] && (sim.snap(node, ch).state != "drained" || sim.nodes[node].conns[&ch].obs.drained_events == 0) {
                sim.fail("drain-never", format!("node {node} conn {ch} still {} at the end (action {action})", sim.snap(node, ch).state));
            }
            if (action == 7 || action == 8) && auth_sent > 0 && node == 1 - hostile_side && Some(ch) == w.ch[node] {
                let want = format!("error_code: {code},");
                if lost.is_empty() || !(lost[0].contains("ApplicationClosed") && lost[0].contains(&want)) {
                    sim.fail("close-reason-replaced-by-trailing-frame", format!("node {node} received one 1-RTT packet [CONNECTION_CLOSE(application, code {code}), {}, PING] and polled {lost:?}", if action == 7 { "STREAM" } else { "truncated STREAM" }));
                }
            }
            if closed_local[node] && !closed_local[peer] && Some(ch) == w.ch[node] {
                if let Some(pch) = w.ch[peer] {
                    let pl = sim.nodes[peer].conns[&pch].obs.lost.clone();
                    let want = format!("error_code: {code},");
                    let generic_ok = !pl.is_empty() && pl[0].contains("APPLICATION_ERROR");
                    if !generic_ok && (pl.is_empty() || !(pl[0].contains("ApplicationClosed") && pl[0].contains(&want))) {
                        sim.fail("close-reason-not-delivered", format!("node {node} closed with code {code} over a loss-free path; peer polled {pl:?}"));
                    }
                }
            }
        }
    }
    out.runs += 1;
    out.evaluations += sim.steps + injected;
    let in_closed: u64 = sh.processed.iter().filter(|((_, st), _)| *st == "closed" || *st == "draining").map(|(_, n)| *n).sum();
    if acted_at.is_some() && ((action < 3 && in_closed >= 5) || (action > 3 && auth_sent > 0)) {
        out.nontrivial += 1;
    }
    out.count("authenticated-late-inputs", auth_sent);
    out.count(&format!("action:{action}"), 1);
    out.count(&format!("end:{end:?}"), 1);
    out.count("injected", injected);
    for ((l, st), n) in &sh.processed {
        out.count(&format!("handled:{st}:{l}"), *n);
    }
    if out.samples.len() < 2 {
        out.samples.push(format!("seed {seed}: action {action} at t={:?}; {injected} injected, handled by a connection {:?}; lost client {:?} server {:?}", acted_at, sh.processed, sim.nodes[CLIENT].conns[&cch].obs.lost, w.ch[SERVER].map(|s| sim.nodes[SERVER].conns[&s].obs.lost.clone())));
    }
    if std::env::var("VERIF_SIM_VERBOSE").is_ok() {
        for r in sim.trace.iter().filter(|r| !matches!(r, Rec::Tx { .. })) {
            eprintln!("{r:?}");
        }
    }
    for f in sim.fails.drain(..) {
        out.fails.push(format!("{f} seed={seed}"));
    }
}

// ------------------------------------------------------------------------------------------------------------
// offpath (C07)

fn varint2(v: usize) -> [u8; 2] {
    (0x4000u16 | v as u16).to_be_bytes()
}

/// A correctly protected client Initial packet (version 1, packet number 0, frames = PING + PADDING) that fills a
/// datagram of exactly `total` bytes: what a client that ignores the 1200-byte rule would send. `total >= 64`.
pub fn craft_initial(sc: &dyn quinn_proto::crypto::ServerConfig, dcid: &[u8], scid: &[u8], total: usize) -> Vec<u8> {
    craft_initial_token(sc, dcid, scid, &[], total)
}

/// smallest datagram `craft_initial_token` can fill: header, 1-byte packet number, 3 bytes of frames (the header-protection
/// sample starts 4 bytes behind the packet-number offset) and the 16-byte tag
pub fn craft_initial_min(dcid_len: usize, scid_len: usize, token_len: usize) -> usize {
    1 + 4 + 1 + dcid_len + 1 + scid_len + 1 + token_len + 2 + 1 + 3 + 16
}

/// The same with a DCID of any length 0..=20 and a token (< 64 bytes; empty = none): `total >= craft_initial_min(..)`.
pub fn craft_initial_token(sc: &dyn quinn_proto::crypto::ServerConfig, dcid: &[u8], scid: &[u8], token: &[u8], total: usize) -> Vec<u8> {
    let keys = sc.initial_keys(1, quinn_proto::ConnectionId::new(dcid)).ok().expect("version 1");
    let mut p = vec![0xc0u8];
    p.extend_from_slice(&1u32.to_be_bytes());
    p.push(dcid.len() as u8);
    p.extend_from_slice(dcid);
    p.push(scid.len() as u8);
    p.extend_from_slice(scid);
    assert!(token.len() < 64);
    p.push(token.len() as u8); // token length (one-byte varint)
    p.extend_from_slice(token);
    let pn_offset = p.len() + 2;
    let payload = total - pn_offset - 1 - 16;
    p.extend_from_slice(&varint2(1 + payload + 16));
    p.push(0); // packet number 0, one byte
    let header_len = p.len();
    p.push(0x01); // PING
    p.resize(header_len + payload + 16, 0); // PADDING + room for the tag
    // the server's `remote` keys are the client's write keys
    keys.packet.remote.encrypt(0, &mut p, header_len);
    keys.header.remote.encrypt(pn_offset, &mut p);
    debug_assert_eq!(p.len(), total);
    p
}

pub const OFFPATH_RULE: &str = "one execution = a migration-enabled server (random transport config, Retry policy 1/4), one genuine client connection with a workload, and per execution one or all of: (A) datagrams from never-validated spoofed addresses at random instants: long headers with an unsupported version in datagrams of 7..1400 bytes (CID lengths 0/8/20), correctly protected supported-version client Initials (PING+PADDING; DCID length 0..20, half of them < 8; source CID 0/8/20; a third with a token of 1..40 random bytes) in datagrams from the smallest that holds the packet (about 30 bytes) to 1199 bytes and, as control, 1200 bytes, genuine first Initials of another client truncated to 50/600/1199 bytes; (B) the client acting as a malicious but authenticated peer (frame-injection hook): 2..6 small 1-RTT packets carrying PATH_CHALLENGE, each withheld and delivered FROM a spoofed address X after a later packet has been processed (so it cannot migrate the path); (C) 3..8 small genuine 1-RTT PING packets of the idle client delivered in order alternately from spoofed addresses X and Y (each migrates the server's path). The spoofed addresses never answer anything. Oracles (C07, RFC 9000 8.1/8.2.2/9.3): per-destination ledger over every datagram the server emits (connection transmits to any address and endpoint responses), cumulative per address and never rebased, armed by the harness' own notion of validated (Handshake packet accepted from the address / token the server put into a Retry for it / the node chose the address itself): a datagram to an unvalidated address may only be started while bytes sent to it < 3 x bytes received from it: `amplification-limit-exceeded-off-path` (destination is not the connection's path), `amplification-limit-exceeded-cumulative` (destination is the path; cumulative over re-migrations), `stateless-response-exceeds-3x` (endpoint response > 3 x the inciting datagram, or beyond the cumulative budget); `short-initial-reply` / `short-initial-state`: a supported-version Initial in a datagram < 1200 bytes provokes no datagram at all and leaves the number of connections, accepted connections and buffered bytes of the endpoint unchanged; plus the per-path ledger of the simulator. non-trivial = handshake completed and >= 3 attack datagrams were handled";

pub fn offpath(seed: u64, out: &mut Outcome) {
    let mut rng = Rng::new(seed ^ 0x0ff9a7);
    let (mut tc, _) = random_transport(&mut rng);
    let (mut ts, _) = random_transport(&mut rng);
    for t in [&mut tc, &mut ts] {
        t.max_idle_timeout(Some(IdleTimeout::try_from(Duration::from_secs(60)).unwrap()));
        t.max_concurrent_bidi_streams(VarInt::from_u32(100));
        t.max_concurrent_uni_streams(VarInt::from_u32(100));
    }
    let (mut sim, ccfg) = default_pair(seed, tc, ts);
    sim.keep_history = true;
    sim.net.latency_ns = *rng.pick(&[1_000_000u64, 10_000_000]);
    sim.net.path_mtu = 65000;
    sim.ledger.on = true;
    sim.nodes[SERVER].max_datagrams = rng.range(1, 10) as usize;
    // the injection hook writes a packet that holds nothing but the injected frames: no GSO batch may start with it
    sim.nodes[CLIENT].max_datagrams = 1;
    if rng.chance(1, 4) {
        sim.nodes[SERVER].policy = IncomingPolicy::Retry;
    }
    let mut w = Workload::new(seed);
    w.sides[CLIENT].plans = Workload::random_plans(&mut rng, 2, 40_000);
    w.sides[SERVER].plans = Workload::random_plans(&mut rng, 1, 20_000);
    let cch = sim.connect(ccfg.clone());
    w.ch[CLIENT] = Some(cch);
    let sc_crypto = server_config(0, TransportConfig::default(), &SimClock(Arc::new(std::sync::Mutex::new(std::time::UNIX_EPOCH)))).crypto;
    // 0: stateless inputs only, 1: off-path challenges, 2: alternating sources, 3: everything
    let mode = rng.below(4);
    let saddr = sim.nodes[SERVER].addr;
    let caddr = sim.nodes[CLIENT].addr;
    if std::env::var("VERIF_SIM_VERBOSE").is_ok() {
        eprintln!("--- offpath seed {seed}: mode {mode}");
        sim.record_plain = true;
    }

    let mut handled: BTreeMap<&'static str, u64> = BTreeMap::new();
    // (A) stateless attack datagrams, scheduled up front: (at, from, data, kind)
    let mut attacks: Vec<(u64, std::net::SocketAddr, Vec<u8>, &'static str)> = Vec::new();
    let mut next_port = 56000u16;
    let fresh = |p: &mut u16| {
        *p += 1;
        addr(*p)
    };
    if mode == 0 || mode == 3 {
        for _ in 0..rng.range(2, 10) {
            let (dl, sl) = *rng.pick(&[(0usize, 0usize), (8, 8), (20, 20), (8, 0), (0, 20)]);
            let min = 7 + dl + sl;
            let size = (*rng.pick(&[7usize, 8, 13, 14, 27, 47, 48, 100, 400, 1199, 1200, 1400])).max(min);
            let mut d = vec![0x80 | (rng.below(128) as u8)];
            d.extend_from_slice(&(*rng.pick(&[0x6b33_43cfu32, 0xface_b00c, 0x0a1a_2a3a, 2, 0xffff_ffff])).to_be_bytes());
            d.push(dl as u8);
            d.extend(rng.bytes(dl));
            d.push(sl as u8);
            d.extend(rng.bytes(sl));
            let n = size - d.len();
            d.extend(rng.bytes(n));
            // a pool of three source addresses: repeated small datagrams from one address accumulate
            let from = addr(56900 + rng.below(3) as u16);
            attacks.push((rng.below(3_000_000_000), from, d, "unsupported-version"));
        }
        for _ in 0..rng.range(2, 8) {
            // "a supported-version Initial carried in a datagram shorter than 1200 bytes", whatever its header looks like:
            // DCID of every length 0..20 (half of them shorter than the 8 bytes a client must use, RFC 9000 7.2), source CID
            // 0/8/20, with and without a token (random bytes: not one the server issued), datagram sizes from the smallest
            // that holds the packet
            let dl = match rng.below(6) {
                0 | 1 | 2 => rng.below(8) as usize,
                3 => 8,
                _ => 8 + rng.below(13) as usize,
            };
            let sl = *rng.pick(&[8usize, 8, 0, 20]);
            let tl = if rng.chance(1, 3) { 1 + rng.below(40) as usize } else { 0 };
            let min = craft_initial_min(dl, sl, tl);
            let size = (*rng.pick(&[0usize, 0, 40, 64, 100, 600, 1000, 1199, 1199, 1200])).max(min);
            let dcid = rng.bytes(dl);
            let scid = rng.bytes(sl);
            let token = rng.bytes(tl);
            let d = craft_initial_token(&*sc_crypto, &dcid, &scid, &token, size);
            let kind = if size < 1200 { "short-initial" } else { "full-initial" };
            if size < 1200 {
                *handled.entry(if dl < 8 { "short-initial:dcid<8" } else { "short-initial:dcid>=8" }).or_default() += 1;
                if tl > 0 {
                    *handled.entry("short-initial:token").or_default() += 1;
                }
            }
            attacks.push((rng.below(3_000_000_000), fresh(&mut next_port), d, kind));
        }
        for i in 0..rng.below(3) {
            let (mut s2, c2) = default_pair(seed.wrapping_add(3000 + i), TransportConfig::default(), TransportConfig::default());
            let ch = s2.connect(c2);
            let mut buf = Vec::new();
            let now = s2.t();
            if let Some(t) = s2.conn(CLIENT, ch).poll_transmit(now, 1, &mut buf) {
                let mut d = buf[..t.size].to_vec();
                d.truncate(*rng.pick(&[50usize, 600, 1199]));
                attacks.push((rng.below(3_000_000_000), fresh(&mut next_port), d, "truncated-initial"));
            }
        }
    }
    attacks.sort_by_key(|a| a.0);
    let xaddr = addr(57001);
    let yaddr = addr(57002);
    let mut challenges_left = if mode == 1 || mode == 3 { rng.range(2, 6) } else { 0 };
    let mut alternations_left = if mode == 2 || mode == 3 { rng.range(3, 8) } else { 0 };
    let mut alt_count = 0u64;
    // withheld challenge datagram of the hostile client: (packet number, bytes)
    let mut withheld: Option<(u64, Vec<u8>)> = None;
    let mut next_act = 0u64;
    let mut quiet_since: Option<u64> = None;
    let end = sim.run_until(60_000_000_000, 300_000, |sim| {
        if w.ch[SERVER].is_none() {
            if let Some(&ch) = sim.nodes[SERVER].accepted.first() {
                w.ch[SERVER] = Some(ch);
            }
        }
        w.tick(sim);
        // (A)
        while attacks.first().is_some_and(|a| a.0 <= sim.now) {
            let (_, from, data, kind) = attacks.remove(0);
            let before = (sim.nodes[SERVER].conns.len(), sim.nodes[SERVER].accepted.len(), sim.nodes[SERVER].ep.open_connections(), sim.nodes[SERVER].ep.incoming_buffer_bytes(), sim.nodes[SERVER].accept_errors.len());
            let tlen = sim.trace.len();
            let len = data.len();
            let head = crate::hex(&data[..data.len().min(48)]);
            let dcid_len = data.get(5).copied().unwrap_or(0);
            let at = sim.now;
            sim.handle_datagram(SERVER, Dgram { at, seq: 0, from, to: saddr, ecn: None, data, origin: usize::MAX, genuine: false });
            *handled.entry(kind).or_default() += 1;
            let after = (sim.nodes[SERVER].conns.len(), sim.nodes[SERVER].accepted.len(), sim.nodes[SERVER].ep.open_connections(), sim.nodes[SERVER].ep.incoming_buffer_bytes(), sim.nodes[SERVER].accept_errors.len());
            if kind == "short-initial" || kind == "truncated-initial" {
                let replies: Vec<String> = sim.trace[tlen..].iter().filter(|r| matches!(r, Rec::EpTx { .. } | Rec::Tx { .. })).map(|r| format!("{r:?}")).collect();
                if !replies.is_empty() {
                    sim.fail("short-initial-reply", format!("a supported-version Initial in a {len}-byte datagram from {from} (DCID length {dcid_len}; first bytes {head}) was answered: {replies:?}"));
                }
                if before != after {
                    sim.fail("short-initial-state", format!("a supported-version Initial in a {len}-byte datagram from {from} changed the server's (connections, accepted, open_connections, buffered bytes, accept errors) {before:?} -> {after:?}"));
                }
            }
            if kind == "full-initial" && after.0 > before.0 {
                *handled.entry("full-initial-created-connection").or_default() += 1;
            }
        }
        let (Some(sch), true) = (w.ch[SERVER], sim.nodes[CLIENT].conns[&cch].obs.connected) else { return false };
        if !sim.nodes[SERVER].conns[&sch].obs.connected || sim.conn(CLIENT, cch).is_closed() {
            return false;
        }
        // (B) hostile authenticated peer: PATH_CHALLENGE from a spoofed source, behind a later packet
        if let Some((pn, data)) = withheld.take() {
            if sim.snap(SERVER, sch).spaces[2].rx_packet > pn {
                let at = sim.now;
                *handled.entry("off-path-challenge").or_default() += 1;
                sim.handle_datagram(SERVER, Dgram { at, seq: 0, from: xaddr, to: saddr, ecn: None, data, origin: usize::MAX, genuine: false });
            } else {
                withheld = Some((pn, data));
            }
        } else if challenges_left > 0 && sim.now >= next_act {
            let mut f = vec![0x1a];
            f.extend(sim.rng.bytes(8));
            let now = sim.t();
            let _ = sim.conn(CLIENT, cch).verif_take_injected();
            if sim.conn(CLIENT, cch).verif_injection_pending()[2] == 0 && sim.conn(CLIENT, cch).verif_inject_frames(2, f) {
                let mut buf = Vec::new();
                if let Some(t) = sim.conn(CLIENT, cch).poll_transmit(now, 1, &mut buf) {
                    let data = buf[..t.size].to_vec();
                    let inj = sim.conn(CLIENT, cch).verif_take_injected();
                    match inj.last() {
                        Some(&(2, pn, n)) if inj.len() == 1 && n > 0 && t.size < 100 => {
                            challenges_left -= 1;
                            withheld = Some((pn, data));
                            // something later for the server to process first
                            sim.conn(CLIENT, cch).ping();
                        }
                        _ => sim.send_wire(CLIENT, caddr, t.destination, t.ecn, data),
                    }
                }
            }
            next_act = sim.now + 4 * sim.net.latency_ns + 1_000_000;
        }
        // (C) alternating spoofed sources with small in-order packets, once the client's workload is quiet
        if challenges_left == 0 && withheld.is_none() && alternations_left > 0 && sim.now >= next_act {
            let quiet = w.complete();
            if quiet && quiet_since.is_none() {
                quiet_since = Some(sim.now);
            }
            if quiet_since.is_some_and(|q| sim.now > q + 200_000_000) {
                sim.conn(CLIENT, cch).ping();
                let now = sim.t();
                let mut buf = Vec::new();
                if let Some(t) = sim.conn(CLIENT, cch).poll_transmit(now, 1, &mut buf) {
                    let data = buf[..t.size].to_vec();
                    if t.size < 100 {
                        alternations_left -= 1;
                        let from = if alt_count % 2 == 0 { xaddr } else { yaddr };
                        alt_count += 1;
                        *handled.entry("alternating-source").or_default() += 1;
                        let at = sim.now;
                        sim.handle_datagram(SERVER, Dgram { at, seq: 0, from, to: saddr, ecn: None, data, origin: usize::MAX, genuine: true });
                    } else {
                        sim.send_wire(CLIENT, caddr, t.destination, t.ecn, data);
                    }
                }
                next_act = sim.now + 300_000_000;
            }
        }
        attacks.is_empty() && challenges_left == 0 && withheld.is_none() && alternations_left == 0 && w.complete() && sim.now > next_act + 2_000_000_000
    });
    out.runs += 1;
    out.evaluations += sim.steps + sim.ledger.checks;
    let n_handled: u64 = handled.values().sum();
    if sim.nodes[CLIENT].conns[&cch].obs.connected && n_handled >= 3 {
        out.nontrivial += 1;
    }
    out.count(&format!("mode:{mode}"), 1);
    out.count(&format!("end:{end:?}"), 1);
    out.count("ledger-checks", sim.ledger.checks);
    out.count("off-path-transmits", sim.ledger.off_path_tx);
    for (k, v) in &handled {
        out.count(&format!("attack:{k}"), *v);
    }
    if out.samples.len() < 2 {
        let mut sent: Vec<_> = sim.nodes[SERVER].sent_to.iter().map(|(a, b)| (a.port(), *b, *sim.nodes[SERVER].recv_from.get(a).unwrap_or(&0))).collect();
        sent.sort();
        out.samples.push(format!("seed {seed}: mode {mode}; attack datagrams {handled:?}; server (port, sent, received) {sent:?}; end {end:?} at t={}ms", sim.now / 1_000_000));
    }
    if std::env::var("VERIF_SIM_VERBOSE").is_ok() {
        for r in sim.trace.iter().filter(|r| matches!(r, Rec::EpTx { .. } | Rec::Ev { .. }) || matches!(r, Rec::Tx { dst, .. } if *dst != caddr && *dst != saddr)) {
            eprintln!("{r:?}");
        }
        for l in sim.plain.iter().filter(|l| l.contains("Path")) {
            eprintln!("plain {l}");
        }
    }
    for f in sim.fails.drain(..) {
        out.fails.push(format!("{f} seed={seed}"));
    }
}
