//! Scenario `progress` (C02): progress under every transport configuration the API accepts, with the auxiliary API
//! calls interleaved at any step, under EXHAUSTIVE loss masks over the first 8 datagrams of the handshake / over 8
//! consecutive datagrams of the transfer, judged by completion within a PTO-derived bound and by a property-derived
//! wedge oracle evaluated whenever the whole system is quiescent.
//!
//! Oracles (all derived from the property text / RFC 9000, 9001, 9002, none from the arming conditions of the code):
//!  * `wedge-quiescent-with-obligation`: nothing is on the wire, no endpoint has any timer armed that makes it act
//!    (only Idle / KeepAlive / KeyDiscard / PushNewCid may be armed), both connections are open, the applications
//!    have consumed every event, and SOMETHING is still owed: ack-eliciting packets outstanding (RFC 9002 6.2.1: a
//!    PTO timer is armed while ack-eliciting packets are in flight; 6.2.2.1 the client arms it until the handshake is
//!    confirmed), a frame queued but never written, stream data accepted from the application but never sent, an
//!    application blocked on an event that the state says is due (Writable with credit available, Available with
//!    stream credit available, Readable with data buffered, Finished with everything acknowledged), or credit the
//!    peer waits for although the local application consumed everything (RFC 9000 4.1, 4.6).
//!  * `progress-wedge`: a loss mask over 8 datagrams delays completion by more than the PTO schedule allows.
//!  * `handshake-never-completed`, `connection-lost-under-fair-loss`, `workload-incomplete` (as in `xfer`, without the
//!    hole "server accepted, client never connected and never lost").
use std::cell::Cell;
use std::rc::Rc;
use std::sync::Arc;
use std::time::Duration;

use quinn_proto::{congestion, AckFrequencyConfig, Dir, IdleTimeout, MtuDiscoveryConfig, TransportConfig, VarInt};

use crate::scenarios::Outcome;
use crate::sim::*;
use crate::workload::*;
use crate::Rng;

pub const PROGRESS_RULE: &str = "one seed = one of three modes. (random, seeds = 0,1 mod 4) both peers draw EVERY TransportConfig knob from boundary-biased legal values (windows 1..max, stream limits 0/1/2/3/8/9/15/16/17/100, send_window, send_fairness, packet/time/persistent-congestion thresholds, initial_rtt 1 ms..3 s, initial/min MTU, MTU discovery off/on with interval/cooldown/minimum_change/upper bound, pad_to_mtu, ack-frequency (threshold 0..100, max_ack_delay, reordering threshold), pacing cap 3 kB/s..unlimited, keep-alive, idle timeout incl. none, crypto buffer, spin, datagram buffers, controller, GSO), random fair-loss network, event-driven workloads sized to the configuration with streams held open, and up to 40 run-time API calls at random steps from the first step on (set_receive_window, set_send_window, set_max_concurrent_streams incl. n->n+1, n->0->n and 0->n, force_key_update by both sides before and after confirmation and back to back, ping, local_address_changed). (hsmask, seeds = 2 mod 4) one configuration, EVERY subset of the first 8 datagrams of the handshake dropped, client->server and server->client (512 executions + baseline), with or without Retry. (xfermask, seeds = 3 mod 4) one configuration, EVERY subset of 8 consecutive datagrams of one direction dropped starting at a random datagram of the transfer (256 executions + baseline). Oracles: wedge-quiescent-with-obligation at every globally quiescent point, completion within baseline + 3*(2^(k+1)-1)*PTO for k dropped datagrams (progress-wedge), handshake completion, no connection loss, workload completion; non-trivial = handshake completed and (random: >= 1 API call and >= 1 fault; masks: all executions completed)";

/// What was drawn for one peer (needed to size the workload, the network and the bounds)
#[derive(Clone, Debug)]
pub struct Knobs {
    pub lim: [u32; 2],
    pub rwnd: u64,
    pub srwnd: u64,
    pub swnd: u64,
    pub cap: Option<u64>,
    pub initial_rtt: Duration,
    pub idle: Option<Duration>,
    pub keep_alive: Option<Duration>,
    pub min_mtu: u16,
    pub initial_mtu: u16,
    pub desc: String,
}

/// Every knob of `TransportConfig` drawn from boundary-biased legal values. `calm`: configuration for the mask modes
/// (no idle timeout shorter than the bound the masks are judged by).
pub fn full_transport(rng: &mut Rng, calm: bool) -> (TransportConfig, Knobs) {
    let mut t = TransportConfig::default();
    let mut d = Vec::<String>::new();
    // windows
    let rwnd = if rng.chance(1, 2) { *rng.pick(&[1u64, 64, 1000, 5000, 20_000, 1_000_000]) } else { VarInt::MAX.into_inner() };
    let srwnd = if rng.chance(1, 2) { *rng.pick(&[1u64, 100, 500, 3000, 20_000, 1_250_000, 10_000_000]) } else { 1_250_000 };
    let swnd = if rng.chance(1, 3) { *rng.pick(&[1u64, 100, 1500, 8000, 100_000, 10_000_000]) } else { 10_000_000 };
    t.receive_window(VarInt::from_u64(rwnd).unwrap());
    t.stream_receive_window(VarInt::from_u64(srwnd).unwrap());
    t.send_window(swnd);
    d.push(format!("rwnd={rwnd} srwnd={srwnd} swnd={swnd}"));
    let lim = [*rng.pick(&[0u32, 1, 2, 3, 8, 9, 15, 16, 17, 100]), *rng.pick(&[0u32, 1, 2, 3, 8, 9, 15, 16, 17, 100])];
    t.max_concurrent_bidi_streams(VarInt::from_u32(lim[0]));
    t.max_concurrent_uni_streams(VarInt::from_u32(lim[1]));
    d.push(format!("lim={lim:?}"));
    if rng.chance(1, 3) {
        t.send_fairness(false);
        d.push("unfair".into());
    }
    // loss detection
    if rng.chance(1, 3) {
        let v = *rng.pick(&[3u32, 4, 10, 100]);
        t.packet_threshold(v);
        d.push(format!("pkt_thr={v}"));
    }
    if rng.chance(1, 3) {
        let v = *rng.pick(&[1.125f32, 1.5, 2.0, 4.0]);
        t.time_threshold(v);
        d.push(format!("time_thr={v}"));
    }
    if rng.chance(1, 3) {
        let v = *rng.pick(&[1u32, 2, 3, 10]);
        t.persistent_congestion_threshold(v);
        d.push(format!("pc_thr={v}"));
    }
    let initial_rtt = if rng.chance(1, 2) { Duration::from_millis(*rng.pick(&[1u64, 10, 100, 333, 1000, 3000])) } else { Duration::from_millis(333) };
    t.initial_rtt(initial_rtt);
    d.push(format!("irtt={}ms", initial_rtt.as_millis()));
    // MTU
    let min_mtu = if rng.chance(1, 4) { *rng.pick(&[1200u16, 1250, 1400]) } else { 1200 };
    let initial_mtu = if rng.chance(1, 3) { *rng.pick(&[1200u16, 1300, 1400]) } else { 1200 }.max(min_mtu);
    t.min_mtu(min_mtu);
    t.initial_mtu(initial_mtu);
    d.push(format!("mtu={min_mtu}/{initial_mtu}"));
    match rng.below(4) {
        0 => {
            t.mtu_discovery_config(None);
            d.push("mtud=off".into());
        }
        1 | 2 => {
            let mut m = MtuDiscoveryConfig::default();
            let ub = *rng.pick(&[1200u16, 1300, 1452, 2000, 9000, 65527]);
            m.upper_bound(ub);
            let iv = *rng.pick(&[1u64, 5, 600]);
            m.interval(Duration::from_secs(iv));
            let cd = *rng.pick(&[1u64, 60]);
            m.black_hole_cooldown(Duration::from_secs(cd));
            let mc = *rng.pick(&[20u16, 64, 200]);
            m.minimum_change(mc);
            t.mtu_discovery_config(Some(m));
            d.push(format!("mtud=ub{ub}/iv{iv}/cd{cd}/mc{mc}"));
        }
        _ => {}
    }
    if rng.chance(1, 3) {
        t.pad_to_mtu(true);
        d.push("pad".into());
    }
    if rng.chance(1, 3) {
        let mut a = AckFrequencyConfig::default();
        let th = *rng.pick(&[0u32, 1, 2, 10, 100]);
        a.ack_eliciting_threshold(VarInt::from_u32(th));
        let mad = *rng.pick(&[None, Some(1u64), Some(25), Some(200), Some(16_000)]);
        a.max_ack_delay(mad.map(Duration::from_millis));
        let ro = *rng.pick(&[0u32, 1, 2, 3, 10]);
        a.reordering_threshold(VarInt::from_u32(ro));
        t.ack_frequency_config(Some(a));
        d.push(format!("ackfreq=th{th}/mad{mad:?}/ro{ro}"));
    }
    let cap = if rng.chance(1, 3) { Some(*rng.pick(&[3_000u64, 20_000, 1_000_000, u64::MAX])) } else { None };
    t.max_outgoing_bytes_per_second(cap);
    if let Some(c) = cap {
        d.push(format!("cap={c}"));
    }
    let keep_alive = if rng.chance(1, 3) { Some(Duration::from_millis(*rng.pick(&[50u64, 200, 3000]))) } else { None };
    t.keep_alive_interval(keep_alive);
    let idle = if calm {
        if rng.chance(1, 2) { None } else { Some(Duration::from_secs(1_000_000)) }
    } else {
        match rng.below(5) {
            0 => None,
            1 => Some(Duration::from_secs(*rng.pick(&[20u64, 60, 600]))),
            _ => Some(Duration::from_secs(30)),
        }
    };
    // an idle timeout shorter than the PTO backoff that fair loss (<= 3 consecutive drops per direction, i.e. up to 6
    // futile probes) can produce ends the connection legitimately (RFC 9000 10.1): not a supported combination here
    let idle = idle.map(|x| if x < 64 * 3 * initial_rtt.max(Duration::from_millis(333)) { Duration::from_secs(*rng.pick(&[600u64, 3600])).max(64 * 3 * initial_rtt) } else { x });
    t.max_idle_timeout(idle.map(|x| IdleTimeout::try_from(x).unwrap()));
    d.push(format!("ka={keep_alive:?} idle={idle:?}"));
    if rng.chance(1, 4) {
        // RFC 9000 7.5: at least 4096 bytes of out-of-order CRYPTO data must be buffered
        let v = *rng.pick(&[4096usize, 16_384, 1 << 20]);
        t.crypto_buffer_size(v);
        d.push(format!("cbuf={v}"));
    }
    if rng.chance(1, 3) {
        t.allow_spin(false);
    }
    if rng.chance(1, 4) {
        t.datagram_receive_buffer_size(*rng.pick(&[None, Some(0usize), Some(2000), Some(100_000)]));
        t.datagram_send_buffer_size(*rng.pick(&[0usize, 1500, 20_000]));
    }
    match rng.below(4) {
        0 => {
            t.congestion_controller_factory(Arc::new(congestion::NewRenoConfig::default()));
            d.push("reno".into());
        }
        1 => {
            t.congestion_controller_factory(Arc::new(congestion::BbrConfig::default()));
            d.push("bbr".into());
        }
        _ => {}
    }
    if rng.chance(1, 4) {
        t.enable_segmentation_offload(false);
        d.push("nogso".into());
    }
    (t, Knobs { lim, rwnd, srwnd, swnd, cap, initial_rtt, idle, keep_alive, min_mtu, initial_mtu, desc: d.join(" ") })
}

#[derive(Clone, Copy, Debug, PartialEq, Eq)]
pub enum Mode {
    Random,
    /// drop the datagrams i < 8 of direction `dir` (0 = client->server) with bit i of `mask`
    HsMask { dir: usize, mask: u32 },
    /// drop the datagrams start+i, i < 8, of direction `dir` with bit i of `mask`
    XferMask { dir: usize, mask: u32, start: u64 },
}

pub struct Res {
    pub fails: Vec<String>,
    pub end: RunEnd,
    pub done_at: u64,
    pub connected: bool,
    pub steps: u64,
    pub api_calls: u64,
    pub faults: u64,
    pub dropped_by_mask: u32,
    /// datagrams per direction put on the wire, and the count when the client saw Connected
    pub dgrams: [u64; 2],
    pub dgrams_at_connected: [u64; 2],
    pub quiescent_checks: u64,
    pub desc: String,
    pub bytes: u64,
    pub api_hist: Vec<(&'static str, u64)>,
    pub pto0_ns: u64,
}

const ACT_TIMERS: [usize; 5] = [0, 2, 4, 6, 8]; // LossDetection, Close, PathValidation, Pacing, MaxAckDelay

fn di(d: Dir) -> usize {
    if d == Dir::Bi {
        0
    } else {
        1
    }
}

/// Is the whole system quiescent: nothing addressed to a node on the wire, no application event unconsumed, no
/// connection with a timer that makes it act
fn globally_quiescent(sim: &Sim) -> bool {
    if sim.wire.iter().any(|d| sim.nodes.iter().any(|n| n.addr == d.to)) {
        return false;
    }
    for n in &sim.nodes {
        for c in n.conns.values().filter(|c| !c.removed) {
            if !c.app_events.is_empty() || !c.events.is_empty() {
                return false;
            }
            let s = c.conn.verif_snapshot();
            if ACT_TIMERS.iter().any(|i| s.timers[*i].is_some()) {
                return false;
            }
        }
    }
    true
}

/// The obligations that exist at a globally quiescent point (empty = none). `lims` = the stream-count limits
/// currently configured at each side (run-time changes included).
fn obligations(sim: &Sim, w: &Workload, lims: &[[u32; 2]; 2], confirmed: bool) -> Vec<String> {
    let mut ob = Vec::new();
    let (Some(cch), Some(sch)) = (w.ch[CLIENT], w.ch[SERVER]) else {
        // no server connection: the client's handshake is the obligation
        if let Some(cch) = w.ch[CLIENT] {
            let s = sim.snap(CLIENT, cch);
            if s.state == "handshake" || s.state == "established" {
                ob.push(format!("client: handshake not complete (state {}, no server connection) and nobody has a timer", s.state));
            }
        }
        return ob;
    };
    let chs = [cch, sch];
    let snaps = [sim.snap(CLIENT, cch), sim.snap(SERVER, sch)];
    let open = |s: &quinn_proto::verif::Snapshot| s.state == "handshake" || s.state == "established";
    if !open(&snaps[0]) || !open(&snaps[1]) {
        return ob;
    }
    let obl = [sim.nodes[CLIENT].conns[&cch].conn.verif_oblig(), sim.nodes[SERVER].conns[&sch].conn.verif_oblig()];
    let name = ["client", "server"];
    if snaps[0].state == "handshake" || snaps[1].state == "handshake" || !confirmed {
        ob.push(format!("handshake: client {} server {} confirmed-at-client {confirmed}", snaps[0].state, snaps[1].state));
    }
    for x in 0..2 {
        let p = 1 - x;
        let (s, o) = (&snaps[x], &obl[x]);
        // (a) RFC 9002 6.2.1: ack-eliciting packets outstanding and no PTO anywhere
        if s.path.in_flight_ack_eliciting > 0 {
            let sp: Vec<usize> = (0..3).filter(|i| s.spaces[*i].sent_in_flight).collect();
            ob.push(format!("{}: {} ack-eliciting packet(s) outstanding (spaces {sp:?}) and no loss-detection timer", name[x], s.path.in_flight_ack_eliciting));
        }
        // (c) frames queued but never written
        for i in 0..3 {
            if s.spaces[i].has_keys && !o.queued[i].is_empty() {
                let amp = !s.path.validated && s.path.total_sent >= 3 * s.path.total_recvd;
                ob.push(format!("{}: queued but unsent in space {i}: {:?}{}", name[x], o.queued[i], if amp { " (anti-amplification blocked: the peer owes a datagram)" } else { "" }));
            }
        }
        // (d) stream data accepted but never sent (quinn accepts data only within the peer's credit)
        for st in &o.streams.send {
            if !st.reset && (st.unsent || st.fin_pending) {
                ob.push(format!("{}: stream {} has {} not yet sent (offset {}, peer limit {})", name[x], st.id, if st.unsent { "data" } else { "FIN" }, st.offset, st.max_data));
            }
        }
        if o.dgrams_queued > 0 {
            ob.push(format!("{}: {} application datagram(s) queued", name[x], o.dgrams_queued));
        }
        if o.streams.events_queued > 0 || s.events_queued > 0 || o.streams.opened_flag.iter().any(|b| *b) {
            ob.push(format!("{}: application events queued but poll() was drained ({} stream, {} connection, opened {:?})", name[x], o.streams.events_queued, s.events_queued, o.streams.opened_flag));
        }
        // (f) application blocked on a write
        let side = &w.sides[x];
        let mut want_write = false;
        for (k, st) in &side.send {
            let plan = &side.plans[st.plan_idx];
            if st.finished || st.reset || st.stopped.is_some() || st.written >= plan.len {
                // (i) finished but never told
                if st.finished && !st.fin_acked && st.stopped.is_none() {
                    let so = o.streams.send.iter().find(|e| e.id == *k);
                    if so.map_or(true, |e| !e.unsent && !e.fin_pending) && s.path.in_flight_ack_eliciting == 0 {
                        ob.push(format!("{}: stream {k} finished, nothing of it unsent or in flight, but no Finished event (stream state {so:?})", name[x]));
                    }
                }
                continue;
            }
            want_write = true;
            let Some(so) = o.streams.send.iter().find(|e| e.id == *k) else {
                ob.push(format!("{}: application waits to write stream {k} but the stream is gone", name[x]));
                continue;
            };
            let credit = so.max_data.saturating_sub(so.offset);
            if credit > 0 && o.streams.write_limit > 0 {
                ob.push(format!("{}: application was told Blocked on stream {k} (written {}), stream credit {credit} and connection budget {} are available, but no Writable event", name[x], st.written, o.streams.write_limit));
            } else if credit == 0 {
                // does the receiver's application still hold unread data of it?
                let r = snaps[p].streams.recv_state.iter().find(|e| e.0 == *k);
                if let Some((_, end, read, sent_max, stopped)) = r {
                    if !*stopped && *read >= *end && *end >= so.offset {
                        ob.push(format!("{}: stream {k} sender out of stream credit (offset {} = limit {}), the receiving application has read everything ({read}), but no MAX_STREAM_DATA beyond {sent_max} reaches the sender", name[p], so.offset, so.max_data));
                    }
                }
            }
        }
        if want_write && o.streams.write_limit == 0 {
            let st = &s.streams;
            if st.max_data <= st.data_sent {
                let unread: u64 = snaps[p].streams.recv_state.iter().map(|e| e.1.saturating_sub(e.2)).sum();
                if unread == 0 {
                    ob.push(format!("{}: {} is out of connection credit (sent {} = limit {}), the receiving application has read everything, receiver local_max_data {} sent_max_data {}: MAX_DATA withheld", name[p], name[x], st.data_sent, st.max_data, snaps[p].streams.local_max_data, snaps[p].streams.sent_max_data));
                }
            } else if s.path.in_flight_ack_eliciting == 0 {
                ob.push(format!("{}: send window exhausted (unacked_data {} >= send_window {}) although nothing is in flight", name[x], st.unacked_data, st.send_window));
            }
        }
        // (g) application blocked on opening a stream
        if side.started && side.next_plan < side.plans.len() {
            let d = di(side.plans[side.next_plan].dir);
            let st = &s.streams;
            if st.max[d] > st.next[d] {
                ob.push(format!("{}: application waits to open a {} stream, the peer's limit {} > {} opened, but no Available event", name[x], if d == 0 { "bi" } else { "uni" }, st.max[d], st.next[d]));
            } else {
                // streams of this direction the receiver still counts as open: those whose end the receiving application
                // has not seen (everything is acknowledged at a quiescent point without outstanding packets)
                let mut open_cnt = 0u64;
                for (k, ss) in &side.send {
                    if di(side.plans[ss.plan_idx].dir) != d {
                        continue;
                    }
                    let closed = w.sides[p].recv.get(k).is_some_and(|r| r.fin || r.reset.is_some());
                    if !closed {
                        open_cnt += 1;
                    }
                }
                if open_cnt < lims[p][d] as u64 && snaps[p].path.in_flight_ack_eliciting == 0 {
                    ob.push(format!("{}: {} waits to open a {} stream (limit {} = opened {}), only {open_cnt} of its streams are still open at the receiver whose limit is {}: MAX_STREAMS withheld (receiver max_remote {}, sent_max_remote {})", name[p], name[x], if d == 0 { "bi" } else { "uni" }, st.max[d], st.next[d], lims[p][d], snaps[p].streams.max_remote[d], obl[p].streams.sent_max_remote[d]));
                }
            }
        }
        // (h) data buffered for an application that was not told
        for (id, end, read, _, stopped) in &s.streams.recv_state {
            let done = side.recv.get(id).is_some_and(|r| r.fin || r.reset.is_some());
            if !*stopped && read < end && !done && snaps[p].path.in_flight_ack_eliciting == 0 && obl[p].streams.send.iter().all(|e| e.id != *id || !e.unsent) {
                ob.push(format!("{}: stream {id} has data up to {end} but the application read {read} and has no Readable/Opened event (known to the application: {})", name[x], side.recv.contains_key(id)));
            }
        }
        let _ = chs;
    }
    ob
}

pub struct Spec {
    pub seed: u64,
    pub mode: Mode,
    pub verbose: bool,
}

/// One execution.
pub fn run(spec: &Spec) -> Res {
    let seed = spec.seed;
    let mut rng = Rng::new(seed ^ 0xc02c02);
    let calm = spec.mode != Mode::Random;
    let (tc, kc) = full_transport(&mut rng, calm);
    let (ts, ks) = full_transport(&mut rng, calm);
    let k = [kc, ks];
    // as `default_pair`, but the lifetime of Retry tokens (a server policy, RFC 9000 8.1.3, not a transport knob) is long
    // enough for the PTO backoff the loss patterns of this scenario can produce
    let (mut sim, ccfg) = {
        use quinn_proto::Endpoint;
        use std::sync::Mutex;
        let clock = SimClock(Arc::new(Mutex::new(std::time::UNIX_EPOCH + Duration::from_secs(1_700_000_000))));
        let mut sc = server_config(seed, ts, &clock);
        sc.retry_token_lifetime(Duration::from_secs(10_000_000));
        let server = Endpoint::new(Arc::new(endpoint_config(seed ^ 1, 8, None)), Some(Arc::new(sc)), true);
        let client = Endpoint::new(Arc::new(endpoint_config(seed ^ 2, 8, None)), None, true);
        (Sim::new(seed, client, server, clock), client_config(seed, tc))
    };
    sim.model_trace = false;
    // network
    let mut net = NetCfg::default();
    net.latency_ns = *rng.pick(&[0u64, 1_000_000, 10_000_000, 80_000_000]);
    if calm {
        net.jitter_ns = 0;
    } else {
        net.jitter_ns = *rng.pick(&[0u64, 0, 2_000_000, 50_000_000]);
        net.drop_permille = *rng.pick(&[0u64, 10, 50, 150, 300]);
        net.dup_permille = *rng.pick(&[0u64, 0, 20, 200]);
        net.corrupt_permille = *rng.pick(&[0u64, 0, 10]);
        net.replay_permille = *rng.pick(&[0u64, 0, 20]);
        net.ce = rng.chance(1, 10);
    }
    // `initial_mtu` / `min_mtu` above the real path MTU is a documented misconfiguration, not a supported configuration
    let need = k[0].initial_mtu.max(k[1].initial_mtu).max(k[0].min_mtu).max(k[1].min_mtu) as usize;
    net.path_mtu = (*rng.pick(&[1200usize, 1280, 1452, 1500, 4000, 65_000])).max(need);
    sim.net = net;
    sim.nodes[CLIENT].max_datagrams = rng.range(1, 10) as usize;
    sim.nodes[SERVER].max_datagrams = rng.range(1, 10) as usize;
    if !calm {
        if rng.chance(1, 3) {
            sim.drv.spurious_permille = *rng.pick(&[50u64, 300]);
        }
        if rng.chance(1, 4) {
            sim.drv.late_ns = *rng.pick(&[100_000u64, 5_000_000, 200_000_000]);
        }
    }
    if rng.chance(1, 4) {
        sim.nodes[SERVER].policy = IncomingPolicy::Retry;
    }
    // workload sized to the configuration: what x may send to p within ~40 s of pacing cap and ~400 window turns
    let budget = |x: usize| -> u64 {
        let p = 1 - x;
        let win = k[p].rwnd.min(k[p].srwnd).min(k[x].swnd);
        let mut b = 200_000u64.min(win.saturating_mul(150));
        for c in [k[x].cap, k[p].cap].into_iter().flatten() {
            b = b.min(c.saturating_mul(if calm { 5 } else { 20 }));
        }
        if calm {
            b = b.min(40_000);
        }
        b.max(1)
    };
    let mut w = Workload::new(seed);
    let np = [rng.below(6) as usize, rng.below(4) as usize];
    for x in 0..2 {
        let b = budget(x);
        let n = np[x].max(if calm && x == CLIENT { 1 } else { 0 });
        w.sides[x].plans = Workload::random_plans(&mut rng, n, (b / n.max(1) as u64).max(1));
        // keep to the budget (random_plans has a fixed-size class) and bound the number of write calls
        for pl in w.sides[x].plans.iter_mut() {
            pl.len = pl.len.min((b / n.max(1) as u64).max(1)).min(pl.chunk as u64 * 3000);
        }
        w.sides[x].unordered_permille = *rng.pick(&[0u64, 300, 1000]);
    }
    // streams held open (finished only later) so that the stream-count hysteresis matters
    let mut held: Vec<(usize, usize, u64)> = Vec::new(); // (side, plan, release step)
    for x in 0..2 {
        for i in 0..w.sides[x].plans.len() {
            if rng.chance(1, 4) {
                w.sides[x].plans[i].finish = false;
                held.push((x, i, rng.range(20, 600)));
            }
        }
    }
    // current stream-count limits per side; a configured 0 is either raised at run time or makes the peer's plans of
    // that direction impossible (not a wedge): drop those
    let mut lims = [k[0].lim, k[1].lim];
    // scheduled API calls: (step, side, call)
    #[derive(Clone, Debug)]
    enum Call {
        RecvWin(u64),
        SendWin(u64),
        MaxStreams(usize, u32),
        KeyUpdate,
        Ping,
        AddrChanged,
    }
    let mut sched: Vec<(u64, usize, Call)> = Vec::new();
    for x in 0..2 {
        let p = 1 - x;
        for d in 0..2 {
            if lims[x][d] == 0 {
                let peer_wants = w.sides[p].plans.iter().any(|pl| di(pl.dir) == d);
                if peer_wants && spec.mode == Mode::Random && rng.chance(1, 2) {
                    let n = *rng.pick(&[1u32, 2, 8, 100]);
                    sched.push((rng.range(1, 300), x, Call::MaxStreams(d, n)));
                } else {
                    w.sides[p].plans.retain(|pl| di(pl.dir) != d);
                    held.retain(|h| h.0 != p);
                    for i in 0..w.sides[p].plans.len() {
                        w.sides[p].plans[i].finish = true;
                    }
                }
            }
        }
    }
    if spec.mode == Mode::Random {
        let ncalls = rng.below(41);
        for _ in 0..ncalls {
            let x = rng.below(2) as usize;
            let at = match rng.below(3) {
                0 => rng.range(1, 12),
                1 => rng.range(1, 200),
                _ => rng.range(1, 3000),
            };
            match rng.below(8) {
                0 => {
                    // shrink (possibly to almost nothing) and expand again later
                    let v = *rng.pick(&[1u64, 10, 500, 2000, 20_000, 1_000_000, 10 * k[x].rwnd.min(1 << 40)]);
                    sched.push((at, x, Call::RecvWin(v)));
                    if v < 2000 {
                        sched.push((at + rng.range(1, 60), x, Call::RecvWin(*rng.pick(&[5000u64, 100_000, 1_000_000]))));
                    }
                }
                1 => {
                    let v = *rng.pick(&[1u64, 100, 1500, 8000, 100_000, 10_000_000]);
                    sched.push((at, x, Call::SendWin(v)));
                    if v < 1500 {
                        sched.push((at + rng.range(1, 60), x, Call::SendWin(*rng.pick(&[8000u64, 1_000_000]))));
                    }
                }
                2 => {
                    let d = rng.below(2) as usize;
                    // n -> n+1, n -> 0 -> n, anything
                    match rng.below(3) {
                        0 => sched.push((at, x, Call::MaxStreams(d, u32::MAX))), // marker: current + 1
                        1 => {
                            sched.push((at, x, Call::MaxStreams(d, 0)));
                            sched.push((at + rng.range(1, 60), x, Call::MaxStreams(d, u32::MAX - 1))); // marker: restore
                        }
                        _ => {
                            let n = *rng.pick(&[1u32, 2, 8, 9, 16, 17, 100]);
                            sched.push((at, x, Call::MaxStreams(d, n)));
                        }
                    }
                }
                3 | 4 => {
                    sched.push((at, x, Call::KeyUpdate));
                    if rng.chance(1, 3) {
                        sched.push((at + rng.below(3), x, Call::KeyUpdate));
                        sched.push((at + rng.below(3), 1 - x, Call::KeyUpdate));
                    }
                }
                5 | 6 => sched.push((at, x, Call::Ping)),
                _ => sched.push((at, x, Call::AddrChanged)),
            }
        }
    }
    sched.sort_by_key(|c| c.0);
    let desc = format!(
        "client[{}] server[{}] net[lat {}ms jit {}ms drop {} dup {} mtu {}] retry {} plans c {:?} s {:?} held {:?} calls {}",
        k[0].desc, k[1].desc, sim.net.latency_ns / 1_000_000, sim.net.jitter_ns / 1_000_000, sim.net.drop_permille, sim.net.dup_permille, sim.net.path_mtu,
        matches!(sim.nodes[SERVER].policy, IncomingPolicy::Retry),
        w.sides[0].plans.iter().map(|p| (di(p.dir), p.len, p.chunk)).collect::<Vec<_>>(),
        w.sides[1].plans.iter().map(|p| (di(p.dir), p.len, p.chunk)).collect::<Vec<_>>(),
        held, sched.len()
    );
    // the loss mask
    let counts = Rc::new([Cell::new(0u64), Cell::new(0u64)]);
    let masked = Rc::new(Cell::new(0u32));
    {
        let (counts, masked, mode) = (counts.clone(), masked.clone(), spec.mode);
        sim.wire_filter = Some(Box::new(move |dg: &mut Dgram, _r: &mut Rng| {
            let dir = if dg.origin == CLIENT { 0 } else { 1 };
            let i = counts[dir].get();
            counts[dir].set(i + 1);
            let drop = match mode {
                Mode::Random => false,
                Mode::HsMask { dir: md, mask } => md == dir && i < 8 && (mask >> i) & 1 == 1,
                Mode::XferMask { dir: md, mask, start } => md == dir && i >= start && i < start + 8 && (mask >> (i - start)) & 1 == 1,
            };
            if drop {
                masked.set(masked.get() + 1);
            }
            !drop
        }));
    }
    // "a key update requested at any moment": in 1/6 of the random runs one side requests it at the earliest possible
    // moment, right after the datagram that completes its handshake and before anything is sent in reply
    let eager_ku: Option<usize> = {
        let mut r2 = Rng::new(seed ^ 0x6b75);
        if spec.mode == Mode::Random && r2.chance(1, 6) { Some(r2.below(2) as usize) } else { None }
    };
    let eager_done = Rc::new(Cell::new(0u32));
    // key-update ledger of the harness: per node the key phase it last saw and the lowest packet number that can have
    // been sent in the current phase (None = still the keys of the handshake); `ku_unconfirmed` = one of the harness'
    // own force_key_update() calls took effect although no packet of the then-current phase had been acknowledged
    // (RFC 9001 6.1 forbids initiating that update; since the repair "force_key_update waits for an acknowledged packet of
    // the current key phase" quinn refuses it, so this ledger - kept from the harness' own calls and the public snapshot,
    // not from quinn's guard - can no longer observe such a call: the key below is a tripwire for that repair)
    let ku_phase: Rc<[Cell<bool>; 2]> = Rc::new([Cell::new(false), Cell::new(false)]);
    let ku_first_pn: Rc<[Cell<Option<u64>>; 2]> = Rc::new([Cell::new(None), Cell::new(None)]);
    let ku_unconfirmed: Rc<std::cell::RefCell<Option<String>>> = Rc::new(std::cell::RefCell::new(None));
    // applies a force_key_update() of the harness and keeps the ledger
    let ku_call = {
        let (ku_phase, ku_first_pn, ku_unconfirmed) = (ku_phase.clone(), ku_first_pn.clone(), ku_unconfirmed.clone());
        move |sim: &mut Sim, node: usize, ch: usize| {
            let before = sim.snap(node, ch);
            sim.conn(node, ch).force_key_update();
            let after = sim.snap(node, ch);
            if after.key_phase != before.key_phase {
                if let Some(first) = ku_first_pn[node].get() {
                    let acked = before.spaces[2].largest_acked;
                    if acked.map_or(true, |a| a < first) && ku_unconfirmed.borrow().is_none() {
                        *ku_unconfirmed.borrow_mut() = Some(format!("node {node} force_key_update() at t={} took effect although no packet of its current key phase (first packet number {first}) was acknowledged (largest acknowledged {acked:?})", sim.now));
                    }
                }
                ku_phase[node].set(after.key_phase);
                ku_first_pn[node].set(Some(after.spaces[2].next_pn));
            }
        }
    };
    {
        let (eager_done, ku_phase, ku_first_pn) = (eager_done.clone(), ku_phase.clone(), ku_first_pn.clone());
        let ku_call = ku_call.clone();
        sim.rx_tap = Some(Box::new(move |sim: &mut Sim, node: usize, ch: usize, _len: usize, post: bool| {
            if !post || node > 1 {
                return;
            }
            // an update the peer initiated: seen right after the datagram, before anything is sent with the new keys
            let s = sim.snap(node, ch);
            if s.key_phase != ku_phase[node].get() {
                ku_phase[node].set(s.key_phase);
                ku_first_pn[node].set(Some(s.spaces[2].next_pn));
            }
            if eager_ku == Some(node) && eager_done.get() == 0 {
                let c = sim.conn(node, ch);
                if !c.is_handshaking() && !c.is_closed() {
                    ku_call(sim, node, ch);
                    eager_done.set(1);
                }
            }
        }));
    }
    let cch = sim.connect(ccfg);
    w.ch[CLIENT] = Some(cch);
    let deadline: u64 = if calm { 40_000_000_000_000 } else { 900_000_000_000 };
    let max_steps: u64 = 400_000;
    let end;
    let mut next_call = 0usize;
    let mut api_calls = 0u64;
    let mut api_hist: Vec<(&'static str, u64)> = vec![("recvwin", 0), ("sendwin", 0), ("maxstreams", 0), ("keyupdate", 0), ("keyupdate-before-confirmed", 0), ("ping", 0), ("addrchanged", 0), ("keyupdate-at-completion", 0)];
    let mut dgrams_at_connected = [0u64; 2];
    let mut seen_connected = false;
    let mut quiescent_checks = 0u64;
    let mut wedge_reported = false;
    let mut done_at = 0u64;
    let mut t_exec = 0u64;
    let mut last_keys: Vec<(bool, u64)> = Vec::new();
    let cfg_lims = lims;
    loop {
        let complete = |sim: &Sim, w: &Workload, held: &Vec<(usize, usize, u64)>| w.complete() && w.ch[SERVER].is_some() && sim.nodes[CLIENT].conns[&cch].obs.connected && held.iter().all(|h| w.sides[h.0].plans[h.1].finish);
        if complete(&sim, &w, &held) {
            end = RunEnd::Done;
            done_at = t_exec;
            break;
        }
        if sim.steps > max_steps {
            end = RunEnd::StepLimit;
            break;
        }
        if sim.now > deadline {
            end = RunEnd::Deadline;
            break;
        }
        let mut tick = |sim: &mut Sim| {
            if w.ch[SERVER].is_none() {
                if let Some(&ch) = sim.nodes[SERVER].accepted.first() {
                    w.ch[SERVER] = Some(ch);
                }
            }
            w.tick(sim);
            if !seen_connected && sim.nodes[CLIENT].conns[&cch].obs.connected {
                seen_connected = true;
                dgrams_at_connected = [counts[0].get(), counts[1].get()];
            }
            // an application waiting for a later moment acts at once when nothing else can happen before it
            let idle_now = (next_call < sched.len() || held.iter().any(|h| !w.sides[h.0].plans[h.1].finish)) && globally_quiescent(sim);
            // release held streams
            for h in held.iter_mut() {
                let (x, i, at) = *h;
                if (sim.steps >= at || idle_now) && !w.sides[x].plans[i].finish {
                    w.sides[x].plans[i].finish = true;
                    let Some(ch) = w.ch[x] else { continue };
                    let ids: Vec<u64> = w.sides[x].send.iter().filter(|(_, s)| s.plan_idx == i).map(|(k, _)| *k).collect();
                    for id in ids {
                        let len = w.sides[x].plans[i].len;
                        let st = w.sides[x].send.get_mut(&id).unwrap();
                        if st.written == len && !st.finished && st.stopped.is_none() {
                            let sid = quinn_proto::StreamId::from(VarInt::from_u64(id).unwrap());
                            if sim.conn(x, ch).send_stream(sid).finish().is_ok() {
                                st.finished = true;
                            }
                        }
                    }
                }
            }
            // API calls that are due
            while next_call < sched.len() && (sched[next_call].0 <= sim.steps || idle_now) {
                let (_, x, call) = sched[next_call].clone();
                // a call for a connection that does not exist yet (server before accept) waits for it; it is not dropped
                // (a dropped 0 -> n raise of a stream limit would leave the peer's plans impossible)
                let Some(ch) = w.ch[x] else { break };
                next_call += 1;
                if sim.conn(x, ch).is_closed() {
                    continue;
                }
                api_calls += 1;
                if spec.verbose {
                    eprintln!("API step {} t={} node {x}: {call:?} (confirmed {})", sim.steps, sim.now, sim.nodes[CLIENT].conns[&cch].obs.confirmed);
                }
                let confirmed = sim.nodes[CLIENT].conns[&cch].obs.confirmed;
                match call {
                    Call::RecvWin(v) => {
                        sim.conn(x, ch).set_receive_window(VarInt::from_u64(v).unwrap());
                        api_hist[0].1 += 1;
                    }
                    Call::SendWin(v) => {
                        sim.conn(x, ch).set_send_window(v);
                        api_hist[1].1 += 1;
                    }
                    Call::MaxStreams(d, n) => {
                        let n = if n == u32::MAX {
                            lims[x][d] + 1
                        } else if n == u32::MAX - 1 {
                            cfg_lims[x][d].max(1)
                        } else {
                            n
                        };
                        lims[x][d] = n;
                        sim.conn(x, ch).set_max_concurrent_streams(if d == 0 { Dir::Bi } else { Dir::Uni }, VarInt::from_u32(n));
                        api_hist[2].1 += 1;
                    }
                    Call::KeyUpdate => {
                        ku_call(sim, x, ch);
                        api_hist[3].1 += 1;
                        if !confirmed && !sim.conn(x, ch).is_handshaking() {
                            api_hist[4].1 += 1;
                        }
                    }
                    Call::Ping => {
                        sim.conn(x, ch).ping();
                        api_hist[5].1 += 1;
                    }
                    Call::AddrChanged => {
                        sim.conn(x, ch).local_address_changed();
                        api_hist[6].1 += 1;
                    }
                }
            }
        };
        t_exec = sim.now;
        let more = sim.step(&mut tick);
        if spec.verbose {
            let cur: Vec<(bool, u64, u64)> = (0..2).filter_map(|x| w.ch[x].map(|ch| { let s = sim.snap(x, ch); (s.key_phase, s.authentication_failures, s.total_authed_packets) })).collect();
            if cur.iter().map(|c| (c.0, c.1)).collect::<Vec<_>>() != last_keys {
                eprintln!("KEYS step {} t={}: (phase, auth failures, authed) client/server {cur:?} KeyDiscard timers {:?}", sim.steps, t_exec, (0..2).filter_map(|x| w.ch[x].map(|ch| sim.snap(x, ch).timers[3].map(|i| sim.off(i)))).collect::<Vec<_>>());
                last_keys = cur.iter().map(|c| (c.0, c.1)).collect();
            }
        }
        // the wedge oracle: evaluated after everything was serviced at this instant
        if !wedge_reported && !(next_call < sched.len() && w.ch[sched[next_call].1].is_some()) && globally_quiescent(&sim) {
            quiescent_checks += 1;
            let confirmed = sim.nodes[CLIENT].conns[&cch].obs.confirmed;
            // a limit the scenario itself has set to 0 for good is not an obligation of anybody
            let ob = obligations(&sim, &w, &lims, confirmed);
            if !ob.is_empty() {
                wedge_reported = true;
                let timers: Vec<String> = (0..2).filter_map(|x| w.ch[x].map(|ch| format!("{:?}", sim.snap(x, ch).timers.iter().map(|t| t.map(|i| sim.off(i) / 1_000_000)).collect::<Vec<_>>()))).collect();
                sim.fail("wedge-quiescent-with-obligation", format!("mode {:?} step {}: nothing on the wire, no acting timer (timers ms {timers:?}), yet: {}", spec.mode, sim.steps, ob.join(" | ")));
                end = RunEnd::Quiescent;
                break;
            }
        }
        if !more {
            if complete(&sim, &w, &held) {
                end = RunEnd::Done;
                done_at = t_exec;
            } else {
                end = RunEnd::Quiescent;
            }
            break;
        }
    }
    let connected = sim.nodes[CLIENT].conns[&cch].obs.connected;
    let lost_c = sim.nodes[CLIENT].conns[&cch].obs.lost.clone();
    let lost_s: Vec<String> = w.ch[SERVER].map_or(Vec::new(), |ch| sim.nodes[SERVER].conns[&ch].obs.lost.clone());
    if !lost_c.is_empty() || !lost_s.is_empty() {
        sim.fail("connection-lost-under-fair-loss", format!("mode {:?}: client {lost_c:?} server {lost_s:?}", spec.mode));
    } else if end != RunEnd::Done {
        if !connected {
            // (also when the server accepted: the hole of `xfer`)
            sim.fail("handshake-never-completed", format!("mode {:?}: run ended {end:?} at {} ms, server accepted {}", spec.mode, sim.now / 1_000_000, w.ch[SERVER].is_some()));
        }
        w.final_check(&mut sim, connected);
        if connected && w.complete() && !wedge_reported {
            sim.fail("workload-incomplete", format!("mode {:?}: held streams not released / run ended {end:?}", spec.mode));
        }
    } else {
        w.final_check(&mut sim, true);
        // settle on a clean network; whatever is still owed then is owed for ever
        sim.net.drop_permille = 0;
        sim.net.corrupt_permille = 0;
        sim.wire_filter = None;
        let t_end = done_at + 20_000_000_000;
        sim.now = sim.now.min(t_end);
        sim.time_cap = Some(t_end);
        let mut n = 0;
        loop {
            n += 1;
            let more = sim.step(&mut |s: &mut Sim| w.tick(s));
            if globally_quiescent(&sim) {
                quiescent_checks += 1;
                let confirmed = sim.nodes[CLIENT].conns[&cch].obs.confirmed;
                let ob = obligations(&sim, &w, &lims, confirmed);
                if !ob.is_empty() {
                    sim.fail("wedge-quiescent-with-obligation", format!("mode {:?} after completion: nothing on the wire, no acting timer, yet: {}", spec.mode, ob.join(" | ")));
                }
                break;
            }
            if !more || sim.now >= t_end || n > 50_000 {
                break;
            }
        }
        sim.time_cap = None;
    }
    if spec.verbose {
        for r in sim.trace.iter() {
            eprintln!("{r:?}");
        }
        for node in 0..2 {
            eprintln!("app node {node}: plans {:?} next {} send {:?} recv {:?}", w.sides[node].plans, w.sides[node].next_plan, w.sides[node].send, w.sides[node].recv.iter().map(|(k, v)| (*k, v.bytes, v.fin, v.unordered)).collect::<Vec<_>>());
            for (ch, nc) in sim.nodes[node].conns.iter() {
                eprintln!("node {node} conn {ch} stats {:?}\n   snapshot {:?}\n   oblig {:?}", nc.conn.stats(), nc.conn.verif_snapshot(), nc.conn.verif_oblig());
            }
        }
        eprintln!("{desc}\nnet {:?} faults {:?}", sim.net, sim.faults);
    }
    if let Some(e) = api_hist.iter_mut().find(|e| e.0 == "keyupdate-at-completion") {
        e.1 = eager_done.get() as u64;
    }
    // a failure of a run in which a force_key_update() of the harness took effect against RFC 9001 6.1, showing the
    // signature of the resulting key desynchronisation (packets of a peer no longer authenticate, or KEY_UPDATE_ERROR),
    // is reported under its own narrow key (formerly a recorded finding, now a violation: the library must refuse that
    // call); everything else keeps its key
    let mut fails: Vec<String> = sim.fails.drain(..).collect();
    if let Some(what) = ku_unconfirmed.borrow().clone() {
        let auth_fail: Vec<u64> = (0..2).filter_map(|x| w.ch[x].map(|ch| sim.snap(x, ch).authentication_failures)).collect();
        let signature = auth_fail.iter().any(|f| *f > 0) || fails.iter().any(|f| f.contains("KEY_UPDATE_ERROR"));
        let generic = |f: &String| ["key=connection-lost-under-fair-loss", "key=workload-incomplete", "key=wedge-quiescent-with-obligation", "key=handshake-never-completed"].iter().any(|k| f.starts_with(k));
        if signature && fails.iter().any(generic) {
            let first = fails.iter().find(|f| generic(f)).cloned().unwrap_or_default();
            fails.retain(|f| !generic(f));
            fails.push(format!("key=key-update-initiated-before-previous-confirmed t={} {what}; authentication failures client/server {auth_fail:?}; outcome: {}", sim.now, first.chars().take(300).collect::<String>()));
        }
    }
    let pto0 = |x: usize| 3 * k[x].initial_rtt.as_nanos() as u64;
    let bytes: u64 = w.sides.iter().map(|s| s.recv.values().map(|r| r.bytes).sum::<u64>()).sum();
    Res {
        fails,
        end,
        done_at,
        connected,
        steps: sim.steps,
        api_calls,
        faults: sim.faults.values().sum(),
        dropped_by_mask: masked.get(),
        dgrams: [counts[0].get(), counts[1].get()],
        dgrams_at_connected,
        quiescent_checks,
        desc,
        bytes,
        api_hist,
        // RFC 9002 6.2.1: PTO = smoothed_rtt + max(4*rttvar, granularity) + max_ack_delay; before any sample
        // smoothed_rtt = initial_rtt, rttvar = initial_rtt / 2, i.e. 3 * initial_rtt; max_ack_delay <= 2^14 ms is
        // covered by adding the path round trip and 25 ms
        pto0_ns: pto0(0).max(pto0(1)) + 2 * (sim.net.latency_ns + sim.net.jitter_ns) + 25_000_000,
    }
}

/// Bound for an execution with `k` datagrams dropped: every dropped datagram costs at most one more expiry of the PTO
/// timer, consecutive expiries double the period (RFC 9002 6.2.1), so k losses cost at most (2^k - 1) periods after
/// the first; a round-trip sample taken across a loss can inflate the PTO to three times the waiting time so far
/// (first sample: srtt = s, rttvar = s/2), hence the factor 3.
fn mask_bound(base_ns: u64, k: u32, pto0_ns: u64) -> u64 {
    base_ns + 3 * ((1u64 << (k + 1)) - 1) * pto0_ns
}

pub fn progress(seed: u64, out: &mut Outcome) {
    if std::env::var("VERIF_PROGRESS_PROBE").is_ok() {
        for f in probe_server_update_at_completion(seed) {
            out.fails.push(format!("key=probe {f} seed={seed}"));
        }
        out.runs += 1;
        return;
    }
    let verbose = std::env::var("VERIF_SIM_VERBOSE").is_ok();
    // VERIF_PROGRESS_ONLY="<dir>:<mask>" replays a single mask of a mask-mode seed
    let only: Option<(usize, u32)> = std::env::var("VERIF_PROGRESS_ONLY").ok().and_then(|v| {
        let (a, b) = v.split_once(':')?;
        Some((a.parse().ok()?, b.parse().ok()?))
    });
    let record = |out: &mut Outcome, r: &Res, tag: &str| {
        out.runs += 1;
        out.evaluations += r.steps;
        out.count(&format!("end:{:?}", r.end), 1);
        out.count("quiescent-points-checked", r.quiescent_checks);
        out.count("api-calls", r.api_calls);
        for (k, v) in &r.api_hist {
            out.count(&format!("api:{k}"), *v);
        }
        out.count("stream-bytes-read", r.bytes);
        out.count("datagrams-dropped-by-mask", r.dropped_by_mask as u64);
        for f in &r.fails {
            out.fails.push(format!("{f} seed={seed}{tag}"));
        }
    };
    match seed % 4 {
        0 | 1 => {
            let r = run(&Spec { seed, mode: Mode::Random, verbose });
            record(out, &r, "");
            out.count("mode:random", 1);
            if r.connected && r.api_calls > 0 && r.faults > 0 {
                out.nontrivial += 1;
            }
            if out.samples.len() < 2 {
                out.samples.push(format!("seed {seed} random: {} end {:?} at {} ms, {} API calls {:?}", r.desc, r.end, r.done_at / 1_000_000, r.api_calls, r.api_hist));
            }
        }
        2 => {
            let base = run(&Spec { seed, mode: Mode::HsMask { dir: 0, mask: 0 }, verbose: verbose && only.is_none() });
            record(out, &base, " mask=baseline");
            out.count("mode:hsmask", 1);
            if base.end != RunEnd::Done {
                return;
            }
            let mut all = true;
            for dir in 0..2usize {
                for mask in 1..256u32 {
                    if only.is_some_and(|o| o != (dir, mask)) {
                        continue;
                    }
                    let mut r = run(&Spec { seed, mode: Mode::HsMask { dir, mask }, verbose: verbose && only.is_some() });
                    let bound = mask_bound(base.done_at, r.dropped_by_mask, base.pto0_ns);
                    if r.end == RunEnd::Done && r.done_at > bound {
                        r.fails.push(format!("key=progress-wedge t={} handshake mask {mask:#010b} dir {dir} ({} datagrams dropped): completed at {} ms > bound {} ms (baseline {} ms, PTO0 {} ms)", r.done_at, r.dropped_by_mask, r.done_at / 1_000_000, bound / 1_000_000, base.done_at / 1_000_000, base.pto0_ns / 1_000_000));
                    } else if r.end != RunEnd::Done && r.fails.is_empty() {
                        r.fails.push(format!("key=progress-wedge t={} handshake mask {mask:#010b} dir {dir}: run ended {:?} without completing (baseline {} ms)", r.done_at, r.end, base.done_at / 1_000_000));
                    }
                    all &= r.fails.is_empty();
                    record(out, &r, &format!(" replay: VERIF_PROGRESS_ONLY={dir}:{mask}"));
                }
            }
            if all && base.connected {
                out.nontrivial += 1;
            }
            if out.samples.len() < 2 {
                out.samples.push(format!("seed {seed} hsmask: {} baseline done at {} ms with {:?} datagrams; 510 masks", base.desc, base.done_at / 1_000_000, base.dgrams));
            }
        }
        _ => {
            let base = run(&Spec { seed, mode: Mode::XferMask { dir: 0, mask: 0, start: 0 }, verbose: verbose && only.is_none() });
            record(out, &base, " mask=baseline");
            out.count("mode:xfermask", 1);
            if base.end != RunEnd::Done {
                return;
            }
            let mut rng = Rng::new(seed ^ 0x3a5c);
            let dir = rng.below(2) as usize;
            let lo = base.dgrams_at_connected[dir];
            let hi = base.dgrams[dir].saturating_sub(8).max(lo);
            let start = rng.range(lo, hi);
            let mut all = true;
            for mask in 1..256u32 {
                if only.is_some_and(|o| o != (dir, mask)) {
                    continue;
                }
                let mut r = run(&Spec { seed, mode: Mode::XferMask { dir, mask, start }, verbose: verbose && only.is_some() });
                let bound = mask_bound(base.done_at, r.dropped_by_mask, base.pto0_ns);
                if r.end == RunEnd::Done && r.done_at > bound {
                    r.fails.push(format!("key=progress-wedge t={} transfer mask {mask:#010b} dir {dir} from datagram {start} ({} dropped): completed at {} ms > bound {} ms (baseline {} ms, PTO0 {} ms)", r.done_at, r.dropped_by_mask, r.done_at / 1_000_000, bound / 1_000_000, base.done_at / 1_000_000, base.pto0_ns / 1_000_000));
                } else if r.end != RunEnd::Done && r.fails.is_empty() {
                    r.fails.push(format!("key=progress-wedge t={} transfer mask {mask:#010b} dir {dir} from datagram {start}: run ended {:?} without completing", r.done_at, r.end));
                }
                all &= r.fails.is_empty();
                record(out, &r, &format!(" replay: VERIF_PROGRESS_ONLY={dir}:{mask}"));
            }
            if all && base.connected {
                out.nontrivial += 1;
            }
            if out.samples.len() < 2 {
                out.samples.push(format!("seed {seed} xfermask: {} baseline done at {} ms with {:?} datagrams; masks over datagrams {start}..{} of direction {dir}", base.desc, base.done_at / 1_000_000, base.dgrams, start + 8));
            }
        }
    }
}

/// Probe (not a registered scenario): the server requests a key update at the very moment its handshake completes
/// (it is confirmed then, RFC 9001 4.1.2), before it has sent any 1-RTT packet. Returns the failures.
pub fn probe_server_update_at_completion(seed: u64) -> Vec<String> {
    let (mut sim, ccfg) = default_pair(seed, TransportConfig::default(), TransportConfig::default());
    sim.rx_tap = Some(Box::new(|sim: &mut Sim, node: usize, ch: usize, _len: usize, post: bool| {
        if post && node == SERVER {
            let c = sim.conn(node, ch);
            if !c.is_handshaking() && !c.is_closed() {
                c.force_key_update();
            }
        }
    }));
    let cch = sim.connect(ccfg);
    let mut w = Workload::new(seed);
    w.ch[CLIENT] = Some(cch);
    w.sides[CLIENT].plans = vec![Plan { dir: Dir::Uni, len: 3000, chunk: 1200, finish: true, reset_at: None }];
    let end = sim.run_until(60_000_000_000, 10_000, |sim| {
        if w.ch[SERVER].is_none() {
            if let Some(&ch) = sim.nodes[SERVER].accepted.first() {
                w.ch[SERVER] = Some(ch);
            }
        }
        w.tick(sim);
        w.complete() && w.ch[SERVER].is_some()
    });
    let mut f: Vec<String> = sim.fails.drain(..).collect();
    if std::env::var("VERIF_SIM_VERBOSE").is_ok() {
        eprintln!("probe: end {end:?} key phase client {} server {:?} server rx stats {:?}", sim.snap(CLIENT, cch).key_phase, w.ch[SERVER].map(|ch| sim.snap(SERVER, ch).key_phase), sim.snap(CLIENT, cch).spaces[2].rx_packet);
    }
    let lost_c = sim.nodes[CLIENT].conns[&cch].obs.lost.clone();
    if !lost_c.is_empty() || end != RunEnd::Done {
        f.push(format!("end {end:?} client lost {lost_c:?} server lost {:?} key phases c {} s {:?}", w.ch[SERVER].map(|ch| sim.nodes[SERVER].conns[&ch].obs.lost.clone()), sim.snap(CLIENT, cch).key_phase, w.ch[SERVER].map(|ch| sim.snap(SERVER, ch).key_phase)));
    }
    f
}
