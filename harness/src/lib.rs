//! Correspondence harness: drives the real quinn components through `quinn_proto::verif::Exec`
//! (in-process), records the request lines and the implementation's responses, and applies the
//! property oracles directly to the implementation's outputs.
pub mod frames;
pub mod gen;
pub mod scen_gate;
pub mod scen_multi;
pub mod ledger;
pub mod scen_conn;
pub mod scenarios;
pub mod sim;
pub mod workload;

use std::collections::{BTreeMap, HashSet};
use std::fmt::Write as _;
use std::panic::{catch_unwind, AssertUnwindSafe};

/// SplitMix64: every random choice of a run derives from one state.
#[derive(Clone)]
pub struct Rng(pub u64);

impl Rng {
    pub fn new(seed: u64) -> Self {
        Self(seed.wrapping_mul(0x9E37_79B9_7F4A_7C15) ^ 0xD1B5_4A32_D192_ED03)
    }
    pub fn next(&mut self) -> u64 {
        self.0 = self.0.wrapping_add(0x9E37_79B9_7F4A_7C15);
        let mut z = self.0;
        z = (z ^ (z >> 30)).wrapping_mul(0xBF58_476D_1CE4_E5B9);
        z = (z ^ (z >> 27)).wrapping_mul(0x94D0_49BB_1331_11EB);
        z ^ (z >> 31)
    }
    /// uniform in [0, n)
    pub fn below(&mut self, n: u64) -> u64 {
        if n == 0 {
            0
        } else {
            self.next() % n
        }
    }
    pub fn range(&mut self, lo: u64, hi: u64) -> u64 {
        lo + self.below(hi - lo + 1)
    }
    pub fn chance(&mut self, num: u64, den: u64) -> bool {
        self.below(den) < num
    }
    pub fn pick<'a, T>(&mut self, xs: &'a [T]) -> &'a T {
        &xs[self.below(xs.len() as u64) as usize]
    }
    /// boundary-biased integer below 2^62 (mostly)
    pub fn biased(&mut self) -> u64 {
        const B: [u64; 12] = [
            0,
            1,
            63,
            64,
            16383,
            16384,
            (1 << 30) - 1,
            1 << 30,
            (1 << 62) - 1,
            1 << 62,
            u32::MAX as u64,
            (1 << 32) + 1,
        ];
        match self.below(4) {
            0 => {
                let b = *self.pick(&B);
                let d = self.below(5);
                if self.chance(1, 2) {
                    b.saturating_add(d)
                } else {
                    b.saturating_sub(d)
                }
            }
            1 => self.below(300),
            2 => self.next() >> self.below(64),
            _ => self.below(1 << 20),
        }
    }
    pub fn bytes(&mut self, n: usize) -> Vec<u8> {
        (0..n).map(|_| self.next() as u8).collect()
    }
}

pub fn hex(b: &[u8]) -> String {
    if b.is_empty() {
        return "-".into();
    }
    let mut s = String::new();
    for x in b {
        write!(s, "{x:02x}").unwrap();
    }
    s
}

/// Records one component campaign: request lines, implementation responses, statistics.
pub struct Runner {
    pub ex: quinn_proto::verif::Exec,
    pub ops: String,
    pub out: String,
    pub hist: BTreeMap<String, u64>,
    pub resp_hist: BTreeMap<String, u64>,
    pub evaluations: u64,
    pub cases: u64,
    pub nontrivial: u64,
    distinct: HashSet<u64>,
    case_hash: u64,
    case_nontrivial: bool,
    pub oracle_failures: Vec<String>,
    pub samples: Vec<Vec<String>>,
    cur: Vec<String>,
    pub case_id: String,
}

impl Default for Runner {
    fn default() -> Self {
        Self::new()
    }
}

impl Runner {
    pub fn new() -> Self {
        Self {
            ex: quinn_proto::verif::Exec::new(),
            ops: String::new(),
            out: String::new(),
            hist: BTreeMap::new(),
            resp_hist: BTreeMap::new(),
            evaluations: 0,
            cases: 0,
            nontrivial: 0,
            distinct: HashSet::new(),
            case_hash: 0,
            case_nontrivial: false,
            oracle_failures: Vec::new(),
            samples: Vec::new(),
            cur: Vec::new(),
            case_id: String::new(),
        }
    }

    pub fn begin_case(&mut self, id: &str) {
        self.end_case();
        self.case_id = id.to_string();
        self.case_hash = 0xcbf2_9ce4_8422_2325;
        self.case_nontrivial = false;
        self.cur.clear();
        let line = format!("case {id}");
        self.raw(&line);
    }

    pub fn end_case(&mut self) {
        if self.case_id.is_empty() {
            return;
        }
        self.cases += 1;
        if self.case_nontrivial && self.distinct.insert(self.case_hash) {
            self.nontrivial += 1;
        }
        if self.samples.len() < 3 && self.case_nontrivial {
            self.samples.push(self.cur.iter().take(12).cloned().collect());
        }
        self.case_id.clear();
    }

    fn raw(&mut self, line: &str) -> String {
        self.raw_observed(line, None)
    }

    /// Execute `line`; the recorded request is `line` followed by `observe(response)` if given.
    fn raw_observed(&mut self, line: &str, observe: Option<&dyn Fn(&str) -> String>) -> String {
        let resp = match catch_unwind(AssertUnwindSafe(|| self.ex.exec(line))) {
            Ok(r) => r,
            Err(_) => {
                // the component state may be poisoned: later ops of this case are still compared
                // (both sides see the same lines) but generators normally end the case.
                "panic".to_string()
            }
        };
        self.ops.push_str(line);
        if let Some(f) = observe {
            self.ops.push(' ');
            self.ops.push_str(&f(&resp));
        }
        self.ops.push('\n');
        self.out.push_str(&resp);
        self.out.push('\n');
        resp
    }

    /// Execute one op of the current case.
    pub fn op(&mut self, line: &str) -> String {
        self.op_observed(line, None)
    }

    /// "Spec with observed choice" (DESIGN 2.2): execute `line` on the implementation, then record the
    /// request as `line + " " + observe(response)`, so that the model receives the implementation's
    /// choice (chunk boundaries, ...) as an input and validates it. Executors ignore the trailing
    /// observation tokens, hence a recorded line replays to the same response.
    pub fn op_observed(&mut self, line: &str, observe: Option<&dyn Fn(&str) -> String>) -> String {
        let mut it = line.split_ascii_whitespace();
        let key = format!("{} {}", it.next().unwrap_or(""), it.next().unwrap_or(""));
        *self.hist.entry(key).or_default() += 1;
        for b in line.bytes() {
            self.case_hash = (self.case_hash ^ b as u64).wrapping_mul(0x1000_0000_01b3);
        }
        self.case_hash = (self.case_hash ^ 10).wrapping_mul(0x1000_0000_01b3);
        self.evaluations += 1;
        let resp = self.raw_observed(line, observe);
        let rk = resp.split_ascii_whitespace().next().unwrap_or("").to_string();
        *self.resp_hist.entry(rk).or_default() += 1;
        if self.cur.len() < 12 {
            self.cur.push(format!("{line} => {resp}"));
        }
        resp
    }

    /// Mark the current case as non-trivial (by the component's stated rule).
    pub fn nontrivial(&mut self) {
        self.case_nontrivial = true;
    }

    /// A property oracle failed on the implementation's own output.
    pub fn oracle_fail(&mut self, what: &str) {
        self.oracle_failures
            .push(format!("case {}: {}", self.case_id, what));
    }
}
