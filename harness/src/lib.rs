//! Correspondence harness: drives the real quinn components through `quinn_proto::verif::Exec`
//! (in-process), records the request lines and the implementation's responses, and applies the
//! property oracles directly to the implementation's outputs.
pub mod frames;
pub mod gen;
pub mod opclass;
pub mod opclass_core;
pub mod opclass_data;
pub mod opclass_endpoint;
pub mod opclass_recovery;
pub mod opclass_wire;
pub mod opclass_keyupd;
pub mod panicid;
pub mod scen_dgram;
pub mod scen_gate;
pub mod scen_multi;
pub mod scen_progress;
pub mod scen_path;
pub mod scen_term;
pub mod scen_token;
pub mod txobs;
pub mod inflight;
pub mod scen_zrtt2;
pub mod scen_reset;
pub mod ledger;
pub mod lostkeys;
pub mod addrval;
pub mod scen_conn;
pub mod scen_determ;
pub mod scen_vnretry;
pub mod scenarios;
pub mod sim;
pub mod workload;

use std::collections::{BTreeMap, HashSet};
use std::fmt::Write as _;
use std::panic::{catch_unwind, AssertUnwindSafe};

/// SplitMix64: every random choice of a run derives from one state.
#[derive(Clone)]
pub struct Rng(pub u64);

impl Rng {
    pub fn new(seed: u64) -> Self {
        Self(seed.wrapping_mul(0x9E37_79B9_7F4A_7C15) ^ 0xD1B5_4A32_D192_ED03)
    }
    pub fn next(&mut self) -> u64 {
        self.0 = self.0.wrapping_add(0x9E37_79B9_7F4A_7C15);
        let mut z = self.0;
        z = (z ^ (z >> 30)).wrapping_mul(0xBF58_476D_1CE4_E5B9);
        z = (z ^ (z >> 27)).wrapping_mul(0x94D0_49BB_1331_11EB);
        z ^ (z >> 31)
    }
    /// uniform in [0, n)
    pub fn below(&mut self, n: u64) -> u64 {
        if n == 0 {
            0
        } else {
            self.next() % n
        }
    }
    pub fn range(&mut self, lo: u64, hi: u64) -> u64 {
        lo + self.below(hi - lo + 1)
    }
    pub fn chance(&mut self, num: u64, den: u64) -> bool {
        self.below(den) < num
    }
    pub fn pick<'a, T>(&mut self, xs: &'a [T]) -> &'a T {
        &xs[self.below(xs.len() as u64) as usize]
    }
    /// boundary-biased integer below 2^62 (mostly)
    pub fn biased(&mut self) -> u64 {
        const B: [u64; 12] = [
            0,
            1,
            63,
            64,
            16383,
            16384,
            (1 << 30) - 1,
            1 << 30,
            (1 << 62) - 1,
            1 << 62,
            u32::MAX as u64,
            (1 << 32) + 1,
        ];
        match self.below(4) {
            0 => {
                let b = *self.pick(&B);
                let d = self.below(5);
                if self.chance(1, 2) {
                    b.saturating_add(d)
                } else {
                    b.saturating_sub(d)
                }
            }
            1 => self.below(300),
            2 => self.next() >> self.below(64),
            _ => self.below(1 << 20),
        }
    }
    pub fn bytes(&mut self, n: usize) -> Vec<u8> {
        (0..n).map(|_| self.next() as u8).collect()
    }
}

pub fn hex(b: &[u8]) -> String {
    if b.is_empty() {
        return "-".into();
    }
    let mut s = String::new();
    for x in b {
        write!(s, "{x:02x}").unwrap();
    }
    s
}

/// Records one component campaign: request lines, implementation responses, statistics.
pub struct Runner {
    pub ex: quinn_proto::verif::Exec,
    pub ops: String,
    pub out: String,
    pub hist: BTreeMap<String, u64>,
    pub resp_hist: BTreeMap<String, u64>,
    pub evaluations: u64,
    pub cases: u64,
    pub nontrivial: u64,
    distinct: HashSet<u64>,
    case_hash: u64,
    case_nontrivial: bool,
    pub oracle_failures: Vec<String>,
    pub samples: Vec<Vec<String>>,
    cur: Vec<String>,
    /// every request line of the current case (replay of a panic finding)
    cur_ops: Vec<String>,
    pub case_id: String,
    /// reachability classes of the ops of the current case (audit TOP GAP 1): see `opclass`
    pub class: opclass::CaseClass,
    /// panics on peer input / in-contract API calls per component (statistics)
    pub class_hist: BTreeMap<String, u64>,
    /// cases in which some op was outside the peer/API contract (later panics there are not judged)
    pub tainted_cases: u64,
    /// first panic of a case that was not judged (out-of-contract op, or after one)
    pub unjudged_panics: Vec<String>,
    /// identity (`<source file>:<message>`, panicid.rs) of the panic that made the last op answer `panic`
    pub last_panic: String,
}

impl Default for Runner {
    fn default() -> Self {
        Self::new()
    }
}

impl Runner {
    pub fn new() -> Self {
        // a recorded panic finding is identified by WHICH panic it is (source file + message), see panicid.rs
        panicid::install();
        Self {
            ex: quinn_proto::verif::Exec::new(),
            ops: String::new(),
            out: String::new(),
            hist: BTreeMap::new(),
            resp_hist: BTreeMap::new(),
            evaluations: 0,
            cases: 0,
            nontrivial: 0,
            distinct: HashSet::new(),
            case_hash: 0,
            case_nontrivial: false,
            oracle_failures: Vec::new(),
            samples: Vec::new(),
            cur: Vec::new(),
            cur_ops: Vec::new(),
            case_id: String::new(),
            class: opclass::CaseClass::default(),
            class_hist: BTreeMap::new(),
            tainted_cases: 0,
            unjudged_panics: Vec::new(),
            last_panic: String::new(),
        }
    }

    pub fn begin_case(&mut self, id: &str) {
        self.end_case();
        self.case_id = id.to_string();
        self.case_hash = 0xcbf2_9ce4_8422_2325;
        self.case_nontrivial = false;
        self.cur.clear();
        self.cur_ops.clear();
        self.class.reset();
        let line = format!("case {id}");
        self.raw(&line);
    }

    pub fn end_case(&mut self) {
        if self.case_id.is_empty() {
            return;
        }
        self.cases += 1;
        if self.class.tainted {
            self.tainted_cases += 1;
        }
        if self.case_nontrivial && self.distinct.insert(self.case_hash) {
            self.nontrivial += 1;
        }
        if self.samples.len() < 3 && self.case_nontrivial {
            self.samples.push(self.cur.iter().take(12).cloned().collect());
        }
        self.case_id.clear();
    }

    fn raw(&mut self, line: &str) -> String {
        self.raw_observed(line, None)
    }

    /// Execute `line`; the recorded request is `line` followed by `observe(response)` if given.
    fn raw_observed(&mut self, line: &str, observe: Option<&dyn Fn(&str) -> String>) -> String {
        panicid::clear();
        let resp = match catch_unwind(AssertUnwindSafe(|| self.ex.exec(line))) {
            Ok(r) => r,
            Err(_) => {
                // the component state may be poisoned: later ops of this case are still compared
                // (both sides see the same lines) but generators normally end the case.
                "panic".to_string()
            }
        };
        if resp == "panic" {
            // (executors that catch the panic themselves answer `panic` too: the hook ran where it was raised)
            self.last_panic = panicid::take();
        }
        self.ops.push_str(line);
        if let Some(f) = observe {
            self.ops.push(' ');
            self.ops.push_str(&f(&resp));
        }
        self.ops.push('\n');
        self.out.push_str(&resp);
        self.out.push('\n');
        resp
    }

    /// Execute one op of the current case.
    pub fn op(&mut self, line: &str) -> String {
        self.op_observed(line, None)
    }

    /// "Spec with observed choice" (DESIGN 2.2): execute `line` on the implementation, then record the
    /// request as `line + " " + observe(response)`, so that the model receives the implementation's
    /// choice (chunk boundaries, ...) as an input and validates it. Executors ignore the trailing
    /// observation tokens, hence a recorded line replays to the same response.
    pub fn op_observed(&mut self, line: &str, observe: Option<&dyn Fn(&str) -> String>) -> String {
        let mut it = line.split_ascii_whitespace();
        let key = format!("{} {}", it.next().unwrap_or(""), it.next().unwrap_or(""));
        *self.hist.entry(key).or_default() += 1;
        for b in line.bytes() {
            self.case_hash = (self.case_hash ^ b as u64).wrapping_mul(0x1000_0000_01b3);
        }
        self.case_hash = (self.case_hash ^ 10).wrapping_mul(0x1000_0000_01b3);
        self.evaluations += 1;
        let class = self.class.classify(line);
        self.cur_ops.push(line.to_string());
        let resp = self.raw_observed(line, observe);
        self.panic_oracle(line, class, &resp);
        let rk = resp.split_ascii_whitespace().next().unwrap_or("").to_string();
        *self.resp_hist.entry(rk).or_default() += 1;
        if self.cur.len() < 12 {
            self.cur.push(format!("{line} => {resp}"));
        }
        resp
    }

    /// Execute one op with an explicit class (overrides the table in `opclass`): for generators that know
    /// more about reachability than the op line shows.
    pub fn op_class(&mut self, line: &str, class: opclass::Class) -> String {
        self.class.force = Some(class);
        self.op(line)
    }
    pub fn op_peer(&mut self, line: &str) -> String {
        self.op_class(line, opclass::Class::Peer)
    }

    /// C03 / audit TOP GAP 1: a panic of the real code on an op that a remote peer (or the local application
    /// inside the API contract) can cause, in a case whose earlier ops were all of that kind, is a violation
    /// whatever the model answers.
    fn panic_oracle(&mut self, line: &str, class: Option<opclass::Class>, resp: &str) {
        use opclass::Class;
        let Some(class) = class else { return };
        let mut it = line.split_ascii_whitespace();
        let comp = it.next().unwrap_or("").to_string();
        let kind = it.next().unwrap_or("").to_string();
        *self.class_hist.entry(format!("{comp} {kind}:{class:?}")).or_default() += 1;
        if resp == "panic" {
            if !self.class.tainted && !self.class.panicked {
                // WHICH panic: source file + line-independent message (+ configuration class where the component's
                // tracker names one): a recorded finding must not mask another panic of the same op (panicid.rs)
                let mut id = self.last_panic.clone();
                if let Some(c) = self.class.config_class(line) {
                    id.push('+');
                    id.push_str(&c);
                }
                match class {
                    Class::Peer => {
                        let ops = self.cur_ops.join(" ; ");
                        self.oracle_fail(&format!(
                            "key=C03-panic-on-peer-input.{comp}.{kind}@{id} component={comp} op={kind} line=[{line}] replay=[{ops}]"
                        ));
                    }
                    Class::Local => {
                        let p = opclass::own_property(&comp);
                        let ops = self.cur_ops.join(" ; ");
                        self.oracle_fail(&format!(
                            "key={p}-panic-on-api-call.{comp}.{kind}@{id} component={comp} op={kind} line=[{line}] replay=[{ops}]"
                        ));
                    }
                    Class::Contract | Class::Probe => {}
                }
            }
            if !self.class.panicked && class != Class::Probe && (self.class.tainted || class == Class::Contract) {
                // census of the panics that are NOT judged (microdiff writes them to <prefix>.stats)
                let why = if self.class.tainted { format!("tainted by [{}]", self.class.tainted_by) } else { format!("{class:?}") };
                self.unjudged_panics.push(format!("case {}: component={comp} op={kind} line=[{line}] class={class:?} {why}", self.case_id));
            }
            // the component state may be poisoned: nothing after the first panic is judged (a Probe is a pure
            // call on something that is not the state under test: it cannot poison it)
            if class != Class::Probe {
                self.class.panicked = true;
            }
        }
        *self.class_hist.entry(if self.class.tainted || self.class.panicked { "ops:unjudged".to_string() } else { "ops:judged".to_string() }).or_default() += 1;
        let was = self.class.tainted;
        self.class.observe(line, resp, class == Class::Contract && resp != "bad-op");
        if self.class.tainted && !was {
            let why: Vec<&str> = self.class.tainted_by.split_ascii_whitespace().take(if self.class.tainted_by.starts_with("connection closed") { 5 } else { 2 }).collect();
            *self.class_hist.entry(format!("taint:{}", why.join("_"))).or_default() += 1;
        }
    }

    /// Mark the current case as non-trivial (by the component's stated rule).
    pub fn nontrivial(&mut self) {
        self.case_nontrivial = true;
    }

    /// A property oracle failed on the implementation's own output.
    pub fn oracle_fail(&mut self, what: &str) {
        self.oracle_failures
            .push(format!("case {}: {}", self.case_id, what));
    }
}
