//! Deterministic two-endpoint simulator over an adversarial in-memory network, built on the public
//! quinn-proto API only (plus the read-only `Connection::verif_snapshot` hook).
//!
//! Everything random derives from one `Rng`. Virtual time is an offset in nanoseconds from `base`.
use std::collections::{BTreeMap, HashMap, VecDeque};
use std::net::{IpAddr, Ipv6Addr, SocketAddr};
use std::sync::{Arc, Mutex};
use std::time::{Duration, Instant};

use bytes::{Bytes, BytesMut};
use quinn_proto::{
    verif::Snapshot, ClientConfig, Connection, ConnectionEvent, ConnectionHandle, ConnectionId,
    ConnectionIdGenerator, DatagramEvent, EcnCodepoint, Endpoint, EndpointConfig,
    Event, Incoming, ServerConfig, TransportConfig,
};

use crate::Rng;

pub const CLIENT: usize = 0;
pub const SERVER: usize = 1;

/// Seeded CID generator (so CID bytes do not depend on `rand::rng()`).
pub struct SeededCids {
    state: u64,
    len: usize,
    lifetime: Option<Duration>,
}

impl SeededCids {
    pub fn new(seed: u64, len: usize, lifetime: Option<Duration>) -> Self {
        Self { state: seed, len, lifetime }
    }
}

impl ConnectionIdGenerator for SeededCids {
    fn generate_cid(&mut self) -> ConnectionId {
        let mut r = Rng(self.state);
        let bytes = r.bytes(self.len);
        self.state = r.0;
        ConnectionId::new(&bytes)
    }
    fn cid_len(&self) -> usize {
        self.len
    }
    fn cid_lifetime(&self) -> Option<Duration> {
        self.lifetime
    }
}

pub fn cert_and_key() -> (
    rustls::pki_types::CertificateDer<'static>,
    rustls::pki_types::PrivateKeyDer<'static>,
) {
    let cert: &'static [u8] = include_bytes!("../certs/cert.der");
    let key: &'static [u8] = include_bytes!("../certs/key.der");
    (
        rustls::pki_types::CertificateDer::from(cert),
        rustls::pki_types::PrivateKeyDer::Pkcs8(rustls::pki_types::PrivatePkcs8KeyDer::from(key)),
    )
}

/// Controllable clock handed to the server config (token issue/expiry).
#[derive(Clone)]
pub struct SimClock(pub Arc<Mutex<std::time::SystemTime>>);
impl quinn_proto::TimeSource for SimClock {
    fn now(&self) -> std::time::SystemTime {
        *self.0.lock().unwrap()
    }
}

pub fn endpoint_config(seed: u64, cid_len: usize, cid_lifetime: Option<Duration>) -> EndpointConfig {
    let mut key = [0u8; 64];
    Rng::new(seed ^ 0x5eed).bytes(64).iter().enumerate().for_each(|(i, b)| key[i] = *b);
    let mut cfg = EndpointConfig::new(Arc::new(ring::hmac::Key::new(ring::hmac::HMAC_SHA256, &key)));
    let mut rs = [0u8; 32];
    Rng::new(seed ^ 0xabcd).bytes(32).iter().enumerate().for_each(|(i, b)| rs[i] = *b);
    cfg.rng_seed(Some(rs));
    let s2 = seed.wrapping_mul(31) ^ 0x77;
    cfg.cid_generator(Arc::new(move || Box::new(SeededCids::new(s2, cid_len, cid_lifetime)) as Box<dyn ConnectionIdGenerator>));
    cfg
}

pub fn server_config(seed: u64, transport: TransportConfig, clock: &SimClock) -> ServerConfig {
    let (cert, key) = cert_and_key();
    let mut tls = rustls::ServerConfig::builder_with_provider(Arc::new(rustls::crypto::ring::default_provider()))
        .with_protocol_versions(&[&rustls::version::TLS13])
        .unwrap()
        .with_no_client_auth()
        .with_single_cert(vec![cert], key)
        .unwrap();
    tls.max_early_data_size = u32::MAX;
    let crypto: quinn_proto::crypto::rustls::QuicServerConfig = tls.try_into().unwrap();
    let mut mk = [0u8; 64];
    Rng::new(seed ^ 0x70ce).bytes(64).iter().enumerate().for_each(|(i, b)| mk[i] = *b);
    let prk = ring::hkdf::Salt::new(ring::hkdf::HKDF_SHA256, &[]).extract(&mk);
    let mut cfg = ServerConfig::new(Arc::new(crypto), Arc::new(prk));
    cfg.transport_config(Arc::new(transport));
    cfg.time_source(Arc::new(clock.clone()));
    cfg
}

pub fn client_config(seed: u64, transport: TransportConfig) -> ClientConfig {
    let (cert, _) = cert_and_key();
    let mut roots = rustls::RootCertStore::empty();
    roots.add(cert).unwrap();
    let mut tls = rustls::ClientConfig::builder_with_provider(Arc::new(rustls::crypto::ring::default_provider()))
        .with_protocol_versions(&[&rustls::version::TLS13])
        .unwrap()
        .with_root_certificates(roots)
        .with_no_client_auth();
    tls.enable_early_data = true;
    let crypto: quinn_proto::crypto::rustls::QuicClientConfig = tls.try_into().unwrap();
    let mut cfg = ClientConfig::new(Arc::new(crypto));
    cfg.transport_config(Arc::new(transport));
    let st = Arc::new(Mutex::new(seed ^ 0xdc1d));
    cfg.initial_dst_cid_provider(Arc::new(move || {
        let mut g = st.lock().unwrap();
        let mut r = Rng(*g);
        let n = 8 + (r.below(13) as usize);
        let b = r.bytes(n);
        *g = r.0;
        ConnectionId::new(&b)
    }));
    cfg
}

/// One datagram on the wire.
#[derive(Clone, Debug)]
pub struct Dgram {
    pub at: u64,
    pub seq: u64,
    pub from: SocketAddr,
    pub to: SocketAddr,
    pub ecn: Option<EcnCodepoint>,
    pub data: Vec<u8>,
    /// node that produced it (or usize::MAX for attacker-made)
    pub origin: usize,
    /// genuine and unmodified?
    pub genuine: bool,
}

/// Per-datagram fault policy of the network.
#[derive(Clone, Debug)]
pub struct NetCfg {
    pub latency_ns: u64,
    pub jitter_ns: u64,
    pub drop_permille: u64,
    pub dup_permille: u64,
    pub corrupt_permille: u64,
    pub truncate_permille: u64,
    pub replay_permille: u64,
    /// never drop more than this many consecutive datagrams per direction (fair loss)
    pub max_consecutive_drops: u32,
    /// datagrams larger than this are silently dropped
    pub path_mtu: usize,
    /// set CE on everything
    pub ce: bool,
}

impl Default for NetCfg {
    fn default() -> Self {
        Self {
            latency_ns: 10_000_000,
            jitter_ns: 0,
            drop_permille: 0,
            dup_permille: 0,
            corrupt_permille: 0,
            truncate_permille: 0,
            replay_permille: 0,
            max_consecutive_drops: 3,
            path_mtu: 1452,
            ce: false,
        }
    }
}

/// One recorded output/input of a node (C20 traces, evidence samples).
#[derive(Clone, Debug, PartialEq, Eq)]
pub enum Rec {
    Tx { node: usize, ch: usize, at: u64, size: usize, seg: Option<usize>, dst: SocketAddr },
    EpTx { node: usize, at: u64, size: usize, dst: SocketAddr },
    Ev { node: usize, ch: usize, at: u64, ev: String },
    EpEv { node: usize, ch: usize, at: u64, drained: bool },
    Timeout { node: usize, ch: usize, at: u64, next: Option<u64> },
}

#[derive(Default)]
pub struct ConnObs {
    pub connected: bool,
    pub confirmed: bool,
    pub lost: Vec<String>,
    pub drained_events: u32,
    pub closed_locally_at: Option<u64>,
    pub tx_after_drained: u32,
    pub tx_datagrams: u64,
    pub tx_bytes: u64,
    /// MTU probes believed outstanding (datagrams larger than current_mtu at send time)
    pub oversize_sent: u64,
    pub max_dgram: usize,
    pub first_tx_at: Option<u64>,
    pub drained_at: Option<u64>,
    pub last_rx_at: Option<u64>,
    /// last time a datagram made `total_authed_packets` grow (needs `model_trace`)
    pub last_authed_rx_at: Option<u64>,
    pub last_tx_at: Option<u64>,
    /// sizes of the datagrams sent above the MTU estimate of their time (MTU probes)
    pub probe_sizes: std::collections::BTreeSet<usize>,
    /// MTU estimate at the previous transmit (0 = none yet)
    pub last_mtu: u16,
    pub mtu_rises: u64,
}

/// Per node: what C13 lets the MTU estimate and probes be (set by scenarios that know the configuration).
#[derive(Clone, Copy, Debug)]
pub struct MtuRule {
    /// configured initial_mtu: the estimate of a fresh path
    pub initial: u16,
    /// min(own MtuDiscoveryConfig::upper_bound, peer max_udp_payload_size): no probe may exceed it
    pub probe_cap: usize,
    /// the peer's max_udp_payload_size transport parameter: once the connection is established no datagram at all
    /// may exceed it (0 = not checked)
    pub peer_max_udp: usize,
}

pub struct NodeConn {
    pub conn: Connection,
    pub events: VecDeque<(ConnectionEvent, usize, SocketAddr)>,
    pub app_events: VecDeque<Event>,
    pub obs: ConnObs,
    pub removed: bool,
}

pub enum IncomingPolicy {
    Accept,
    Retry,
    Reject,
    Ignore,
    /// hand the `Incoming` to the scenario (`Sim::held`), which accepts / refuses / retries / ignores it later
    Hold,
}

/// What `Endpoint::handle` did with one datagram (`Sim::route_log`)
#[derive(Clone, Debug, PartialEq, Eq)]
pub enum Routed {
    Nothing,
    Conn(usize),
    New,
    Response(usize),
}

#[derive(Clone, Debug)]
pub struct RouteRec {
    pub node: usize,
    pub step: u64,
    pub at: u64,
    pub from: SocketAddr,
    pub genuine: bool,
    pub data: Vec<u8>,
    pub to: Routed,
    /// `Endpoint::incoming_buffer_bytes` grew: the datagram was buffered for a pending `Incoming`
    pub buffered: bool,
}

pub struct Node {
    pub ep: Endpoint,
    pub addr: SocketAddr,
    pub conns: BTreeMap<usize, NodeConn>,
    pub policy: IncomingPolicy,
    pub accepted: Vec<usize>,
    pub accept_errors: Vec<String>,
    /// bytes of datagrams handed to the endpoint, per source address
    pub recv_from: HashMap<SocketAddr, u64>,
    /// bytes of datagrams emitted, per destination address
    pub sent_to: HashMap<SocketAddr, u64>,
    pub max_datagrams: usize,
    pub server_config_for_accept: Option<Arc<ServerConfig>>,
    pub ep_tx: u64,
    /// per connection: (remote of the current unvalidated epoch, sent_to base, recv_from base): the ledger of the
    /// amplification oracle restarts whenever the connection's path moves to another address
    pub amp_epoch: HashMap<usize, (SocketAddr, u64, u64)>,
}

/// Schedule perturbations of the driver (C02/C20).
#[derive(Clone, Debug, Default)]
pub struct DriverCfg {
    /// insert spurious handle_timeout / poll_transmit / poll calls with this probability (permille)
    pub spurious_permille: u64,
    /// service timers this much late (ns), uniformly up to the value
    pub late_ns: u64,
}

pub struct Sim {
    pub base: Instant,
    pub now: u64,
    pub nodes: Vec<Node>,
    pub wire: Vec<Dgram>,
    pub seq: u64,
    pub rng: Rng,
    /// separate stream for driver-schedule perturbations, so they do not change the network's choices
    pub drv_rng: Rng,
    pub net: NetCfg,
    pub drv: DriverCfg,
    pub trace: Vec<Rec>,
    pub fails: Vec<String>,
    pub consecutive_drops: [u32; 2],
    /// all genuine datagrams ever sent (for replays)
    pub history: Vec<Dgram>,
    pub keep_history: bool,
    /// connection handle (of the sending node) of each history entry, None for endpoint-level datagrams
    pub history_ch: Vec<Option<usize>>,
    /// time each history entry was put on the wire
    pub history_at: Vec<u64>,
    cur_ch: Option<usize>,
    pub steps: u64,
    /// steps in a row that did not advance virtual time, and the end of the execution once that is hopeless
    pub stalled_steps: u64,
    pub fatal: bool,
    pub clock: SimClock,
    /// oracle switches
    pub check_amp: bool,
    pub check_mtu: bool,
    /// C20: record the plaintext frame sequence of every packet built (hook `verif_txlog`)
    pub record_plain: bool,
    pub plain: Vec<String>,
    pub mtu_rules: Option<[MtuRule; 2]>,
    /// datagrams delivered per node
    pub delivered: [u64; 2],
    pub dropped: u64,
    pub faults: BTreeMap<&'static str, u64>,
    /// hook: inspect/modify every datagram entering the wire; return false to drop it
    pub wire_filter: Option<Box<dyn FnMut(&mut Dgram, &mut Rng) -> bool>>,
    /// record model-validation trace lines (request lines for the Lean driver + implementation's answers)
    /// never advance virtual time beyond this instant (used for bounded settle phases)
    /// per node: may the peer migrate (server with migration enabled)?
    pub path_may_migrate: [bool; 2],
    pub time_cap: Option<u64>,
    pub stop_requested: bool,
    pub debug_timers: bool,
    pub check_timer: bool,
    pub model_trace: bool,
    pub model_ops: Vec<String>,
    pub model_impl: Vec<String>,
    /// hook: called right before (`false`) and right after (`true`) a connection handles a datagram event:
    /// (sim, node, connection handle, datagram length, post?)
    pub rx_tap: Option<Box<dyn FnMut(&mut Sim, usize, usize, usize, bool)>>,
    /// frame injections written into packets (`Connection::verif_take_injected`), collected after every
    /// poll_transmit: (node, connection handle, space, packet number, bytes written)
    pub inj_log: Vec<(usize, usize, u8, u64, usize)>,
    /// record per-packet meta data of every packet built (hook `verif_txmeta`, read with `verif_take_txpkts`)
    pub record_meta: bool,
    /// hook: called right before a connection services its timers (`handle_timeout`): (sim, node, connection handle)
    pub timeout_tap: Option<Box<dyn FnMut(&mut Sim, usize, usize)>>,
    /// hook: called for every Transmit with the snapshot taken before that `poll_transmit`:
    /// (sim, node, connection handle, snapshot before, transmit, buffer)
    pub tx_tap: Option<Box<dyn FnMut(&mut Sim, usize, usize, &Snapshot, &quinn_proto::Transmit, &[u8])>>,
    /// C07: per-destination ledger with the harness' own notion of validated addresses (`crate::ledger`)
    pub ledger: crate::ledger::DestLedger,
    /// C07: per connection, which peer addresses the HARNESS has seen validated (`crate::addrval`); arms the 3x oracle of
    /// `on_transmit` instead of the connection's own `path.validated`
    pub av: crate::addrval::AddrVal,
    /// `IncomingPolicy::Hold`: (node, time received, attempt) waiting for the scenario's decision
    pub held: Vec<(usize, u64, Incoming)>,
    /// when Some: one record per datagram handed to an endpoint (scenario `multi`, C09 routing oracles)
    pub route_log: Option<Vec<RouteRec>>,
}

/// nanoseconds of a duration, saturating (a timer may legitimately lie 2^62 us ahead, e.g. after an ACK_FREQUENCY
/// frame with a huge max_ack_delay; a truncating cast would wrap it into the past)
pub fn sat_ns(d: Duration) -> u64 {
    u64::try_from(d.as_nanos()).unwrap_or(u64::MAX)
}

pub fn addr(port: u16) -> SocketAddr {
    SocketAddr::new(IpAddr::V6(Ipv6Addr::LOCALHOST), port)
}

fn addr_num(a: &SocketAddr) -> u64 {
    let ip = match a.ip() {
        IpAddr::V6(v) => v.segments()[7] as u64 + ((v.segments()[6] as u64) << 16),
        IpAddr::V4(v) => u32::from(v) as u64,
    };
    ip * 100_000 + a.port() as u64
}

/// path-machine projection for the Lean `pathm` trace checker:
/// "addr validated challengeSome pending prev timer mayMigrate"
pub fn path_state(base: Instant, s: &Snapshot, may_migrate: bool) -> String {
    let p = |x: &quinn_proto::verif::PathSnap, sep: &str| format!("{}{sep}{}{sep}{}{sep}{}", addr_num(&x.remote), x.validated as u8, x.challenge as u8, x.challenge_pending as u8);
    let prev = s.prev_path.as_ref().map_or("-".to_string(), |x| p(x, ":"));
    let t = s.timers[4].map_or("-".to_string(), |i| i.saturating_duration_since(base).as_nanos().to_string());
    format!("{} {prev} {t} {}", p(&s.path, " "), may_migrate as u8)
}

/// lifecycle projection of a snapshot for the Lean `life` trace checker: "st err closeFlag closeTimer idleTimer"
pub fn life_state(base: Instant, s: &Snapshot) -> String {
    let st = match s.state {
        "handshake" => 0,
        "established" => 1,
        "closed" => 2,
        "draining" => 3,
        _ => 4,
    };
    let t = |x: Option<Instant>| x.map_or("-".to_string(), |i| i.saturating_duration_since(base).as_nanos().to_string());
    format!("{st} {} {} {} {}", s.has_error as u8, s.close as u8, t(s.timers[2]), t(s.timers[1]))
}

fn ev_name(e: &Event) -> String {
    match e {
        Event::HandshakeDataReady => "HandshakeDataReady".into(),
        Event::Connected => "Connected".into(),
        Event::HandshakeConfirmed => "HandshakeConfirmed".into(),
        Event::ConnectionLost { reason } => format!("ConnectionLost({reason:?})"),
        Event::Stream(s) => format!("Stream({s:?})"),
        Event::DatagramReceived => "DatagramReceived".into(),
        Event::DatagramsUnblocked => "DatagramsUnblocked".into(),
    }
}

impl Sim {
    pub fn new(seed: u64, client: Endpoint, server: Endpoint, clock: SimClock) -> Self {
        let mk = |ep, port| Node {
            ep,
            addr: addr(port),
            conns: BTreeMap::new(),
            policy: IncomingPolicy::Accept,
            accepted: Vec::new(),
            accept_errors: Vec::new(),
            recv_from: HashMap::new(),
            sent_to: HashMap::new(),
            max_datagrams: 10,
            server_config_for_accept: None,
            ep_tx: 0,
            amp_epoch: HashMap::new(),
        };
        Self {
            base: Instant::now(),
            now: 0,
            nodes: vec![mk(client, 44433), mk(server, 4433)],
            wire: Vec::new(),
            seq: 0,
            rng: Rng::new(seed),
            drv_rng: Rng::new(seed ^ 0xd71e),
            net: NetCfg::default(),
            drv: DriverCfg::default(),
            trace: Vec::new(),
            fails: Vec::new(),
            consecutive_drops: [0; 2],
            history: Vec::new(),
            keep_history: false,
            history_ch: Vec::new(),
            history_at: Vec::new(),
            cur_ch: None,
            steps: 0,
            stalled_steps: 0,
            fatal: false,
            clock,
            check_amp: true,
            check_mtu: true,
            record_plain: false,
            plain: Vec::new(),
            mtu_rules: None,
            delivered: [0; 2],
            dropped: 0,
            faults: BTreeMap::new(),
            wire_filter: None,
            path_may_migrate: [false, true],
            time_cap: None,
            stop_requested: false,
            debug_timers: std::env::var("VERIF_SIM_TIMERDBG").is_ok(),
            check_timer: true,
            model_trace: false,
            model_ops: Vec::new(),
            model_impl: Vec::new(),
            rx_tap: None,
            inj_log: Vec::new(),
            record_meta: false,
            timeout_tap: None,
            tx_tap: None,
            ledger: Default::default(),
            av: Default::default(),
            held: Vec::new(),
            route_log: None,
        }
    }

    pub fn t(&self) -> Instant {
        self.base + Duration::from_nanos(self.now)
    }

    pub fn off(&self, i: Instant) -> u64 {
        sat_ns(i.saturating_duration_since(self.base))
    }

    pub fn fail(&mut self, key: &str, what: String) {
        if self.fails.len() < 50 {
            self.fails.push(format!("key={key} t={} {what}", self.now));
        }
        if key == "timeout-settle-not-reached" {
            // the connection will spin at this instant for ever: the execution ends here (the failure is recorded)
            self.fatal = true;
        }
    }

    pub fn connect(&mut self, cfg: ClientConfig) -> usize {
        let now = self.t();
        let server = self.nodes[SERVER].addr;
        let (ch, conn) = self.nodes[CLIENT].ep.connect(now, cfg, server, "localhost").expect("connect");
        self.ledger.trust(CLIENT, server);
        self.av.client(CLIENT, ch.0);
        let mut conn = conn;
        crate::addrval::AddrVal::enable(&mut conn);
        if self.record_plain {
            conn.verif_txlog_enable();
        }
        if self.record_meta {
            conn.verif_txmeta_enable();
        }
        self.nodes[CLIENT].conns.insert(ch.0, new_nc(conn));
        ch.0
    }

    pub fn conn(&mut self, node: usize, ch: usize) -> &mut Connection {
        &mut self.nodes[node].conns.get_mut(&ch).unwrap().conn
    }

    pub fn snap(&self, node: usize, ch: usize) -> Snapshot {
        self.nodes[node].conns[&ch].conn.verif_snapshot()
    }

    /// Put a datagram on the wire, applying the fault policy.
    pub fn send_wire(&mut self, origin: usize, from: SocketAddr, to: SocketAddr, ecn: Option<EcnCodepoint>, data: Vec<u8>) {
        let mut d = Dgram {
            at: 0,
            seq: 0,
            from,
            to,
            ecn: if self.net.ce { ecn.map(|_| EcnCodepoint::Ce) } else { ecn },
            data,
            origin,
            genuine: true,
        };
        if origin < self.nodes.len() {
            self.av.on_wire(origin, &d.data);
        }
        if self.keep_history && self.history.len() < 4000 {
            self.history.push(d.clone());
            self.history_ch.push(self.cur_ch);
            self.history_at.push(self.now);
        }
        if d.data.len() > self.net.path_mtu {
            *self.faults.entry("mtu-drop").or_default() += 1;
            self.dropped += 1;
            return;
        }
        if let Some(mut f) = self.wire_filter.take() {
            let keep = f(&mut d, &mut self.rng);
            self.wire_filter = Some(f);
            if !keep {
                *self.faults.entry("filter-drop").or_default() += 1;
                self.dropped += 1;
                return;
            }
        }
        let dir = if origin == CLIENT { 0 } else { 1 };
        if self.rng.below(1000) < self.net.drop_permille && self.consecutive_drops[dir] < self.net.max_consecutive_drops {
            self.consecutive_drops[dir] += 1;
            *self.faults.entry("drop").or_default() += 1;
            self.dropped += 1;
            return;
        }
        self.consecutive_drops[dir] = 0;
        let jitter = if self.net.jitter_ns > 0 { self.rng.below(self.net.jitter_ns) } else { 0 };
        d.at = self.now + self.net.latency_ns + jitter;
        if self.rng.below(1000) < self.net.dup_permille {
            let mut c = d.clone();
            c.at += self.rng.below(self.net.latency_ns.max(1) * 3);
            *self.faults.entry("dup").or_default() += 1;
            self.push_wire(c);
        }
        if self.rng.below(1000) < self.net.replay_permille {
            let mut c = d.clone();
            c.at += self.rng.below(2_000_000_000);
            *self.faults.entry("replay").or_default() += 1;
            self.push_wire(c);
        }
        if self.rng.below(1000) < self.net.corrupt_permille && !d.data.is_empty() {
            // deliver a corrupted copy in addition to the genuine one half of the time
            let mut c = d.clone();
            let i = self.rng.below(c.data.len() as u64) as usize;
            c.data[i] ^= 1 << self.rng.below(8);
            c.genuine = false;
            *self.faults.entry("corrupt").or_default() += 1;
            if self.rng.chance(1, 2) {
                self.push_wire(c);
            } else {
                d = c;
            }
        }
        if self.rng.below(1000) < self.net.truncate_permille && d.data.len() > 1 {
            let mut c = d.clone();
            let n = self.rng.range(1, c.data.len() as u64 - 1) as usize;
            c.data.truncate(n);
            c.genuine = false;
            *self.faults.entry("truncate").or_default() += 1;
            self.push_wire(c);
        }
        self.push_wire(d);
    }

    pub fn push_wire(&mut self, mut d: Dgram) {
        self.seq += 1;
        d.seq = self.seq;
        self.wire.push(d);
    }

    fn node_of(&self, a: SocketAddr) -> Option<usize> {
        self.nodes.iter().position(|n| n.addr == a)
    }

    fn emit(&mut self, node: usize, ch: Option<usize>, dst: SocketAddr, ecn: Option<EcnCodepoint>, size: usize, seg: Option<usize>, buf: &[u8]) {
        let from = self.nodes[node].addr;
        let seg = seg.unwrap_or(size.max(1));
        let mut off = 0;
        self.cur_ch = ch;
        if ch.is_none() {
            self.ledger.ep_tx(node, dst, &buf[..size]);
            // cumulative per-address accounting only in the scenarios built around the ledger (`ledger.on`): elsewhere
            // several connections share an address, or addresses become valid by path validation the ledger does not follow
            if self.ledger.on && self.check_amp && !self.ledger.is_validated(node, &dst) {
                // cumulative: everything the endpoint itself ever sent to the address against everything it received from it
                let sent = *self.nodes[node].sent_to.get(&dst).unwrap_or(&0);
                let recvd = *self.nodes[node].recv_from.get(&dst).unwrap_or(&0);
                self.ledger.checks += 1;
                if !crate::ledger::DestLedger::may_start(sent, recvd) {
                    self.fail("stateless-response-exceeds-3x", format!("node {node}: endpoint response of {size} bytes to unvalidated {dst} with {sent} bytes already sent to it and {recvd} received from it"));
                }
            }
        }
        while off < size {
            let end = (off + seg).min(size);
            *self.nodes[node].sent_to.entry(dst).or_default() += (end - off) as u64;
            self.send_wire(node, from, dst, ecn, buf[off..end].to_vec());
            off = end;
        }
        self.cur_ch = None;
    }

    /// Deliver every due datagram addressed to `node`.
    fn deliver(&mut self, node: usize) {
        let now = self.now;
        let a = self.nodes[node].addr;
        let mut due: Vec<Dgram> = Vec::new();
        let mut rest = Vec::with_capacity(self.wire.len());
        for d in self.wire.drain(..) {
            if d.at <= now && d.to == a {
                due.push(d);
            } else {
                rest.push(d);
            }
        }
        self.wire = rest;
        due.sort_by_key(|d| (d.at, d.seq));
        for d in due {
            if let Some(x) = self.delivered.get_mut(node) {
                *x += 1;
            }
            self.handle_datagram(node, d);
        }
    }

    pub fn handle_datagram(&mut self, node: usize, d: Dgram) {
        let now = self.t();
        let mut buf = Vec::new();
        // C07: does this very datagram present a token the endpoint issued for its source address? (before `on_rx`)
        let token_cause = self.ledger.initial_carries_retry_token(node, d.from, &d.data) || self.av.initial_carries_new_token(node, d.from, &d.data);
        self.ledger.on_rx(node, d.from, &d.data);
        let ibb = self.nodes[node].ep.incoming_buffer_bytes();
        let ev = self.nodes[node].ep.handle(now, d.from, None, d.ecn, BytesMut::from(&d.data[..]), &mut buf);
        if self.route_log.is_some() {
            let to = match &ev {
                None => Routed::Nothing,
                Some(DatagramEvent::ConnectionEvent(ch, _)) => Routed::Conn(ch.0),
                Some(DatagramEvent::NewConnection(_)) => Routed::New,
                Some(DatagramEvent::Response(t)) => Routed::Response(t.size),
            };
            let buffered = self.nodes[node].ep.incoming_buffer_bytes() > ibb;
            let rec = RouteRec { node, step: self.steps, at: self.now, from: d.from, genuine: d.genuine, data: d.data.clone(), to, buffered };
            self.route_log.as_mut().unwrap().push(rec);
        }
        // bytes are credited to the sender's address when the datagram is consumed: at once for datagrams the
        // endpoint itself answers or turns into a new connection, and when the connection handles the event for
        // datagrams routed to an existing connection (see drive_conn)
        if !matches!(ev, Some(DatagramEvent::ConnectionEvent(..))) {
            *self.nodes[node].recv_from.entry(d.from).or_default() += d.data.len() as u64;
        }
        match ev {
            None => {}
            Some(DatagramEvent::ConnectionEvent(ch, ev)) => {
                if let Some(nc) = self.nodes[node].conns.get_mut(&ch.0) {
                    nc.events.push_back((ev, d.data.len(), d.from));
                    self.ledger.routed(node, ch.0, &d.data);
                    self.av.routed(node, ch.0, &d.data);
                }
            }
            Some(DatagramEvent::NewConnection(inc)) => self.on_incoming(node, inc, d.from, token_cause),
            Some(DatagramEvent::Response(t)) => {
                self.nodes[node].ep_tx += 1;
                self.trace.push(Rec::EpTx { node, at: self.now, size: t.size, dst: t.destination });
                self.check_stateless_response(node, &d, t.size);
                self.emit(node, None, t.destination, t.ecn, t.size, t.segment_size, &buf[..t.size]);
            }
        }
    }

    fn check_stateless_response(&mut self, node: usize, inciting: &Dgram, size: usize) {
        // C07: a response generated directly by the endpoint to a datagram shorter than 1200 bytes must be
        // smaller than that datagram unless it is a version negotiation / close for a full-size Initial
        if inciting.data.len() < 1200 && size >= inciting.data.len() && inciting.data[0] & 0x80 == 0 {
            self.fail(
                "stateless-reset-not-smaller",
                format!("node {node} answered a {}-byte short-header datagram with {size} bytes", inciting.data.len()),
            );
        }
        // C07 / RFC 9000 8.1: a reply the endpoint generates without connection state goes to an address nothing
        // has validated, so it may not exceed three times the datagram that provoked it
        if size > 3 * inciting.data.len() && !self.ledger.is_validated(node, &inciting.from) {
            self.fail(
                "stateless-response-exceeds-3x",
                format!("node {node} answered a {}-byte datagram (first byte {:#04x}) from {} with a {size}-byte endpoint response", inciting.data.len(), inciting.data.first().copied().unwrap_or(0), inciting.from),
            );
        }
    }

    fn on_incoming(&mut self, node: usize, inc: Incoming, inc_from: SocketAddr, token_cause: bool) {
        let now = self.t();
        let mut buf = Vec::new();
        match self.nodes[node].policy {
            IncomingPolicy::Accept => {}
            IncomingPolicy::Retry => {
                if !inc.remote_address_validated() {
                    if let Ok(t) = self.nodes[node].ep.retry(inc, &mut buf) {
                        self.trace.push(Rec::EpTx { node, at: self.now, size: t.size, dst: t.destination });
                        self.emit(node, None, t.destination, t.ecn, t.size, t.segment_size, &buf[..t.size]);
                    }
                    return;
                }
            }
            IncomingPolicy::Reject => {
                let t = self.nodes[node].ep.refuse(inc, &mut buf);
                self.trace.push(Rec::EpTx { node, at: self.now, size: t.size, dst: t.destination });
                self.emit(node, None, t.destination, t.ecn, t.size, t.segment_size, &buf[..t.size]);
                return;
            }
            IncomingPolicy::Ignore => {
                self.nodes[node].ep.ignore(inc);
                return;
            }
            IncomingPolicy::Hold => {
                self.held.push((node, self.now, inc));
                return;
            }
        }
        let sc = self.nodes[node].server_config_for_accept.clone();
        match self.nodes[node].ep.accept(inc, now, &mut buf, sc) {
            Ok((ch, conn)) => {
                let mut conn = conn;
                self.av.accepted(node, ch.0, inc_from, token_cause);
                crate::addrval::AddrVal::enable(&mut conn);
                if self.model_trace && self.model_ops.len() < 400_000 {
                    // a connection is born validated exactly when its first Initial carried a token this endpoint issued
                    // for the address (Retry packet seen on the wire / NEW_TOKEN frame in the plaintext log): harness facts
                    let a = conn.verif_snapshot();
                    self.model_ops.push(format!("amp new {}", token_cause as u8));
                    self.model_impl.push(format!("{} {}", a.path.validated as u8, a.path.total_sent));
                }
                if self.record_plain {
                    conn.verif_txlog_enable();
                }
                if self.record_meta {
                    conn.verif_txmeta_enable();
                }
                self.nodes[node].conns.insert(ch.0, new_nc(conn));
                self.nodes[node].accepted.push(ch.0);
            }
            Err(e) => {
                self.nodes[node].accept_errors.push(format!("{:?}", e.cause));
                if let Some(t) = e.response {
                    self.trace.push(Rec::EpTx { node, at: self.now, size: t.size, dst: t.destination });
                    self.emit(node, None, t.destination, t.ecn, t.size, t.segment_size, &buf[..t.size]);
                }
            }
        }
    }

    /// Service one connection completely at the current instant.
    fn drive_conn(&mut self, node: usize, ch: usize) {
        let now = self.t();
        let nowoff = self.now;
        let spurious = self.drv.spurious_permille;
        // timers
        let due = {
            let nc = self.nodes[node].conns.get_mut(&ch).unwrap();
            nc.conn.poll_timeout().is_some_and(|t| t <= now)
        };
        let extra = spurious > 0 && self.drv_rng.below(1000) < spurious;
        if due || extra {
            if let Some(mut f) = self.timeout_tap.take() {
                f(self, node, ch);
                self.timeout_tap = Some(f);
            }
            let before = if self.model_trace { Some(self.nodes[node].conns[&ch].conn.verif_snapshot()) } else { None };
            if let Some(b) = &before {
                // TimerTable::next_timeout against the table itself
                let base = self.base;
                let t = |x: Option<Instant>| x.map_or("-".to_string(), |i| i.saturating_duration_since(base).as_nanos().to_string());
                let tbl: Vec<String> = b.timers.iter().map(|x| t(*x)).collect();
                let pt = self.nodes[node].conns[&ch].conn.poll_timeout();
                if self.model_ops.len() < 400_000 {
                    self.model_ops.push(format!("timers next {nowoff} {}", tbl.join(" ")));
                    let exp: Vec<String> = b.timers.iter().enumerate().filter(|(_, x)| x.is_some_and(|i| i <= now)).map(|(i, _)| i.to_string()).collect();
                    self.model_impl.push(format!("{} [{}]", t(pt), exp.join(",")));
                }
            }
            let nc = self.nodes[node].conns.get_mut(&ch).unwrap();
            nc.conn.handle_timeout(now);
            if let Some(b) = before {
                let a = nc.conn.verif_snapshot();
                if self.model_ops.len() < 400_000 {
                    self.model_ops.push(format!("life timeout {nowoff} {}", life_state(self.base, &b)));
                    self.model_impl.push(life_state(self.base, &a));
                    if b.state == "established" && a.state == "established" {
                        let mm = self.path_may_migrate[node];
                        self.model_ops.push(format!("pathm timeout {nowoff} {}", path_state(self.base, &b, mm)));
                        self.model_impl.push(path_state(self.base, &a, mm));
                    }
                }
            }
            let next = nc.conn.poll_timeout().map(|t| sat_ns(t.saturating_duration_since(self.base)));
            if due {
                self.trace.push(Rec::Timeout { node, ch, at: nowoff, next });
            }
        }
        // network events
        loop {
            let ev = self.nodes[node].conns.get_mut(&ch).unwrap().events.pop_front();
            let Some((ev, len, from)) = ev else { break };
            self.nodes[node].conns.get_mut(&ch).unwrap().obs.last_rx_at = Some(nowoff);
            let before = if self.model_trace { Some(self.nodes[node].conns[&ch].conn.verif_snapshot()) } else { None };
            *self.nodes[node].recv_from.entry(from).or_default() += len as u64;
            let remote_before = self.nodes[node].conns[&ch].conn.remote_address();
            if let Some(mut f) = self.rx_tap.take() {
                f(self, node, ch, len, false);
                self.rx_tap = Some(f);
            }
            let authed_before = self.nodes[node].conns[&ch].conn.verif_snapshot().total_authed_packets;
            self.nodes[node].conns.get_mut(&ch).unwrap().conn.handle_event(ev);
            let authed_after = self.nodes[node].conns[&ch].conn.verif_snapshot().total_authed_packets;
            let rx_fact = self.av.handled(node, ch, from);
            // "a Handshake packet was accepted": from the SENDER's record of the packet (crate::addrval) wherever senders are
            // recorded; the receiver's own counter of authenticated packets only for connections a scenario made itself
            // without switching the records on
            let accepted_hs = if self.av.recording() { rx_fact.handshake } else { authed_after > authed_before };
            self.ledger.handled(node, ch, from, accepted_hs);
            if let Some(mut f) = self.rx_tap.take() {
                f(self, node, ch, len, true);
                self.rx_tap = Some(f);
            }
            let remote_after = self.nodes[node].conns[&ch].conn.remote_address();
            if self.debug_timers {
                let a = self.nodes[node].conns[&ch].conn.verif_snapshot();
                eprintln!("DBG t={} node {node} after rx {len}B: loss_timer {:?} inflight_ae {} bytes {} sp2 last_ae {:?} has_in_flight {} largest_acked {:?} pto_count {} state {}", nowoff, a.timers[0].map(|t| self.off(t)), a.path.in_flight_ack_eliciting, a.path.in_flight_bytes, a.spaces[2].time_of_last_ack_eliciting_packet.map(|t| self.off(t)), a.spaces[2].sent_in_flight, a.spaces[2].largest_acked, a.pto_count, a.state);
                if std::env::var("VERIF_SIM_TIMERDBG").map_or(false, |v| v == "2") {
                    let c = &self.nodes[node].conns[&ch].conn;
                    eprintln!("    gens {:?} remote {} prev {:?} outstanding-in-flight {:?}", c.verif_path_generations(), a.path.remote, a.prev_path.as_ref().map(|p| (p.remote, p.in_flight_bytes)), c.verif_outstanding().iter().filter(|p| p.size != 0).map(|p| (p.space, p.pn, p.size, p.ack_eliciting, p.path_generation)).collect::<Vec<_>>());
                }
            }
            if remote_after != remote_before {
                // new path: its budget starts with the datagram that revealed it
                let n = &mut self.nodes[node];
                let sent = *n.sent_to.get(&remote_after).unwrap_or(&0);
                let recvd = *n.recv_from.get(&remote_after).unwrap_or(&0);
                let credit = if from == remote_after { len as u64 } else { 0 };
                n.amp_epoch.insert(ch, (remote_after, sent, recvd.saturating_sub(credit)));
                self.ledger.path_moved(node, ch, remote_after, sent, recvd.saturating_sub(credit));
            }
            if let Some(b) = before {
                let a = self.nodes[node].conns[&ch].conn.verif_snapshot();
                // datagrams from other addresses that did not migrate the path are dropped/ignored by the path model
                let migrated = a.path.remote != b.path.remote;
                if a.total_authed_packets > b.total_authed_packets {
                    self.nodes[node].conns.get_mut(&ch).unwrap().obs.last_authed_rx_at = Some(nowoff);
                }
                // lifecycle transition caused by this datagram, classified from the observed outcome
                let open = |s: &Snapshot| s.state == "handshake" || s.state == "established";
                let toff = |x: Option<Instant>| x.map(|i| sat_ns(i.saturating_duration_since(self.base)));
                let pto3 = toff(a.timers[2]).map_or(0, |t| t.saturating_sub(nowoff));
                let same = (from == a.path.remote) as u8;
                let ev = if open(&b) && a.state == "draining" {
                    // 1-RTT close owes a closing packet in reply; a close in an Initial/Handshake packet does not
                    Some(format!("{} {nowoff} {pto3}", if a.close { "peerclose" } else { "peercloseearly" }))
                } else if b.state != "drained" && a.state == "drained" {
                    Some(format!("pkterr drained {nowoff} {pto3} {same}"))
                } else if open(&b) && a.state == "closed" {
                    Some(format!("pkterr closed {nowoff} {pto3} {same}"))
                } else if b.state == "closed" && a.state == "draining" {
                    Some("closeframe".to_string())
                } else if b.state == "handshake" && a.state == "established" {
                    None
                } else if open(&b) && open(&a) && a.total_authed_packets > b.total_authed_packets && a.timers[1] != b.timers[1] {
                    let idle = toff(a.timers[1]).map_or(0, |t| t.saturating_sub(nowoff));
                    Some(format!("authed {nowoff} {idle}"))
                } else {
                    None
                };
                if let Some(ev) = ev {
                    if self.model_ops.len() < 400_000 {
                        self.model_ops.push(format!("life {ev} {}", life_state(self.base, &b)));
                        self.model_impl.push(life_state(self.base, &a));
                    }
                }
                // path machine (C15), established connections only; the kind of packet is classified from the
                // observed outcome, the model predicts the rest of the path state
                if b.state == "established" && a.state == "established" && self.model_ops.len() < 400_000 {
                    let mm = self.path_may_migrate[node];
                    let src = addr_num(&from);
                    let pev = if migrated {
                        // the deadline is the model's: factor (regenerated from `migrate`) x max(PTO new path, PTO old path).
                        // The old path's PTO is the one AFTER this packet's ACKs were processed (the migration comes last):
                        // readable when the path left is the one remembered as previous path, else the event is not replayed
                        let mad = a.pto[2].saturating_sub(a.path.rtt_pto_base);
                        match a.prev_path.as_ref() {
                            Some(pp) if !b.path.challenge && pp.remote == b.path.remote => Some(format!("pkt {src} 1 {nowoff} {} {}", a.pto[2].as_nanos(), (pp.rtt_pto_base + mad).as_nanos())),
                            _ => None,
                        }
                    } else if !b.path.validated && a.path.validated && b.path.challenge {
                        Some(format!("response {src} match"))
                    } else if a.total_authed_packets > b.total_authed_packets || from != b.path.remote {
                        // any other packet (not triggering a migration)
                        Some(format!("pkt {src} 0 {nowoff} 0 0"))
                    } else {
                        None
                    };
                    if let Some(pev) = pev {
                        // sends between observations may clear `pending`; it is compared as observed before the event
                        self.model_ops.push(format!("pathm {pev} {}", path_state(self.base, &b, mm)));
                        self.model_impl.push(path_state(self.base, &a, mm));
                    }
                }
                if self.model_ops.len() < 400_000 {
                    // a datagram from an address other than the (resulting) path's is not credited to it
                    let op = if from == a.path.remote { "rx" } else { "foreign" };
                    // validation is PREDICTED from causes the harness derived itself (crate::addrval): `hs` a Handshake-space
                    // packet the peer built is in this datagram, `pr` a PATH_RESPONSE of the peer in it echoes a PATH_CHALLENGE
                    // this connection sent to the path's address
                    let hs = rx_fact.handshake;
                    let pr = self.av.answers_challenge_to(node, ch, &rx_fact, &b.path.remote);
                    self.model_ops.push(format!(
                        "amp {op} {len} {} {} {} {} {} {}",
                        migrated as u8, b.path.validated as u8, b.path.total_sent, b.path.total_recvd, hs as u8, pr as u8
                    ));
                    // with a cause the receiver may or may not have used it (the property permits validation, it does not
                    // demand it): "V"; without one the flag must stay as it was
                    let exact = migrated || b.path.validated || !(hs || pr);
                    let v = if exact { (a.path.validated as u8).to_string() } else { "V".to_string() };
                    self.model_impl.push(format!("{v} {} {}", a.path.total_sent, a.path.total_recvd));
                }
            }
        }
        // endpoint events <-> connection events, transmits
        let mut buf = Vec::with_capacity(1 << 16);
        for _round in 0..64 {
            let mut progressed = false;
            loop {
                let ee = self.nodes[node].conns.get_mut(&ch).unwrap().conn.poll_endpoint_events();
                let Some(ee) = ee else { break };
                progressed = true;
                let drained = ee.is_drained();
                self.trace.push(Rec::EpEv { node, ch, at: nowoff, drained });
                if drained {
                    let nc = self.nodes[node].conns.get_mut(&ch).unwrap();
                    nc.obs.drained_events += 1;
                    nc.obs.drained_at.get_or_insert(nowoff);
                }
                if let Some(ce) = self.nodes[node].ep.handle_event(ConnectionHandle(ch), ee) {
                    self.nodes[node].conns.get_mut(&ch).unwrap().conn.handle_event(ce);
                }
            }
            let mut extra_polls = 0;
            let mut transmits_this_round = 0u64;
            loop {
                transmits_this_round += 1;
                if transmits_this_round > 20_000 {
                    // poll_transmit never stops handing out datagrams at this instant (no window, pacing or state change
                    // ends it): an unbounded loop of the code under test; the execution ends here
                    self.fail("transmit-loop-unbounded", format!("node {node} conn {ch}: poll_transmit returned more than 20000 transmits in a row at one instant"));
                    self.fatal = true;
                    break;
                }
                if spurious > 0 && self.drv_rng.below(1000) < spurious {
                    // spurious calls: a timeout that is not due, polls that have nothing to report
                    let nc = self.nodes[node].conns.get_mut(&ch).unwrap();
                    let _ = nc.conn.poll_timeout();
                    if !nc.conn.poll_timeout().is_some_and(|t| t <= now) {
                        nc.conn.handle_timeout(now);
                    }
                }
                let maxd = self.nodes[node].max_datagrams;
                let before = self.nodes[node].conns[&ch].conn.verif_snapshot();
                buf.clear();
                let t = self.nodes[node].conns.get_mut(&ch).unwrap().conn.poll_transmit(now, maxd, &mut buf);
                let Some(t) = t else {
                    // C20 spurious calls: repeat a poll_transmit that had nothing to send (whatever it returns is
                    // handled like any transmit, so a difference shows in the trace)
                    if spurious > 0 && extra_polls < 2 && self.drv_rng.below(1000) < spurious {
                        extra_polls += 1;
                        continue;
                    }
                    break;
                };
                progressed = true;
                self.on_transmit(node, ch, &before, &t, &buf);
                // (a PATH_CHALLENGE for the previous path is accounted to that path, also when it has the current path's address)
                let prev_challenge = before.prev_path.as_ref().is_some_and(|p| p.challenge_pending && p.remote == t.destination);
                if self.model_trace && t.destination == before.path.remote && !prev_challenge && self.model_ops.len() < 400_000 {
                    let a = self.nodes[node].conns[&ch].conn.verif_snapshot();
                    let seg = t.segment_size.unwrap_or(t.size);
                    let mut sizes = Vec::new();
                    let mut off = 0;
                    while off < t.size {
                        let l = seg.min(t.size - off);
                        sizes.push(l.to_string());
                        off += l;
                    }
                    // the gate uses the path MTU for the first datagram and the first datagram's size afterwards
                    self.model_ops.push(format!(
                        "amp tx {} {} {} {} {} {}",
                        seg, before.path.validated as u8, before.path.total_sent, before.path.total_recvd, sizes.len(), sizes.join(" ")
                    ));
                    self.model_impl.push(format!("{} {} {} {}", a.path.validated as u8, a.path.total_sent, a.path.total_recvd, sizes.len()));
                }
                let data = buf[..t.size].to_vec();
                self.emit(node, Some(ch), t.destination, t.ecn, t.size, t.segment_size, &data);
            }
            if !progressed {
                break;
            }
        }
        // C20: servicing timeouts repeatedly at one instant reaches a state whose next timeout is in the future
        let mut rounds = 0;
        while self.nodes[node].conns[&ch].conn.poll_timeout().is_some_and(|t| t <= now) {
            rounds += 1;
            if rounds > 2 * 16 + 9 {
                self.fail("timeout-settle-not-reached", format!("node {node} conn {ch}: poll_timeout still <= now after {rounds} rounds of handle_timeout/poll_transmit"));
                break;
            }
            if let Some(mut f) = self.timeout_tap.take() {
                f(self, node, ch);
                self.timeout_tap = Some(f);
            }
            self.nodes[node].conns.get_mut(&ch).unwrap().conn.handle_timeout(now);
            let next = self.nodes[node].conns[&ch].conn.poll_timeout().map(|t| sat_ns(t.saturating_duration_since(self.base)));
            self.trace.push(Rec::Timeout { node, ch, at: nowoff, next });
            loop {
                let ee = self.nodes[node].conns.get_mut(&ch).unwrap().conn.poll_endpoint_events();
                let Some(ee) = ee else { break };
                let drained = ee.is_drained();
                self.trace.push(Rec::EpEv { node, ch, at: nowoff, drained });
                if drained {
                    let nc = self.nodes[node].conns.get_mut(&ch).unwrap();
                    nc.obs.drained_events += 1;
                    nc.obs.drained_at.get_or_insert(nowoff);
                }
                if let Some(ce) = self.nodes[node].ep.handle_event(ConnectionHandle(ch), ee) {
                    self.nodes[node].conns.get_mut(&ch).unwrap().conn.handle_event(ce);
                }
            }
            loop {
                let maxd = self.nodes[node].max_datagrams;
                let before = self.nodes[node].conns[&ch].conn.verif_snapshot();
                buf.clear();
                let t = self.nodes[node].conns.get_mut(&ch).unwrap().conn.poll_transmit(now, maxd, &mut buf);
                let Some(t) = t else { break };
                self.on_transmit(node, ch, &before, &t, &buf);
                let data = buf[..t.size].to_vec();
                self.emit(node, Some(ch), t.destination, t.ecn, t.size, t.segment_size, &data);
            }
        }
        // application events
        let mut extra_app_polls = 0;
        loop {
            let e = self.nodes[node].conns.get_mut(&ch).unwrap().conn.poll();
            let Some(e) = e else {
                // C20 spurious calls: repeat a poll() that had nothing to report
                if spurious > 0 && extra_app_polls < 2 && self.drv_rng.below(1000) < spurious {
                    extra_app_polls += 1;
                    continue;
                }
                break;
            };
            let name = ev_name(&e);
            self.trace.push(Rec::Ev { node, ch, at: nowoff, ev: name.clone() });
            let nc = self.nodes[node].conns.get_mut(&ch).unwrap();
            match &e {
                Event::Connected => nc.obs.connected = true,
                Event::HandshakeConfirmed => nc.obs.confirmed = true,
                Event::ConnectionLost { .. } => nc.obs.lost.push(name),
                _ => {}
            }
            nc.app_events.push_back(e);
        }
        // C02 "no unarmed timer": at this quiescent point (everything serviced, poll_transmit returned None) an open
        // connection with ack-eliciting data in flight in a space the PTO covers must have its loss-detection timer armed
        if self.model_trace || self.check_timer {
            let a = self.nodes[node].conns[&ch].conn.verif_snapshot();
            let closed = !(a.state == "handshake" || a.state == "established");
            let hs = a.state == "handshake";
            let amp = !a.path.validated && a.path.total_recvd * 3 < a.path.total_sent + 1;
            let ae = a.path.in_flight_ack_eliciting;
            let peer = node == SERVER || closed || a.spaces[1].largest_acked.is_some() || a.spaces[2].largest_acked.is_some() || (a.spaces[2].has_keys && !a.spaces[1].has_keys);
            let f = |s: &quinn_proto::verif::SpaceSnap| (s.sent_in_flight, s.time_of_last_ack_eliciting_packet.is_some());
            let (s0, s1, s2) = (f(&a.spaces[0]), f(&a.spaces[1]), f(&a.spaces[2]));
            let any_loss_time = a.spaces.iter().any(|s| s.loss_time.is_some());
            let covered = (s0.0 && s0.1) || (s1.0 && s1.1) || (!hs && s2.0 && s2.1);
            let required = !closed && !any_loss_time && !amp && ((ae > 0 && covered) || (ae == 0 && !peer));
            // a pending Pacing timer means poll_transmit will be retried and the loss timer set by that transmission
            let armed = a.timers[0].is_some() || a.timers[6].is_some();
            if required && !armed {
                self.fail("unarmed-timer", format!("node {node} conn {ch}: state {} in_flight ack-eliciting {ae} (spaces in flight {:?}) peer validated {peer} but no loss-detection timer", a.state, (s0, s1, s2)));
            }
            if self.model_trace && !any_loss_time && !closed && self.model_ops.len() < 400_000 && (ae > 0 || !peer) {
                self.model_ops.push(format!(
                    "lossd {} {} {} {ae} {} {} {} {} {} {} {}",
                    closed as u8, hs as u8, amp as u8, peer as u8, s0.0 as u8, s0.1 as u8, s1.0 as u8, s1.1 as u8, s2.0 as u8, s2.1 as u8
                ));
                // what the harness derived from the snapshot; the model must derive the same requirement
                self.model_impl.push(((((ae > 0 && covered) || (ae == 0 && !peer)) && !amp) as u8).to_string());
            }
        }
    }

    /// Oracles on every transmit (sizes, amplification, silence after drain).
    fn on_transmit(&mut self, node: usize, ch: usize, before: &Snapshot, t: &quinn_proto::Transmit, _buf: &[u8]) {
        let nowoff = self.now;
        // C16 "the buffer-space query agrees with the configured send-buffer bound": with an empty send queue no byte
        // is accounted as queued (the query is bound - queued bytes)
        if before.dgram_out_len == 0 && before.dgram_out_total != 0 {
            self.fail("dgram-queued-bytes-with-empty-queue", format!("node {node} conn {ch}: the datagram send queue is empty but {} bytes are accounted as queued (send_buffer_space() is short by that much; a send() that fits is refused or evicts)", before.dgram_out_total));
        }
        // C07: the sender's own record of the packets just built, read without consuming it
        self.av.on_tx(node, ch, &self.nodes[node].conns[&ch].conn, t, _buf);
        if let Some(mut f) = self.tx_tap.take() {
            f(self, node, ch, before, t, _buf);
            self.tx_tap = Some(f);
        }
        if self.record_plain {
            for l in self.nodes[node].conns.get_mut(&ch).unwrap().conn.verif_take_txlog() {
                self.plain.push(format!("n{node} c{ch} {l}"));
            }
        }
        {
            // whatever of the records nobody asked for is dropped here (they describe this transmit only)
            let c = &mut self.nodes[node].conns.get_mut(&ch).unwrap().conn;
            let _ = (c.verif_take_txlog(), c.verif_take_txpkts(), c.verif_take_new_tokens());
        }
        if self.rx_tap.is_some() {
            for (space, pn, n) in self.nodes[node].conns.get_mut(&ch).unwrap().conn.verif_take_injected() {
                self.inj_log.push((node, ch, space, pn, n));
            }
        }
        self.trace.push(Rec::Tx { node, ch, at: nowoff, size: t.size, seg: t.segment_size, dst: t.destination });
        let seg = t.segment_size.unwrap_or(t.size.max(1));
        let n = t.size.div_ceil(seg);
        {
            let obs = &mut self.nodes[node].conns.get_mut(&ch).unwrap().obs;
            obs.tx_datagrams += n as u64;
            obs.tx_bytes += t.size as u64;
            obs.first_tx_at.get_or_insert(nowoff);
            obs.last_tx_at = Some(nowoff);
            obs.max_dgram = obs.max_dgram.max(seg.min(t.size));
        }
        if before.state == "drained" || self.nodes[node].conns[&ch].obs.drained_events > 0 {
            self.nodes[node].conns.get_mut(&ch).unwrap().obs.tx_after_drained += 1;
            self.fail("output-after-drained", format!("node {node} conn {ch} transmitted {} bytes after it was drained", t.size));
        }
        // C13: the estimate rises only to the size of a probe this connection sent (and, to be acknowledged, the
        // network delivered); a fresh path starts at initial_mtu
        if let Some(rules) = self.mtu_rules {
            let cur = before.path.current_mtu;
            let obs = &mut self.nodes[node].conns.get_mut(&ch).unwrap().obs;
            let last = obs.last_mtu;
            obs.last_mtu = cur;
            if last != 0 && cur > last {
                obs.mtu_rises += 1;
                if cur != rules[node].initial && !obs.probe_sizes.contains(&(cur as usize)) {
                    let ps = obs.probe_sizes.clone();
                    self.fail("mtu-rose-without-probe", format!("node {node} conn {ch}: MTU estimate rose {last} -> {cur} but no probe of {cur} bytes was ever sent (probes sent: {ps:?}, initial_mtu {})", rules[node].initial));
                }
            }
        }
        // C13: client datagrams that carry an Initial packet are padded to at least 1200 bytes
        if self.check_mtu && node == CLIENT {
            let mut off = 0;
            while off < t.size {
                let len = seg.min(t.size - off);
                if _buf.get(off).is_some_and(|b| b & 0xf0 == 0xc0) && len < 1200 {
                    self.fail("initial-too-small", format!("client datagram of {len} bytes starts with an Initial packet (must be padded to 1200)"));
                }
                off += len;
            }
        }
        // C13: no datagram above the peer's max_udp_payload_size once its transport parameters are known
        if let Some(rules) = self.mtu_rules {
            let cap = rules[node].peer_max_udp;
            let connected = self.nodes[node].conns[&ch].obs.connected;
            if cap > 0 && (before.state == "established" || connected) && seg.min(t.size) > cap {
                self.fail("mtu-datagram-exceeds-peer-max-udp-payload", format!("node {node} conn {ch}: datagram of {} bytes > the peer's max_udp_payload_size {cap} (current_mtu {}, path remote {})", seg.min(t.size), before.path.current_mtu, before.path.remote));
            }
        }
        // C13: every datagram <= current MTU except a single probe
        if self.check_mtu {
            let mtu = before.path.current_mtu as usize;
            let mut off = 0;
            let mut oversize = 0;
            while off < t.size {
                let len = seg.min(t.size - off);
                if len > mtu {
                    oversize += 1;
                }
                off += len;
            }
            if oversize > 1 || (oversize == 1 && n > 1) {
                self.fail("datagram-exceeds-mtu", format!("node {node} conn {ch}: {oversize} of {n} datagrams (segment {seg}, total {}) exceed current_mtu {mtu}", t.size));
            }
            if oversize == 1 {
                let obs = &mut self.nodes[node].conns.get_mut(&ch).unwrap().obs;
                obs.oversize_sent += 1;
                obs.probe_sizes.insert(t.size);
                if let Some(rules) = self.mtu_rules {
                    if t.size > rules[node].probe_cap {
                        self.fail("mtu-probe-exceeds-bound", format!("node {node} conn {ch}: probe of {} bytes > min(upper_bound, peer max_udp_payload_size) = {}", t.size, rules[node].probe_cap));
                    }
                }
            }
            if t.segment_size.is_some() && n > self.nodes[node].max_datagrams {
                self.fail("too-many-segments", format!("node {node}: {n} segments > max_datagrams"));
            }
        }
        self.check_dest_ledger(node, ch, before, t);
        // C07: anti-amplification towards an unvalidated address. ARMED BY THE HARNESS' OWN FACTS (crate::addrval, the Retry
        // tokens of crate::ledger), never by the connection's `path.validated`: a path that is born or becomes validated
        // without a cause the property lists is exactly what must be caught
        let harness_validated = self.av.is_validated(node, ch, &t.destination);
        if self.check_amp && !harness_validated && t.destination == before.path.remote {
            let (sb, rb) = match self.nodes[node].amp_epoch.get(&ch) {
                Some((a, sb, rb)) if *a == t.destination => (*sb, *rb),
                _ => (0, 0),
            };
            let recvd = self.nodes[node].recv_from.get(&t.destination).unwrap_or(&0) - rb;
            let mut sent = self.nodes[node].sent_to.get(&t.destination).unwrap_or(&0) - sb;
            let mut off = 0;
            while off < t.size {
                let len = seg.min(t.size - off);
                self.av.judged += 1;
                self.av.judged_code_validated += before.path.validated as u64;
                // "completing one datagram once any budget remains"
                if sent >= 3 * recvd {
                    self.fail(
                        "amplification-limit-exceeded",
                        format!("node {node} conn {ch}: datagram of {len} bytes to unvalidated {} with {sent} already sent and {recvd} received (3x = {})", t.destination, 3 * recvd),
                    );
                    break;
                }
                sent += len as u64;
                off += len;
            }
        }
    }

    /// C07, per destination: every datagram of a connection transmit towards an address the harness has not seen
    /// validated, judged on the cumulative byte counts of that address (never rebased)
    fn check_dest_ledger(&mut self, node: usize, ch: usize, before: &Snapshot, t: &quinn_proto::Transmit) {
        if !self.ledger.on || self.ledger.is_validated(node, &t.destination) {
            return;
        }
        let off_path = t.destination != before.path.remote;
        if off_path {
            self.ledger.off_path_tx += 1;
        }
        let seg = t.segment_size.unwrap_or(t.size.max(1));
        let recvd = *self.nodes[node].recv_from.get(&t.destination).unwrap_or(&0);
        let mut sent = *self.nodes[node].sent_to.get(&t.destination).unwrap_or(&0);
        let mut off = 0;
        while off < t.size {
            let len = seg.min(t.size - off);
            self.ledger.checks += 1;
            if !crate::ledger::DestLedger::may_start(sent, recvd) {
                // the recorded finding is the HISTORY "path moved to this address >= 2 times, the current stay is within its
                // own budget" (ledger.rs::cumulative_key); any other cumulative excess keeps a key that is not recorded
                let key = if off_path { "amplification-limit-exceeded-off-path" } else { self.ledger.cumulative_key(node, ch, t.destination, sent, recvd) };
                self.fail(key, format!("node {node} conn {ch}: datagram of {len} bytes to {} (never validated: no Handshake packet, token or challenge answer seen from it; connection path is {}, path.validated {}) with {sent} bytes already sent to it and {recvd} received from it in total (3x = {}); {}", t.destination, before.path.remote, before.path.validated, 3 * recvd, self.ledger.history(node, ch, t.destination, sent, recvd)));
                break;
            }
            sent += len as u64;
            off += len;
        }
    }

    /// One scheduling step: deliver, drive every connection, advance time. Returns false when nothing
    /// remains to happen (no datagram on the wire, no timer).
    pub fn step(&mut self, tick: &mut dyn FnMut(&mut Sim)) -> bool {
        if self.fatal {
            return false;
        }
        if self.trace.len() > 4_000_000 {
            // an execution whose trace outgrows any legitimate run (normal ones stay far below a million records) is
            // running away under the code being checked: end it with a verdict instead of exhausting memory
            self.fail("execution-exceeded-trace-budget", format!("{} trace records after {} steps at t={} ns", self.trace.len(), self.steps, self.now));
            self.fatal = true;
            return false;
        }
        let t0 = self.now;
        let more = self.step_inner(tick);
        if more && self.now == t0 {
            self.stalled_steps += 1;
            if self.stalled_steps > 100_000 {
                // C20 / C03: 100000 scheduling steps at one instant (datagrams exchanged at zero latency or timers
                // re-armed at the current instant without end)
                self.fail("steps-without-time-advance", format!("{} scheduling steps in a row at t={} ns without virtual time advancing", self.stalled_steps, self.now));
                self.fatal = true;
                return false;
            }
        } else {
            self.stalled_steps = 0;
        }
        more
    }

    fn step_inner(&mut self, tick: &mut dyn FnMut(&mut Sim)) -> bool {
        self.steps += 1;
        self.clock_sync();
        for node in 0..self.nodes.len() {
            self.deliver(node);
        }
        // the application reacts to events at the instant they are produced; its calls are flushed
        // (poll_transmit etc.) at the same instant
        for _round in 0..8 {
            for node in 0..self.nodes.len() {
                let chs: Vec<usize> = self.nodes[node].conns.iter().filter(|(_, c)| !c.removed).map(|(k, _)| *k).collect();
                for ch in chs {
                    self.drive_conn(node, ch);
                }
            }
            let pending = self.nodes.iter().any(|n| n.conns.values().any(|c| !c.app_events.is_empty()));
            tick(self);
            if !pending {
                break;
            }
        }
        if self.stop_requested {
            // the caller's completion predicate became true: flush what the application queued, but do not
            // advance virtual time
            for node in 0..self.nodes.len() {
                let chs: Vec<usize> = self.nodes[node].conns.iter().filter(|(_, c)| !c.removed).map(|(k, _)| *k).collect();
                for ch in chs {
                    self.drive_conn(node, ch);
                }
            }
            return true;
        }
        for node in 0..self.nodes.len() {
            let chs: Vec<usize> = self.nodes[node].conns.iter().filter(|(_, c)| !c.removed).map(|(k, _)| *k).collect();
            for ch in chs {
                self.drive_conn(node, ch);
            }
        }
        // something deliverable right now? (zero latency)
        if self.wire.iter().any(|d| d.at <= self.now && self.node_of(d.to).is_some()) {
            return true;
        }
        let mut next: Option<u64> = None;
        for d in &self.wire {
            if self.node_of(d.to).is_some() {
                next = Some(next.map_or(d.at, |n: u64| n.min(d.at)));
            }
        }
        let late = if self.drv.late_ns > 0 { self.drv_rng.below(self.drv.late_ns) } else { 0 };
        for n in &self.nodes {
            for (_, c) in n.conns.iter().filter(|(_, c)| !c.removed) {
                if let Some(t) = c.conn.poll_timeout() {
                    let o = sat_ns(t.saturating_duration_since(self.base)).saturating_add(late);
                    next = Some(next.map_or(o, |n: u64| n.min(o)));
                }
            }
        }
        // drop datagrams to nobody
        self.wire.retain(|d| d.at > self.now || self.nodes.iter().any(|n| n.addr == d.to));
        match next {
            Some(t) => {
                if let Some(cap) = self.time_cap {
                    if t > cap {
                        self.now = self.now.max(cap);
                        return false;
                    }
                }
                self.now = self.now.max(t);
                true
            }
            None => false,
        }
    }

    fn clock_sync(&self) {
        *self.clock.0.lock().unwrap() = std::time::UNIX_EPOCH + Duration::from_secs(1_700_000_000) + Duration::from_nanos(self.now);
    }

    /// Drive until `done` says so, nothing remains, or the virtual deadline passes.
    pub fn run_until(&mut self, deadline_ns: u64, max_steps: u64, mut tick: impl FnMut(&mut Sim) -> bool) -> RunEnd {
        let start = self.steps;
        loop {
            if tick(self) {
                return RunEnd::Done;
            }
            if self.steps - start > max_steps {
                return RunEnd::StepLimit;
            }
            if self.now > deadline_ns {
                return RunEnd::Deadline;
            }
            let mut t2 = |s: &mut Sim| {
                if tick(s) {
                    s.stop_requested = true;
                }
            };
            self.stop_requested = false;
            let more = self.step(&mut t2);
            if self.stop_requested {
                self.stop_requested = false;
                return RunEnd::Done;
            }
            if !more {
                if tick(self) {
                    return RunEnd::Done;
                }
                return RunEnd::Quiescent;
            }
        }
    }

    /// Periodic cross-connection oracle (C04): per frame type, what one side processed never exceeds what the
    /// other side sent.
    pub fn check_frame_counts(&mut self, cch: usize, sch: usize) {
        let (Some(c), Some(s)) = (self.nodes[CLIENT].conns.get(&cch), self.nodes[SERVER].conns.get(&sch)) else { return };
        let cs = c.conn.stats();
        let ss = s.conn.stats();
        let mut bad = Vec::new();
        macro_rules! chk {
            ($($f:ident),*) => {$(
                if ss.frame_rx.$f > cs.frame_tx.$f { bad.push(format!("server rx {} {} > client tx {}", stringify!($f), ss.frame_rx.$f, cs.frame_tx.$f)); }
                if cs.frame_rx.$f > ss.frame_tx.$f { bad.push(format!("client rx {} {} > server tx {}", stringify!($f), cs.frame_rx.$f, ss.frame_tx.$f)); }
            )*};
        }
        chk!(acks, crypto, connection_close, data_blocked, datagram, handshake_done, max_data, max_stream_data,
             max_streams_bidi, max_streams_uni, new_connection_id, new_token, path_challenge, path_response, ping,
             reset_stream, retire_connection_id, stream_data_blocked, streams_blocked_bidi, streams_blocked_uni,
             stop_sending, stream);
        for b in bad {
            self.fail("frames-processed-exceed-frames-sent", b);
        }
    }
}

#[derive(Debug, PartialEq, Eq, Clone, Copy)]
pub enum RunEnd {
    Done,
    Quiescent,
    Deadline,
    StepLimit,
}

fn new_nc(conn: Connection) -> NodeConn {
    NodeConn { conn, events: VecDeque::new(), app_events: VecDeque::new(), obs: ConnObs::default(), removed: false }
}

pub fn default_pair(seed: u64, tc_client: TransportConfig, tc_server: TransportConfig) -> (Sim, ClientConfig) {
    let clock = SimClock(Arc::new(Mutex::new(std::time::UNIX_EPOCH + Duration::from_secs(1_700_000_000))));
    let server = Endpoint::new(
        Arc::new(endpoint_config(seed ^ 1, 8, None)),
        Some(Arc::new(server_config(seed, tc_server, &clock))),
        true,
    );
    let client = Endpoint::new(Arc::new(endpoint_config(seed ^ 2, 8, None)), None, true);
    (Sim::new(seed, client, server, clock), client_config(seed, tc_client))
}

pub fn content_byte(stream: u64, off: u64) -> u8 {
    (off.wrapping_mul(31).wrapping_add(stream.wrapping_mul(17)).wrapping_add(off >> 8) % 251) as u8
}

/// Content salted per connection (salt 0 = `content_byte`): for salts 1..250 every byte differs from the unsalted
/// content and from every other salt's, so a byte delivered to the wrong connection is seen (C09).
pub fn content_byte_s(salt: u64, stream: u64, off: u64) -> u8 {
    content_byte(stream.wrapping_add(salt), off)
}

pub fn content_s(salt: u64, stream: u64, off: u64, len: usize) -> Bytes {
    (0..len as u64).map(|i| content_byte_s(salt, stream, off + i)).collect::<Vec<u8>>().into()
}

pub fn content(stream: u64, off: u64, len: usize) -> Bytes {
    (0..len as u64).map(|i| content_byte(stream, off + i)).collect::<Vec<u8>>().into()
}
