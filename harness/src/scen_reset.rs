//! Scenario `resettok` (C04, stateless-reset clause): "the only unauthenticated inputs that may end ... a connection
//! are a stateless reset carrying EXACTLY the token the peer issued for the connection ID IN USE".
//!
//! The harness owns both endpoints' `reset_key`, so it can compute the reset token of every connection ID either
//! endpoint ever issued (and checks that the tokens seen in NEW_CONNECTION_ID frames are those). It keeps, per
//! connection and per side, a ledger built from what is visible OUTSIDE the victim's token bookkeeping:
//!  * the CIDs a side issued: its long-header source CID (sequence 0) and every NEW_CONNECTION_ID frame of its plaintext
//!    transmit log, with the instant the datagram carrying the frame was DELIVERED to the peer;
//!  * the CIDs a side has put on the wire as destination;
//!  * the sequence numbers a side retired (RETIRE_CONNECTION_ID frames of its plaintext log) and whether the peer's
//!    acknowledgement of a packet carrying the frame has been delivered to it (RFC 9000 10.3.1: until then the token of
//!    a retired CID may still be honoured);
//!  * the destination CID the victim stamps on its next packet (`verif_cid_view().rem_active`: the CID, not the token).
//! An off-path attacker then offers datagrams ending in REAL tokens that are not in use (previous connection of the
//! same client incl. the one remembered with the session ticket, retired, issued but not delivered, spare, another
//! live connection, the victim's own), near misses and random suffixes, in every wrapper, at every phase.
use std::cell::RefCell;
use std::collections::{BTreeMap, BTreeSet, HashMap};
use std::hash::{Hash, Hasher};
use std::net::{IpAddr, Ipv6Addr, SocketAddr};
use std::rc::Rc;
use std::sync::{Arc, Mutex};
use std::time::Duration;

use bytes::{Bytes, BytesMut};
use quinn_proto::crypto::HmacKey;
use quinn_proto::{
    ConnectionError, ConnectionIdGenerator, DatagramEvent, Endpoint, EndpointConfig, Event, TransportConfig, VarInt,
};

use crate::scenarios::Outcome;
use crate::sim::*;
use crate::workload::*;
use crate::Rng;

pub const RESETTOK_RULE: &str = "one execution = one client endpoint and one server endpoint whose reset keys the harness owns (CID lengths 4..20, optional CID lifetime 150 ms..2 s on either side: rotation through Timer::PushNewCid and retire_prior_to), 2..4 connections between them over time: the first fresh, the later ones RESUMED with the session ticket (0-RTT keys, remembered transport parameters), started while the previous one is still open or after it closed; each runs a small stream workload, lingers, and is closed by either application; the client changes address (local_address_changed or ping: both sides switch to a fresh destination CID); network with latency, jitter, mild loss and duplication. At every phase of every connection and side (handshake before / after the first server datagram, established, closing / draining) an attacker injects datagrams of 21..1400 bytes whose last 16 bytes are (a) the token of the CID the victim currently uses as destination [control, only for connections the plan sacrifices]; (b) a token the same peer issued that is NOT in use: for a previous connection (all of them, incl. the handshake CID whose token the session ticket's transport parameters carried), for a CID the victim has retired (retirement acknowledged), for a CID whose NEW_CONNECTION_ID frame is still in flight, for a spare CID never used; (c) a token of another live connection of the endpoint pair; (d) a token the victim itself issued; (e) random, the in-use token with one bit flipped / shifted by one byte; wrapped as short header, Initial, 0-RTT, Handshake, Retry, Version Negotiation (not towards a handshaking client), unknown version, raw bytes, or behind the prefix of a genuine datagram, fixed bit set or clear, addressed to a CID of the victim or to an unknown CID, from the peer's address or a third one. Oracles (property text; RFC 9000 10.3.1 for `in use`): forged-reset-token-not-in-use-accepted = after a datagram of classes (b)-(e) the victim connection ended (state / ConnectionLost); forged-datagram-changed-state = it changed anything else (keys, packet numbers received, authenticated packet count, CID bookkeeping, queued events); reset-genuine-token-wrong-outcome = a datagram with the in-use token (or one the RFC still allows: used and retirement not yet acknowledged; handshake CID while the handshake is completing) ended the victim with anything but Reset; forged-packets-stalled-connection / forged-packet-ended-connection = a connection that was never offered an allowed token did not finish its workload and close as planned. non-trivial = >= 2 connections, >= 1 resumed with 0-RTT keys, >= 10 not-in-use real tokens reached the victim connection and (a previous connection's token reached a resuming client during its handshake in a long-header wrapper, or a control was accepted)";

fn mk_endpoint_config(seed: u64, cid_len: usize, lifetime: Option<Duration>) -> (EndpointConfig, Arc<ring::hmac::Key>) {
    let mut key = [0u8; 64];
    Rng::new(seed ^ 0x5eed).bytes(64).iter().enumerate().for_each(|(i, b)| key[i] = *b);
    let k = Arc::new(ring::hmac::Key::new(ring::hmac::HMAC_SHA256, &key));
    let mut cfg = EndpointConfig::new(k.clone());
    let mut rs = [0u8; 32];
    Rng::new(seed ^ 0xabcd).bytes(32).iter().enumerate().for_each(|(i, b)| rs[i] = *b);
    cfg.rng_seed(Some(rs));
    let s2 = seed.wrapping_mul(31) ^ 0x77;
    cfg.cid_generator(Arc::new(move || Box::new(SeededCids::new(s2, cid_len, lifetime)) as Box<dyn ConnectionIdGenerator>));
    (cfg, k)
}

/// RFC-independent: quinn derives the token of a CID as the first 16 bytes of HMAC(reset_key, cid); the harness owns
/// the key object and calls the same `sign`.
fn token_of(key: &ring::hmac::Key, cid: &[u8]) -> [u8; 16] {
    let mut sig = vec![0u8; HmacKey::signature_len(key)];
    HmacKey::sign(key, cid, &mut sig);
    let mut t = [0u8; 16];
    t.copy_from_slice(&sig[..16]);
    t
}

fn hx(b: &[u8]) -> String {
    b.iter().map(|x| format!("{x:02x}")).collect()
}

fn dhash(d: &[u8]) -> u64 {
    let mut h = std::collections::hash_map::DefaultHasher::new();
    d.hash(&mut h);
    h.finish()
}

#[derive(Clone, Debug)]
struct Issued {
    cid: Vec<u8>,
    token: [u8; 16],
    /// a genuine datagram carrying the NEW_CONNECTION_ID frame was handed to the peer's connection (sequence 0: unused)
    delivered: bool,
}

#[derive(Clone, Debug, Default)]
struct Retire {
    /// Data-space packet numbers that carried the RETIRE_CONNECTION_ID frame
    pns: Vec<u64>,
    /// an ACK of the peer covering one of them has been delivered to the retiring side
    acked: bool,
}

#[derive(Clone, Debug, Default)]
struct TxRec {
    k: usize,
    node: usize,
    ncid: Vec<u64>,
    /// Data-space ACK ranges carried
    acks: Vec<(u64, u64)>,
}

#[derive(Clone, Copy, Debug, PartialEq, Eq)]
enum Fate {
    /// workload, linger, close by `closer`
    Normal,
    /// sacrificed: once established (and after `kill_after` ns) the control token is offered to this side
    Kill(usize),
}

struct K {
    ch: [Option<usize>; 2],
    w: Workload,
    fate: Fate,
    closer: usize,
    linger: u64,
    kill_after: u64,
    started_at: u64,
    had_0rtt: bool,
    complete_at: Option<u64>,
    closed_at: Option<u64>,
    /// a side that ended through an ALLOWED token (control / grey): (node, instant)
    killed: Option<(usize, u64)>,
    /// index = issuing node
    issued: [BTreeMap<u64, Issued>; 2],
    /// index = node: destination CIDs this side has put on the wire
    used_dst: [BTreeSet<Vec<u8>>; 2],
    /// index = node: what this side retired (peer's sequence numbers)
    retire: [BTreeMap<u64, Retire>; 2],
    /// index = node: a genuine datagram of the peer has been handed to this side's connection
    peer_seen: [bool; 2],
    phase_seen: [u8; 2],
    offered_allowed: [bool; 2],
    /// a side whose connection drained and was forgotten (its handle may be reused): what it reported as lost
    gone: [Option<Vec<String>>; 2],
    /// a datagram the PEER ENDPOINT itself produced (a genuine stateless reset) was handed to this side's connection
    endpoint_dgram: [bool; 2],
}

struct St {
    keys: [Arc<ring::hmac::Key>; 2],
    cid_len: [usize; 2],
    ks: Vec<K>,
    by_ch: [HashMap<usize, usize>; 2],
    tx: HashMap<u64, TxRec>,
    /// recent genuine datagrams per origin node (for the genuine-prefix wrapper)
    recent: [Vec<Vec<u8>>; 2],
    anomalies: Vec<String>,
    /// server connections created from a LATE COPY of a connection-creating Initial (retransmission / duplicate) that
    /// arrived after the endpoint had forgotten the attempt's first server connection: handle -> connection index.
    /// Inherent to QUIC (nothing is left to recognise the copy by); they belong to no planned connection, are never
    /// attacked and their datagrams count for nothing in the ledger.
    ghosts: [BTreeMap<usize, usize>; 2],
    ghost_tx: std::collections::HashSet<u64>,
    fails: Vec<(String, String)>,
    hist: BTreeMap<String, u64>,
}

fn parse_u64_after(s: &str, pat: &str) -> Option<u64> {
    let p = s.find(pat)?;
    let r = &s[p + pat.len()..];
    r.chars().take_while(|c| c.is_ascii_digit()).collect::<String>().parse().ok()
}

fn parse_byte_list(s: &str) -> Vec<u8> {
    s.split(',').filter_map(|x| x.trim().parse().ok()).collect()
}

/// `NewConnectionId { sequence: 1, retire_prior_to: 0, id: [1, 2], reset_token: ResetToken([..]) }` occurrences
fn parse_new_cids(line: &str) -> Vec<(u64, u64, Vec<u8>, [u8; 16])> {
    let mut out = Vec::new();
    let mut rest = line;
    let pat = "NewConnectionId { sequence: ";
    while let Some(p) = rest.find(pat) {
        rest = &rest[p + pat.len()..];
        let seq: u64 = rest.chars().take_while(|c| c.is_ascii_digit()).collect::<String>().parse().unwrap_or(u64::MAX);
        let rpt = parse_u64_after(rest, "retire_prior_to: ").unwrap_or(0);
        let Some(ip) = rest.find("id: [") else { break };
        let after = &rest[ip + 5..];
        let Some(ie) = after.find(']') else { break };
        let id = parse_byte_list(&after[..ie]);
        let Some(tp) = after.find("ResetToken([") else { break };
        let t = &after[tp + 12..];
        let Some(te) = t.find(']') else { break };
        let tv = parse_byte_list(&t[..te]);
        if tv.len() == 16 {
            let mut tok = [0u8; 16];
            tok.copy_from_slice(&tv);
            out.push((seq, rpt, id, tok));
        }
        rest = &t[te..];
    }
    out
}

fn parse_retires(line: &str) -> Vec<u64> {
    let mut out = Vec::new();
    let mut rest = line;
    let pat = "RetireConnectionId { sequence: ";
    while let Some(p) = rest.find(pat) {
        rest = &rest[p + pat.len()..];
        if let Ok(n) = rest.chars().take_while(|c| c.is_ascii_digit()).collect::<String>().parse::<u64>() {
            out.push(n);
        }
    }
    out
}

/// `Ack { largest: 5, delay: 0, ecn: None, ranges: "[0..=2,4..=5]" }`
fn parse_acks(line: &str) -> Vec<(u64, u64)> {
    let mut out = Vec::new();
    let mut rest = line;
    while let Some(p) = rest.find("ranges: \"[") {
        rest = &rest[p + 10..];
        let Some(e) = rest.find(']') else { break };
        for r in rest[..e].split(',') {
            let mut it = r.trim().split("..=");
            if let (Some(a), Some(b)) = (it.next().and_then(|x| x.parse().ok()), it.next().and_then(|x| x.parse().ok())) {
                out.push((a, b));
            }
        }
        rest = &rest[e..];
    }
    out
}

/// (long header?, version, dcid, scid) of the first packet of a datagram; short header: dcid of `short_len` bytes
fn parse_header(d: &[u8], short_len: usize) -> Option<(bool, u32, Vec<u8>, Vec<u8>)> {
    let b0 = *d.first()?;
    if b0 & 0x80 == 0 {
        if d.len() < 1 + short_len {
            return None;
        }
        return Some((false, 0, d[1..1 + short_len].to_vec(), Vec::new()));
    }
    if d.len() < 7 {
        return None;
    }
    let v = u32::from_be_bytes([d[1], d[2], d[3], d[4]]);
    let dl = d[5] as usize;
    if d.len() < 7 + dl {
        return None;
    }
    let dcid = d[6..6 + dl].to_vec();
    let sl = d[6 + dl] as usize;
    if d.len() < 7 + dl + sl {
        return None;
    }
    Some((true, v, dcid, d[7 + dl..7 + dl + sl].to_vec()))
}

/// length in bytes of the first (long-header, version 1) packet of a datagram, from its Length field
fn first_packet_len(d: &[u8]) -> Option<usize> {
    if d.first()? & 0x80 == 0 {
        return Some(d.len());
    }
    let (_, v, dcid, scid) = parse_header(d, 0)?;
    if v != 1 {
        return None;
    }
    let ty = (d[0] >> 4) & 3;
    let mut off = 7 + dcid.len() + scid.len();
    let var = |d: &[u8], off: usize| -> Option<(u64, usize)> {
        let b = *d.get(off)?;
        let n = 1usize << (b >> 6);
        if d.len() < off + n {
            return None;
        }
        let mut v = (b & 0x3f) as u64;
        for i in 1..n {
            v = (v << 8) | d[off + i] as u64;
        }
        Some((v, n))
    };
    match ty {
        0 => {
            let (tl, n) = var(d, off)?;
            off += n + tl as usize;
        }
        3 => return Some(d.len()),
        _ => {}
    }
    let (len, n) = var(d, off)?;
    let end = off + n + len as usize;
    if end > d.len() {
        None
    } else {
        Some(end)
    }
}

impl St {
    fn count(&mut self, k: &str, n: u64) {
        *self.hist.entry(k.to_string()).or_default() += n;
    }

    fn on_tx(&mut self, node: usize, ch: usize, data: &[u8], lines: Vec<String>) {
        let peer = 1 - node;
        let hdr = parse_header(data, self.cid_len[peer]);
        if self.ghosts[node].contains_key(&ch) {
            self.ghost_tx.insert(dhash(data));
            return;
        }
        let k = match self.by_ch[node].get(&ch) {
            Some(k) => *k,
            None => {
                // a server connection: its first datagram is addressed to the client's handshake CID
                let Some((true, _, dcid, _)) = &hdr else { return };
                let Some(k) = self.ks.iter().position(|k| k.ch[node].is_none() && k.gone[node].is_none() && k.issued[peer].get(&0).is_some_and(|i| i.cid == *dcid)) else {
                    // the same attempt again?
                    match self.ks.iter().position(|k| k.issued[peer].get(&0).is_some_and(|i| i.cid == *dcid)) {
                        Some(kj) if self.ks[kj].gone[node].is_some() => {
                            // its first server connection has drained and was forgotten by the endpoint (which keeps the
                            // initial destination CID registered for exactly that long): a late copy of the client's
                            // Initial is a new attempt to the endpoint
                            self.ghosts[node].insert(ch, kj);
                            self.ghost_tx.insert(dhash(data));
                            self.count("ghost-server-connection-from-late-initial-copy", 1);
                        }
                        Some(kj) => self.anomalies.push(format!("node {node} conn {ch}: a SECOND connection answers the attempt of connection {kj} (client CID {}) while its first one (handle {:?}) is still known to the endpoint", hx(dcid), self.ks[kj].ch[node])),
                        None => self.anomalies.push(format!("node {node} conn {ch}: first datagram addressed to {} which no attempt ever used", hx(dcid))),
                    }
                    return;
                };
                self.ks[k].ch[node] = Some(ch);
                self.ks[k].w.ch[node] = Some(ch);
                self.by_ch[node].insert(ch, k);
                k
            }
        };
        let key = self.keys[node].clone();
        let kk = &mut self.ks[k];
        if let Some((long, _, dcid, scid)) = hdr {
            kk.used_dst[node].insert(dcid);
            if long && !kk.issued[node].contains_key(&0) {
                let token = token_of(&key, &scid);
                kk.issued[node].insert(0, Issued { cid: scid, token, delivered: true });
            }
        }
        let mut rec = TxRec { k, node, ..Default::default() };
        for l in &lines {
            // "<space> <pn>: frames"
            let mut it = l.split(':').next().unwrap_or("").split_whitespace();
            let space: u64 = it.next().and_then(|x| x.parse().ok()).unwrap_or(9);
            let pn: u64 = it.next().and_then(|x| x.parse().ok()).unwrap_or(u64::MAX);
            for (seq, _rpt, cid, tok) in parse_new_cids(l) {
                if token_of(&key, &cid) != tok {
                    self.anomalies.push(format!("node {node}: NEW_CONNECTION_ID seq {seq} carries a token that is not HMAC(reset_key, cid)"));
                }
                kk.issued[node].entry(seq).or_insert(Issued { cid, token: tok, delivered: false });
                rec.ncid.push(seq);
            }
            if space == 2 {
                for s in parse_retires(l) {
                    kk.retire[node].entry(s).or_default().pns.push(pn);
                }
                rec.acks.extend(parse_acks(l));
            }
        }
        self.tx.insert(dhash(data), rec);
        let r = &mut self.recent[node];
        r.push(data.to_vec());
        if r.len() > 48 {
            r.remove(0);
        }
    }

    /// a genuine datagram was handed to connection `ch` of `node`
    fn on_delivered(&mut self, node: usize, ch: usize, data: &[u8]) {
        let Some(&k) = self.by_ch[node].get(&ch) else { return };
        if self.ghost_tx.contains(&dhash(data)) {
            return;
        }
        let Some(rec) = self.tx.get(&dhash(data)).cloned() else {
            // not built by any connection: the peer endpoint's own answer (stateless reset)
            self.ks[k].endpoint_dgram[node] = true;
            return;
        };
        if rec.k != k || rec.node == node {
            return;
        }
        let kk = &mut self.ks[k];
        kk.peer_seen[node] = true;
        for s in &rec.ncid {
            if let Some(i) = kk.issued[rec.node].get_mut(s) {
                i.delivered = true;
            }
        }
        for r in kk.retire[node].values_mut() {
            if !r.acked && r.pns.iter().any(|pn| rec.acks.iter().any(|(a, b)| a <= pn && pn <= b)) {
                r.acked = true;
            }
        }
    }
}

/// The ledger's verdict for side `node` of connection `ki`: the token in use (RFC 9000 10.3.1: of the CID the side
/// addresses its packets to, once it has been given that token) and the tokens that are still allowed besides.
fn allowed_tokens(st: &St, ki: usize, node: usize, cids: &quinn_proto::verif::ConnCidView, connected: bool) -> (Option<[u8; 16]>, BTreeSet<[u8; 16]>, Option<String>) {
    let peer = 1 - node;
    let mut in_use: Option<[u8; 16]> = None;
    let mut grey: BTreeSet<[u8; 16]> = BTreeSet::new();
    let mut anomaly = None;
    let k = &st.ks[ki];
    let (aseq, acid) = (cids.rem_active.0, cids.rem_active.1.clone());
    if let Some(i) = k.issued[peer].get(&aseq) {
        if i.cid != acid {
            // a client addresses its first flight to a CID of its own choice until the server's answer arrives
            if aseq > 0 || connected {
                anomaly = Some(format!("connection {ki} node {node}: destination CID seq {aseq} is {} but the peer issued {} under that number", hx(&acid), hx(&i.cid)));
            }
        } else if aseq > 0 || (node == CLIENT && connected) {
            in_use = Some(i.token);
        } else if node == CLIENT && k.peer_seen[node] {
            // the server's transport parameters may have been received already
            grey.insert(i.token);
        }
    }
    for (s, i) in &k.issued[peer] {
        // (a client's handshake CID has no token: clients cannot send the transport parameter)
        let has_token = *s > 0 || node == CLIENT;
        let received = if *s == 0 { k.peer_seen[node] } else { i.delivered };
        let retired_acked = k.retire[node].get(s).is_some_and(|r| r.acked);
        if has_token && received && k.used_dst[node].contains(&i.cid) && !retired_acked {
            grey.insert(i.token);
        }
    }
    (in_use, grey, anomaly)
}

#[derive(Clone, Copy, Debug, PartialEq, Eq)]
enum Class {
    /// the token of the CID the victim stamps on its next packet (and has been given the token of)
    InUse,
    /// RFC 9000 10.3.1 still allows it: used on the wire, retirement not yet acknowledged / handshake CID while the
    /// transport parameters are in flight
    Grey,
    Forbidden,
}

#[derive(Clone, Debug, PartialEq, Eq)]
struct Obs {
    state: &'static str,
    has_error: bool,
    close: bool,
    authed: u64,
    highest_space: usize,
    key_phase: bool,
    accepted_0rtt: bool,
    spaces: Vec<(bool, u64, u64, u64, Option<u64>, u64)>,
    data_recvd: u64,
    remote: SocketAddr,
    validated: bool,
    events_queued: usize,
    endpoint_events_queued: usize,
    cids: quinn_proto::verif::ConnCidView,
}

fn observe(sim: &Sim, node: usize, ch: usize) -> Obs {
    let c = &sim.nodes[node].conns[&ch].conn;
    let s = c.verif_snapshot();
    Obs {
        state: s.state,
        has_error: s.has_error,
        close: s.close,
        authed: s.total_authed_packets,
        highest_space: s.highest_space,
        key_phase: s.key_phase,
        accepted_0rtt: s.accepted_0rtt,
        spaces: s.spaces.iter().map(|x| (x.has_keys, x.dedup_next, x.rx_packet, x.crypto_offset, x.largest_acked, x.next_pn)).collect(),
        data_recvd: s.streams.data_recvd,
        remote: s.path.remote,
        validated: s.path.validated,
        events_queued: s.events_queued,
        endpoint_events_queued: s.endpoint_events_queued,
        cids: c.verif_cid_view(),
    }
}

fn varint2(v: usize) -> [u8; 2] {
    [0x40 | ((v >> 8) as u8 & 0x3f), v as u8]
}

/// Build the attack datagram: `want` total bytes (>= 21), ending in `tok`.
fn wrap(rng: &mut Rng, kind: u64, dcid: &[u8], scid: &[u8], tok: &[u8; 16], want: usize, genuine: Option<&Vec<u8>>) -> (Vec<u8>, &'static str) {
    let fixed = if rng.chance(3, 4) { 0x40u8 } else { 0 };
    let low = rng.below(16) as u8;
    let mut d: Vec<u8>;
    let name: &'static str;
    let mut forced_total: Option<usize> = None;
    let long = |ty: u8, version: u32, d: &mut Vec<u8>| {
        d.push(0x80 | fixed | (ty << 4) | low);
        d.extend_from_slice(&version.to_be_bytes());
        d.push(dcid.len() as u8);
        d.extend_from_slice(dcid);
        d.push(scid.len() as u8);
        d.extend_from_slice(scid);
    };
    match kind {
        0 => {
            name = "short";
            d = vec![fixed | (rng.below(64) as u8)];
            d.extend_from_slice(dcid);
        }
        1 => {
            name = "initial";
            d = Vec::new();
            long(0, 1, &mut d);
            let tl = *rng.pick(&[0usize, 0, 0, 5, 30]);
            d.push(tl as u8);
            d.extend(rng.bytes(tl));
            let total = want.max(d.len() + 2 + 20);
            let len = total - d.len() - 2;
            d.extend_from_slice(&varint2(len));
            forced_total = Some(total);
        }
        2 | 3 => {
            name = if kind == 2 { "zero-rtt" } else { "handshake" };
            d = Vec::new();
            long(if kind == 2 { 1 } else { 2 }, 1, &mut d);
            let total = want.max(d.len() + 2 + 20);
            let len = total - d.len() - 2;
            d.extend_from_slice(&varint2(len));
            forced_total = Some(total);
        }
        4 => {
            name = "retry";
            d = Vec::new();
            long(3, 1, &mut d);
        }
        5 => {
            name = "version-negotiation";
            d = Vec::new();
            long(rng.below(4) as u8, 0, &mut d);
        }
        6 => {
            name = "unknown-version";
            d = Vec::new();
            let v = 0x1000_0000u32 | (rng.below(1 << 24) as u32);
            long(rng.below(4) as u8, v, &mut d);
        }
        7 => {
            name = "genuine-prefix";
            // the prefix of a genuine datagram, cut inside its first packet, filled up to that packet's length so
            // that a Length field still delimits a packet that ends in the token (its protected bytes are damaged)
            let g = genuine.cloned().unwrap_or_else(|| vec![0x40; 40]);
            let fl = first_packet_len(&g).unwrap_or(g.len()).max(40);
            let g = if g.len() < fl { [g.clone(), rng.bytes(fl - g.len())].concat() } else { g };
            let cut = rng.range(1, (fl - 17) as u64) as usize;
            d = g[..cut].to_vec();
            let fill = fl - 16 - cut;
            d.extend(rng.bytes(fill));
            d.extend_from_slice(tok);
            return (d, name);
        }
        _ => {
            name = "raw";
            let n = rng.range(1, 30) as usize;
            d = rng.bytes(n);
        }
    }
    let total = forced_total.unwrap_or(want.max(d.len() + 16).max(21));
    let fill = total - 16 - d.len();
    d.extend(rng.bytes(fill));
    d.extend_from_slice(tok);
    (d, name)
}

pub fn resettok(seed: u64, out: &mut Outcome) {
    let verbose = std::env::var("VERIF_SIM_VERBOSE").is_ok();
    let mut rng = Rng::new(seed ^ 0x7e5e_7704);
    // ---- endpoints
    let lens = [4usize, 8, 8, 8, 12, 20];
    let cid_len = [*rng.pick(&lens), *rng.pick(&lens)];
    let lifetimes = [150u64, 400, 1000, 2000];
    let lt = |rng: &mut Rng| if rng.chance(1, 2) { Some(Duration::from_millis(*rng.pick(&lifetimes))) } else { None };
    let lifetime = [lt(&mut rng), lt(&mut rng)];
    let clock = SimClock(Arc::new(Mutex::new(std::time::UNIX_EPOCH + Duration::from_secs(1_700_000_000))));
    let mk_tc = |rng: &mut Rng| {
        let mut t = TransportConfig::default();
        t.max_idle_timeout(None);
        if rng.chance(1, 3) {
            t.keep_alive_interval(Some(Duration::from_millis(*rng.pick(&[100u64, 700]))));
        }
        if rng.chance(1, 3) {
            t.mtu_discovery_config(None);
        }
        t
    };
    let (tc, ts) = (mk_tc(&mut rng), mk_tc(&mut rng));
    let (scfg_ep, skey) = mk_endpoint_config(seed ^ 1, cid_len[SERVER], lifetime[SERVER]);
    let (ccfg_ep, ckey) = mk_endpoint_config(seed ^ 2, cid_len[CLIENT], lifetime[CLIENT]);
    let server = Endpoint::new(Arc::new(scfg_ep), Some(Arc::new(server_config(seed, ts, &clock))), true);
    let client = Endpoint::new(Arc::new(ccfg_ep), None, true);
    let mut sim = Sim::new(seed, client, server, clock);
    let ccfg = client_config(seed, tc);
    sim.check_amp = false;
    sim.record_plain = true;
    sim.route_log = Some(Vec::new());
    sim.net.latency_ns = *rng.pick(&[1_000_000u64, 5_000_000, 20_000_000]);
    sim.net.jitter_ns = *rng.pick(&[0u64, 0, 500_000, 4_000_000]);
    sim.net.drop_permille = *rng.pick(&[0u64, 0, 0, 10, 30]);
    sim.net.dup_permille = *rng.pick(&[0u64, 0, 20]);
    sim.net.path_mtu = 65000;
    sim.nodes[CLIENT].max_datagrams = 1;
    sim.nodes[SERVER].max_datagrams = 1;
    // ---- plan
    let nconn = rng.range(2, 4) as usize;
    let st = Rc::new(RefCell::new(St {
        keys: [ckey, skey],
        cid_len,
        ks: Vec::new(),
        by_ch: [HashMap::new(), HashMap::new()],
        tx: HashMap::new(),
        recent: [Vec::new(), Vec::new()],
        anomalies: Vec::new(),
        ghosts: [BTreeMap::new(), BTreeMap::new()],
        ghost_tx: Default::default(),
        fails: Vec::new(),
        hist: BTreeMap::new(),
    }));
    {
        let st2 = st.clone();
        sim.tx_tap = Some(Box::new(move |sim: &mut Sim, node: usize, ch: usize, _b, t: &quinn_proto::Transmit, buf: &[u8]| {
            let lines = sim.nodes[node].conns.get_mut(&ch).unwrap().conn.verif_take_txlog();
            st2.borrow_mut().on_tx(node, ch, &buf[..t.size], lines);
        }));
    }
    // every earlier connection's tokens of both endpoints: (uid, issuing node, seq, token)
    let mut to_start = nconn;
    let mut next_start_at = 0u64;
    let mut start_after_close = false;
    // VERIF_RESETTOK_NOATTACK=1: the same execution plan without the attacker (to attribute an end-of-run failure)
    let no_attack = std::env::var("VERIF_RESETTOK_NOATTACK").is_ok();
    let planned_attacks = rng.range(40, 160);
    let mut attacks_left = if no_attack { 0 } else { planned_attacks };
    let bg_every = rng.range(2, 9);
    let mut migrations_left = rng.below(3);
    let mut next_migration_at = rng.range(200_000_000, 3_000_000_000);
    let mut third = 0u16;
    let mut route_seen = 0usize;
    let mut injected = 0u64;
    let mut reached = 0u64;
    let mut forbidden_real_reached = 0u64;
    let mut prev_tok_hs_long = 0u64;
    let mut controls_accepted = 0u64;
    let mut resumed_0rtt = 0u64;
    let mut arng = Rng::new(seed ^ 0xa77a_c4e2);
    let mut next_wake = 0u64;

    let end = sim.run_until(120_000_000_000, 400_000, |sim| {
        let mut stb = st.borrow_mut();
        let st: &mut St = &mut stb;
        // ---- deliveries since the last tick
        if let Some(rl) = sim.route_log.as_mut() {
            let recs: Vec<(usize, usize, Vec<u8>)> = rl[route_seen..].iter().filter(|r| r.genuine).filter_map(|r| if let Routed::Conn(ch) = r.to { Some((r.node, ch, r.data.clone())) } else { None }).collect();
            if verbose {
                for r in rl[route_seen..].iter().filter(|r| matches!(r.to, Routed::New)) {
                    eprintln!("t={} node {}: a {} datagram of {} bytes from {} (first byte {:#04x}, header {:?}) was turned into a NEW connection attempt", r.at, r.node, if r.genuine { "GENUINE" } else { "forged" }, r.data.len(), r.from, r.data.first().copied().unwrap_or(0), parse_header(&r.data, 0).map(|(_, v, d, sc)| (v, hx(&d), hx(&sc))));
                }
            }
            rl.clear();
            route_seen = 0;
            for (node, ch, data) in recs {
                st.on_delivered(node, ch, &data);
            }
        }
        // ---- sides that drained (before anything can reuse their handles)
        for node in 0..2 {
            let drained: Vec<usize> = st.ghosts[node].keys().copied().filter(|c| sim.nodes[node].conns.get(c).map_or(true, |nc| nc.obs.drained_events > 0)).collect();
            for c in drained {
                st.ghosts[node].remove(&c);
                if let Some(nc) = sim.nodes[node].conns.get_mut(&c) {
                    nc.removed = true;
                }
            }
        }
        for ki in 0..st.ks.len() {
            let k = &mut st.ks[ki];
            // sides that drained are no longer driven; the endpoint may reuse their handles
            for node in 0..2 {
                if let Some(c) = k.ch[node] {
                    let nc = sim.nodes[node].conns.get_mut(&c).unwrap();
                    if nc.obs.drained_events > 0 {
                        nc.removed = true;
                        k.gone[node] = Some(nc.obs.lost.clone());
                        k.ch[node] = None;
                        k.w.ch[node] = None;
                        st.by_ch[node].remove(&c);
                    }
                }
            }
        }
        // ---- start connections
        let prev_done = st.ks.last().map_or(true, |k| k.closed_at.is_some() || k.killed.is_some());
        let prev_up = st.ks.last().map_or(true, |k| k.ch[CLIENT].is_some_and(|c| sim.nodes[CLIENT].conns[&c].obs.confirmed));
        if to_start > 0 && sim.now >= next_start_at && (if start_after_close { prev_done } else { prev_up || prev_done }) {
            to_start -= 1;
            let ch = sim.connect(ccfg.clone());
            let uid = st.ks.len();
            let had_0rtt = sim.conn(CLIENT, ch).has_0rtt();
            resumed_0rtt += had_0rtt as u64;
            let mut w = Workload::new(seed ^ ((uid as u64 + 1) << 24));
            w.salt = 1 + uid as u64;
            let (nc, ns) = (1 + rng.below(2) as usize, rng.below(2) as usize);
            w.sides[CLIENT].plans = Workload::random_plans(&mut rng, nc, 40_000);
            w.sides[SERVER].plans = Workload::random_plans(&mut rng, ns, 20_000);
            w.ch[CLIENT] = Some(ch);
            let fate = match rng.below(6) {
                0 => Fate::Kill(CLIENT),
                1 => Fate::Kill(SERVER),
                _ => Fate::Normal,
            };
            st.by_ch[CLIENT].insert(ch, uid);
            st.ks.push(K {
                ch: [Some(ch), None],
                w,
                fate,
                closer: rng.below(2) as usize,
                linger: *rng.pick(&[0u64, 100_000_000, 800_000_000, 2_500_000_000]),
                kill_after: *rng.pick(&[0u64, 50_000_000, 600_000_000, 2_000_000_000]),
                started_at: sim.now,
                had_0rtt,
                complete_at: None,
                closed_at: None,
                killed: None,
                issued: Default::default(),
                used_dst: Default::default(),
                retire: Default::default(),
                peer_seen: [false; 2],
                phase_seen: [0; 2],
                offered_allowed: [false; 2],
                gone: [None, None],
                endpoint_dgram: [false; 2],
            });
            start_after_close = rng.chance(1, 2);
            next_start_at = sim.now + *rng.pick(&[0u64, 30_000_000, 400_000_000, 1_500_000_000]);
        }
        // ---- client address change (all its connections move)
        let any_handshaking = st.ks.iter().any(|k| (0..2).any(|n| k.ch[n].is_some_and(|c| sim.nodes[n].conns[&c].conn.verif_snapshot().state == "handshake")));
        // (an address change during a handshake is outside the protocol: RFC 9000 9)
        if migrations_left > 0 && !any_handshaking && sim.now >= next_migration_at && st.ks.iter().any(|k| k.closed_at.is_none() && k.killed.is_none() && k.ch[CLIENT].is_some_and(|c| sim.nodes[CLIENT].conns[&c].obs.confirmed)) {
            migrations_left -= 1;
            next_migration_at = sim.now + rng.range(300_000_000, 2_000_000_000);
            let old = sim.nodes[CLIENT].addr;
            sim.nodes[CLIENT].addr = SocketAddr::new(old.ip(), old.port() + 1);
            st.count("client-address-changes", 1);
            for k in st.ks.iter() {
                if let Some(c) = k.ch[CLIENT] {
                    let nc = sim.nodes[CLIENT].conns.get_mut(&c).unwrap();
                    if nc.removed || !nc.obs.connected || nc.conn.verif_snapshot().state != "established" {
                        continue;
                    }
                    if rng.chance(2, 3) {
                        nc.conn.local_address_changed();
                    } else {
                        nc.conn.ping();
                    }
                }
            }
        }
        // ---- applications
        for ki in 0..st.ks.len() {
            let now = sim.t();
            let k = &mut st.ks[ki];
            k.w.tick(sim);
            if k.killed.is_some() {
                // the application of the surviving side notices after a while and closes
                if let Some((dead, at)) = k.killed {
                    let other = 1 - dead;
                    if k.closed_at.is_none() && sim.now >= at + k.linger {
                        if let Some(c) = k.ch[other] {
                            sim.conn(other, c).close(now, VarInt::from_u32(7), Bytes::new());
                        }
                        k.closed_at = Some(sim.now);
                    }
                }
                continue;
            }
            // a connection that ended by itself (e.g. the recorded CONNECTION_ID_LIMIT_ERROR finding) is over: judged at the end
            if k.closed_at.is_none() && (0..2).any(|n| k.ch[n].is_some_and(|c| !sim.nodes[n].conns[&c].obs.lost.is_empty()) || k.gone[n].as_ref().is_some_and(|l| !l.is_empty())) {
                k.closed_at = Some(sim.now);
            }
            if k.complete_at.is_none() && k.ch[SERVER].is_some() && k.w.complete() {
                k.complete_at = Some(sim.now);
            }
            if let (Some(t), None, Fate::Normal) = (k.complete_at, k.closed_at, k.fate) {
                if sim.now >= t + k.linger {
                    if let Some(c) = k.ch[k.closer] {
                        sim.conn(k.closer, c).close(now, VarInt::from_u32(0), Bytes::new());
                        k.closed_at = Some(sim.now);
                    }
                }
            }
            if let Fate::Kill(v) = k.fate {
                // no token in use to sacrifice it with (or the control was ignored): let it finish normally
                if k.killed.is_none() && sim.now > k.started_at + k.kill_after + 1_500_000_000 && k.ch[v].is_some_and(|c| sim.nodes[v].conns[&c].obs.connected) {
                    k.fate = Fate::Normal;
                    *st.hist.entry("sacrifice-given-up".to_string()).or_default() += 1;
                }
            }
        }
        if sim.now >= next_wake {
            next_wake = sim.now + 25_000_000;
            let to = sim.nodes[SERVER].addr;
            let from = SocketAddr::new(IpAddr::V6(Ipv6Addr::new(0, 0, 0, 0, 0, 0, 8, 1)), 9);
            sim.push_wire(Dgram { at: next_wake, seq: 0, from, to, ecn: None, data: Vec::new(), origin: usize::MAX, genuine: false });
        }
        // ---- the attacker
        let mut todo: Vec<(usize, usize, bool)> = Vec::new(); // (connection, victim node, control?)
        for ki in 0..st.ks.len() {
            for node in 0..2 {
                let k = &mut st.ks[ki];
                let Some(c) = k.ch[node] else { continue };
                let nc = &sim.nodes[node].conns[&c];
                if nc.removed {
                    continue;
                }
                let s = nc.conn.verif_snapshot();
                let phase: u8 = match s.state {
                    "handshake" => {
                        if k.peer_seen[node] || node == SERVER {
                            2
                        } else if nc.obs.tx_datagrams > 0 {
                            1
                        } else {
                            0
                        }
                    }
                    "established" => 3,
                    "closed" => 4,
                    "draining" => 5,
                    _ => continue,
                };
                if k.phase_seen[node] & (1 << phase) == 0 {
                    k.phase_seen[node] |= 1 << phase;
                    if arng.chance(4, 5) {
                        for _ in 0..arng.range(1, 3) {
                            todo.push((ki, node, false));
                        }
                    }
                }
                if let Fate::Kill(v) = k.fate {
                    if v == node && phase == 3 && k.killed.is_none() && sim.now >= k.started_at + k.kill_after && arng.chance(1, 3) {
                        todo.push((ki, node, true));
                    }
                }
            }
        }
        if attacks_left > 0 && sim.steps % bg_every == 0 && !st.ks.is_empty() {
            let ki = arng.below(st.ks.len() as u64) as usize;
            todo.push((ki, arng.below(2) as usize, false));
        }
        for (ki, node, control) in todo {
            if no_attack {
                break;
            }
            if attacks_left == 0 && !control {
                break;
            }
            let peer = 1 - node;
            let Some(c) = st.ks[ki].ch[node] else { continue };
            if sim.nodes[node].conns[&c].removed {
                continue;
            }
            let before = observe(sim, node, c);
            if before.state == "drained" {
                continue;
            }
            if st.ks[ki].killed.is_some_and(|(n, _)| n == node) {
                continue;
            }
            let connected = sim.nodes[node].conns[&c].obs.connected;
            // ---- the ledger's verdict on which tokens are in use / still allowed
            let (in_use, grey, anomaly) = allowed_tokens(st, ki, node, &before.cids, connected);
            if let Some(a) = anomaly {
                st.anomalies.push(a);
            }
            // ---- candidate tokens by class
            let mut cands: Vec<([u8; 16], &'static str)> = Vec::new();
            {
                let k = &st.ks[ki];
                for (kj, o) in st.ks.iter().enumerate() {
                    for (s, i) in &o.issued[peer] {
                        if kj < ki {
                            cands.push((i.token, if *s == 0 { "previous-connection-handshake-cid" } else { "previous-connection-cid" }));
                        } else if kj > ki {
                            cands.push((i.token, "later-connection-cid"));
                        }
                    }
                    if kj != ki {
                        for i in o.issued[node].values() {
                            cands.push((i.token, "own-token-other-connection"));
                        }
                    }
                }
                for (s, i) in &k.issued[peer] {
                    let what = if k.retire[node].get(s).is_some_and(|r| r.acked) {
                        "retired-acked"
                    } else if k.retire[node].contains_key(s) {
                        "retired-unacked"
                    } else if *s > 0 && !i.delivered {
                        "issued-not-delivered"
                    } else if !k.used_dst[node].contains(&i.cid) {
                        "spare-unused"
                    } else {
                        "used"
                    };
                    cands.push((i.token, what));
                }
                for i in k.issued[node].values() {
                    cands.push((i.token, "own-token"));
                }
                // a CID value the peer endpoint never issued
                cands.push((token_of(&st.keys[peer], &arng.bytes(st.cid_len[peer])), "peer-key-unissued-cid"));
            }
            let (tok, what): ([u8; 16], &'static str) = if control {
                match in_use {
                    Some(t) => (t, "control-in-use"),
                    None => {
                        st.count("control-skipped-no-token-in-use", 1);
                        continue;
                    }
                }
            } else {
                match arng.below(10) {
                    0 => {
                        let mut t = [0u8; 16];
                        t.copy_from_slice(&arng.bytes(16));
                        (t, "random")
                    }
                    1 => match in_use {
                        Some(mut t) => {
                            if arng.chance(1, 2) {
                                t[arng.below(16) as usize] ^= 1 << arng.below(8);
                                (t, "in-use-bit-flipped")
                            } else {
                                t.rotate_left(1);
                                (t, "in-use-shifted")
                            }
                        }
                        None => (cands[arng.below(cands.len() as u64) as usize].0, "real"),
                    },
                    _ => {
                        // previous connections' handshake tokens are what a session ticket remembers: favour them
                        let prevs: Vec<usize> = (0..cands.len()).filter(|i| cands[*i].1 == "previous-connection-handshake-cid").collect();
                        if !prevs.is_empty() && arng.chance(1, 3) {
                            cands[*arng.pick(&prevs)]
                        } else {
                            cands[arng.below(cands.len() as u64) as usize]
                        }
                    }
                }
            };
            let class = if in_use == Some(tok) {
                Class::InUse
            } else if grey.contains(&tok) {
                Class::Grey
            } else {
                Class::Forbidden
            };
            // a non-control probe never offers a token that is allowed to end a connection the plan wants to keep
            if !control && class == Class::InUse {
                continue;
            }
            // ---- wrapper
            let handshaking = before.state == "handshake";
            let mut kind = if control { *arng.pick(&[0u64, 0, 0, 4, 5, 8]) } else { arng.below(9) };
            if kind == 5 && node == CLIENT && handshaking {
                // Version Negotiation may end a client that has not accepted a server packet
                kind = 4;
            }
            let own: Vec<Vec<u8>> = st.ks[ki].issued[node].values().map(|i| i.cid.clone()).collect();
            let to_known_cid = !own.is_empty() && arng.chance(2, 3);
            let dcid = if to_known_cid {
                // the newest CIDs are the ones still registered
                let n = own.len();
                own[n - 1 - (arng.below(n.min(3) as u64) as usize)].clone()
            } else if kind == 0 {
                arng.bytes(st.cid_len[node])
            } else {
                {
                let n = *arng.pick(&[0usize, 4, 8, 20]);
                arng.bytes(n)
            }
            };
            let scid = match arng.below(3) {
                0 => Vec::new(),
                1 => st.ks[ki].issued[peer].values().next().map(|i| i.cid.clone()).unwrap_or_default(),
                _ => {
                    let n = *arng.pick(&[4usize, 8, 20]);
                    arng.bytes(n)
                }
            };
            let want = *arng.pick(&[21usize, 22, 30, 38, 39, 40, 41, 42, 43, 60, 100, 300, 1199, 1200, 1201, 1400]);
            let genuine = if st.recent[peer].is_empty() { None } else { Some(st.recent[peer][arng.below(st.recent[peer].len() as u64) as usize].clone()) };
            let (data, wname) = wrap(&mut arng, kind, &dcid, &scid, &tok, want, genuine.as_ref());
            let peer_addr = before.remote;
            let from = if control || arng.chance(3, 4) {
                peer_addr
            } else {
                third += 1;
                SocketAddr::new(IpAddr::V6(Ipv6Addr::new(0, 0, 0, 0, 0, 0, 9, 1 + third % 3)), 7000 + third % 5)
            };
            if !control {
                attacks_left -= 1;
            }
            injected += 1;
            // ---- deliver synchronously
            let now = sim.t();
            let mut buf = Vec::new();
            let ev = sim.nodes[node].ep.handle(now, from, None, None, BytesMut::from(&data[..]), &mut buf);
            let mut hit = false;
            match ev {
                None => {}
                Some(DatagramEvent::ConnectionEvent(ch2, ev)) => {
                    if ch2.0 == c {
                        hit = true;
                        sim.nodes[node].conns.get_mut(&c).unwrap().conn.handle_event(ev);
                    } else if let Some(nc) = sim.nodes[node].conns.get_mut(&ch2.0) {
                        // routed to another connection (e.g. its token): judged there as an unsolicited datagram
                        let kj = st.by_ch[node].get(&ch2.0).copied();
                        let allowed = kj.is_some_and(|kj| {
                            let (u, g, _) = allowed_tokens(st, kj, node, &nc.conn.verif_cid_view(), nc.obs.connected);
                            u == Some(tok) || g.contains(&tok)
                        });
                        let b2 = nc.conn.verif_snapshot().state;
                        nc.conn.handle_event(ev);
                        let a2 = nc.conn.verif_snapshot().state;
                        if a2 != b2 {
                            if allowed {
                                if let Some(kj) = kj {
                                    st.ks[kj].killed.get_or_insert((node, sim.now));
                                    st.ks[kj].offered_allowed[node] = true;
                                }
                            } else {
                                st.fails.push(("forged-reset-token-not-in-use-accepted".into(), format!("a datagram meant for connection {ki} was routed to connection handle {} of node {node} and changed its state {b2} -> {a2}; token {} ({what}) wrapper {wname}", ch2.0, hx(&tok))));
                            }
                        }
                    }
                }
                Some(DatagramEvent::NewConnection(inc)) => sim.nodes[node].ep.ignore(inc),
                Some(DatagramEvent::Response(t)) => {
                    let a = sim.nodes[node].addr;
                    sim.send_wire(node, a, t.destination, t.ecn, buf[..t.size].to_vec());
                }
            }
            st.count(&format!("wrapper:{wname}"), 1);
            st.count(&format!("token:{what}"), 1);
            st.count(&format!("class:{class:?}"), 1);
            if !hit {
                continue;
            }
            reached += 1;
            st.count(&format!("reached:{what}"), 1);
            let is_prev = what.starts_with("previous-connection");
            if class == Class::Forbidden && !matches!(what, "random" | "in-use-bit-flipped" | "in-use-shifted") {
                forbidden_real_reached += 1;
            }
            if is_prev && handshaking && node == CLIENT && st.ks[ki].had_0rtt && matches!(wname, "initial" | "zero-rtt" | "retry" | "genuine-prefix" | "handshake") && from == peer_addr {
                prev_tok_hs_long += 1;
            }
            let after = observe(sim, node, c);
            // application events the datagram produced (handed on to the workload like the simulator does)
            let mut lost: Vec<ConnectionError> = Vec::new();
            if after != before {
                loop {
                    let e = sim.nodes[node].conns.get_mut(&c).unwrap().conn.poll();
                    let Some(e) = e else { break };
                    let nc = sim.nodes[node].conns.get_mut(&c).unwrap();
                    if let Event::ConnectionLost { reason } = &e {
                        nc.obs.lost.push(format!("ConnectionLost({reason:?})"));
                        lost.push(reason.clone());
                    }
                    nc.app_events.push_back(e);
                }
            }
            let desc = format!(
                "connection {ki} (resumed with 0-RTT keys: {}) victim node {node} in state {} (connected {connected}, destination CID seq {}): {}-byte {wname} datagram from {from} (peer is {peer_addr}) to CID {} ending in token {} [{what}; ledger class {class:?}] replay-bytes {}",
                st.ks[ki].had_0rtt,
                before.state,
                before.cids.rem_active.0,
                data.len(),
                hx(&dcid),
                hx(&tok),
                if data.len() <= 80 { hx(&data) } else { format!("{}..{}", hx(&data[..40]), hx(&data[data.len() - 24..])) }
            );
            let ended = after.state != before.state || after.has_error != before.has_error || !lost.is_empty();
            match class {
                Class::Forbidden => {
                    if ended {
                        st.fails.push(("forged-reset-token-not-in-use-accepted".into(), format!("{desc}: state {} -> {}, reported {lost:?}", before.state, after.state)));
                        // the execution cannot continue as planned
                        st.ks[ki].killed.get_or_insert((node, sim.now));
                    } else if after != before {
                        st.fails.push(("forged-datagram-changed-state".into(), format!("{desc}: before {before:?} after {after:?}")));
                    }
                }
                Class::InUse | Class::Grey => {
                    st.ks[ki].offered_allowed[node] = true;
                    if ended {
                        let was_open = before.state == "handshake" || before.state == "established";
                        let ok = after.state == "drained" && lost.iter().all(|r| matches!(r, ConnectionError::Reset)) && (!was_open || lost.len() == 1);
                        if !ok {
                            st.fails.push(("reset-genuine-token-wrong-outcome".into(), format!("{desc}: state {} -> {}, reported {lost:?} (wanted: drained, exactly ConnectionLost(Reset))", before.state, after.state)));
                        }
                        st.ks[ki].killed.get_or_insert((node, sim.now));
                        if control {
                            controls_accepted += 1;
                        }
                        st.count(&format!("accepted:{what}:{wname}"), 1);
                    } else {
                        if after != before {
                            st.fails.push(("reset-genuine-token-wrong-outcome".into(), format!("{desc}: not ended, but changed: before {before:?} after {after:?}")));
                        }
                        st.count(&format!("ignored:{what}:{wname}"), 1);
                    }
                }
            }
        }
        // ---- done?
        to_start == 0
            && st.ks.iter().all(|k| {
                k.closed_at.is_some()
                    // (without idle timeout a side whose peer's close was lost stays for ever: not waited for)
                    && ((0..2).all(|n| k.ch[n].is_none()) || k.closed_at.is_some_and(|t| sim.now > t + 10_000_000_000))
            })
    });
    // ---- end-of-run oracles
    let stb = st.borrow();
    let mut fails: Vec<(String, String)> = stb.fails.clone();
    for (ki, k) in stb.ks.iter().enumerate() {
        // (an allowed token that was offered and IGNORED excuses nothing)
        let untouched = k.killed.is_none();
        if !untouched {
            continue;
        }
        let lost_of = |n: usize| k.gone[n].clone().or_else(|| k.ch[n].map(|c| sim.nodes[n].conns[&c].obs.lost.clone())).unwrap_or_default();
        let lost_c = lost_of(CLIENT);
        let lost_s = lost_of(SERVER);
        // the side that did not close sees the peer's application close (code 0); nothing else
        // ... or, when its own packets met a peer that had already forgotten the connection, that endpoint's genuine reset
        let bad = |l: &Vec<String>, n: usize| l.iter().any(|x| !(x.contains("ApplicationClosed") || (k.endpoint_dgram[n] && x.contains("Reset"))));
        // (a genuine reset that reaches a side already draining is reported in addition to the close: recorded C08 finding
        // lost-reported-twice:ApplicationClosed+Reset; here only the planned close counts)
        let planned = |l: &Vec<String>, n: usize| l.iter().filter(|x| !(k.endpoint_dgram[n] && x.contains("Reset"))).count();
        if lost_c.iter().chain(lost_s.iter()).any(|x| x.contains("CONNECTION_ID_LIMIT_ERROR")) {
            // recorded finding of C09 (CID rotation racing a retirement), not the attacker's doing
            fails.push(("routing-rotation-exceeds-peer-cid-limit".into(), format!("connection {ki}: client lost {lost_c:?}, server lost {lost_s:?}")));
        } else if bad(&lost_c, CLIENT) || bad(&lost_s, SERVER) || planned(&lost_c, CLIENT) + planned(&lost_s, SERVER) > 1 {
            fails.push(("forged-packet-ended-connection".into(), format!("connection {ki} was not ended by a token the property allows, yet: client lost {lost_c:?}, server lost {lost_s:?}")));
        } else if k.complete_at.is_none() || k.closed_at.is_none() {
            fails.push(("forged-packets-stalled-connection".into(), format!("connection {ki} was not ended by a token the property allows, yet its workload did not complete (end {end:?}, t={} ms; server side known: {})", sim.now / 1_000_000, k.ch[SERVER].is_some() || k.gone[SERVER].is_some())));
        } else {
            k.w.final_check(&mut sim, false);
        }
    }
    out.runs += 1;
    out.evaluations += sim.steps + injected;
    let nontrivial = stb.ks.len() >= 2 && resumed_0rtt >= 1 && forbidden_real_reached >= 10 && (prev_tok_hs_long >= 1 || controls_accepted >= 1);
    out.nontrivial += nontrivial as u64;
    out.count(&format!("end:{end:?}"), 1);
    out.count("connections", stb.ks.len() as u64);
    out.count("connections-resumed-with-0rtt-keys", resumed_0rtt);
    out.count("injected", injected);
    out.count("reached-victim-connection", reached);
    out.count("not-in-use-real-token-reached-victim", forbidden_real_reached);
    out.count("previous-token-to-resuming-client-in-handshake-long-wrapper", prev_tok_hs_long);
    out.count("controls-accepted-as-reset", controls_accepted);
    out.count("harness-anomalies", stb.anomalies.len() as u64);
    for (k, v) in &stb.hist {
        out.count(k, *v);
    }
    if out.samples.len() < 2 {
        out.samples.push(format!(
            "seed {seed}: cid lengths {cid_len:?} lifetimes {lifetime:?}; {} connections ({resumed_0rtt} resumed with 0-RTT keys); {injected} injected, {reached} reached the victim connection, {forbidden_real_reached} of them real tokens not in use, {controls_accepted} controls accepted; end {end:?} at t={} ms",
            stb.ks.len(),
            sim.now / 1_000_000
        ));
    }
    if verbose {
        eprintln!("--- seed {seed}: end {end:?} t={} ms hist {:?}", sim.now / 1_000_000, stb.hist);
        for (ki, k) in stb.ks.iter().enumerate() {
            eprintln!(
                "connection {ki}: ch {:?} fate {:?} closer {} 0rtt {} complete {:?} closed {:?} killed {:?} issued C {:?} S {:?} retire {:?}",
                k.ch,
                k.fate,
                k.closer,
                k.had_0rtt,
                k.complete_at,
                k.closed_at,
                k.killed,
                k.issued[0].iter().map(|(s, i)| (*s, hx(&i.cid), i.delivered)).take(3).collect::<Vec<_>>(),
                k.issued[1].iter().map(|(s, i)| (*s, hx(&i.cid), i.delivered)).take(3).collect::<Vec<_>>(),
                k.retire.iter().map(|r| r.len()).collect::<Vec<_>>()
            );
            for n in 0..2 {
                if let Some(c) = k.ch[n] {
                    eprintln!("   node {n}: lost {:?} state {}", sim.nodes[n].conns[&c].obs.lost, sim.nodes[n].conns[&c].conn.verif_snapshot().state);
                }
            }
        }
        for a in &stb.anomalies {
            eprintln!("anomaly: {a}");
        }
    }
    for a in stb.anomalies.iter().take(3) {
        fails.push(("harness-resettok-ledger-anomaly".into(), a.clone()));
    }
    for (k, w) in fails {
        out.fails.push(format!("key={k} t={} {w} seed={seed}", sim.now));
    }
    for f in sim.fails.drain(..) {
        out.fails.push(format!("{f} seed={seed}"));
    }
}
