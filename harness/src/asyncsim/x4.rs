//! C18 (and C01 / C17 through the async API), round-4 plan families of asyncsim — glue shared by
//!   * `ab.rs`    ARGUMENT BOUNDARIES of every data-moving call (zero-length / one-byte / exact-remainder / larger
//!                buffers and limits, empty writes, empty datagrams),
//!   * `stale.rs` STALE HANDLES after a 0-RTT rejection against the streams that reuse their ids, every order of
//!                {open new, park operation, use/drop stale handle, peer event},
//!   * `eol.rs`   ENDPOINT END-OF-LIFE ORDERS: Incoming queued / held / accepted before, during and after
//!                `Endpoint::close`, `wait_idle` parked before or started later, endpoint handles dropped.
//! The families run as ADDITIONAL cases with their own case ids (`AB_BASE + k`, …) and their own generator
//! streams: the cases 0..n of a run keep exactly the plans they had. `ASYNCSIM_CASE=<id>` replays one of them,
//! `ASYNCSIM_ONLY=ab|stale|eol|base` restricts a run to one family (then all `n` cases are of that family).
use super::*;

pub(super) const AB_BASE: u64 = 1_000_000;
pub(super) const STALE_BASE: u64 = 2_000_000;
pub(super) const EOL_BASE: u64 = 3_000_000;

#[derive(Clone, Debug)]
pub(super) enum X4Plan {
    Ab(ab::AbPlan),
    Stale(stale::StalePlan),
    Eol(eol::EolPlan),
}

pub(super) fn family(case: u64) -> Option<&'static str> {
    match case {
        c if c >= EOL_BASE => Some("eol"),
        c if c >= STALE_BASE => Some("stale"),
        c if c >= AB_BASE => Some("ab"),
        _ => None,
    }
}

/// the case ids of a run of `n` base cases
pub(super) fn cases(n: u64, only: Option<&str>) -> Vec<u64> {
    let base = |b: u64, k: u64| (0..k).map(move |i| b + i);
    match only {
        Some("base") => (0..n).collect(),
        Some("ab") => base(AB_BASE, n).collect(),
        Some("stale") => base(STALE_BASE, n).collect(),
        Some("eol") => base(EOL_BASE, n).collect(),
        _ => (0..n).chain(base(AB_BASE, n / 4)).chain(base(STALE_BASE, n / 5)).chain(base(EOL_BASE, n / 4)).collect(),
    }
}

/// turn the generic plan of a family case into that family's plan (own generator stream; network delays,
/// scheduler policy, clock tick and the close action of the generic plan are kept)
pub(super) fn apply(plan: &mut Plan, cseed: u64, case: u64) {
    let Some(fam) = family(case) else { return };
    let mut rng = Rng::new(cseed ^ 0x4a5_c18_0004);
    plan.sides = [SidePlan::default(), SidePlan::default()];
    plan.multi = false;
    plan.unit_gaps = false;
    plan.k_ep_accept = 1;
    plan.extra_connects = 0;
    plan.mid = None;
    plan.zrtt = None;
    plan.qev = None;
    for t in plan.tc.iter_mut() {
        t.max_bi = 100;
        t.max_uni = 100;
        t.rwnd = t.rwnd.max(100_000);
        t.swnd = t.swnd.max(50_000);
        t.dg_sbuf = 1_000_000;
    }
    // (I/O faults as close action are exercised by the generic cases)
    if matches!(plan.close, CloseKind::RecvError(_) | CloseKind::SendError(_)) {
        plan.close = CloseKind::Explicit(rng.below(2) as usize);
    }
    plan.x4 = Some(match fam {
        "ab" => {
            // two thirds loss-free, the rest with the seeded fair loss. Half of the loss-free ones also without
            // reordering: only then is every datagram owed (a 1-RTT packet that is overtaken by the packet
            // retiring the connection ID it was addressed to is discarded by the receiving endpoint, and DATAGRAM
            // frames are not retransmitted: ab seed 3 case 1000011 of the first version of this oracle)
            if rng.chance(2, 3) {
                plan.net.loss_pct = 0;
                if rng.chance(1, 2) {
                    plan.net.jitter = 0;
                }
            }
            X4Plan::Ab(ab::gen(&mut rng, plan.net.loss_pct == 0 && plan.net.jitter == 0))
        }
        "stale" => {
            // bounded completion needs a loss-free network
            plan.net.loss_pct = 0;
            plan.incoming = IncomingKind::Accept;
            for t in plan.tc.iter_mut() {
                t.stream_rwnd = *rng.pick(&[1500u32, 4096]);
            }
            X4Plan::Stale(stale::gen(&mut rng))
        }
        _ => {
            plan.net.loss_pct = 0;
            plan.incoming = IncomingKind::Accept;
            X4Plan::Eol(eol::gen(&mut rng))
        }
    });
}

/// the root tasks of a family case
pub(super) fn spawn_roots(root: &mut Ctx, plan: &Arc<Plan>, epc: Endpoint, eps: Endpoint, ccfg: ClientConfig, server: SocketAddr, scfg2: quinn::ServerConfig) {
    match plan.x4.as_ref().unwrap() {
        X4Plan::Ab(_) => {
            root.spawn("app:client:main0".into(), Class::Job, move |c| client_main(c, epc, ccfg, server));
            root.spawn("app:server:main0".into(), Class::EndpointLevel, move |c| server_main(c, eps, 0, 1, 1));
            root.spawn("app:ab:script".into(), Class::Job, ab::script);
        }
        X4Plan::Stale(_) => {
            root.spawn("app:client:main0".into(), Class::Job, move |c| stale::client_main(c, epc, ccfg, server, scfg2));
            root.spawn("app:server:main0".into(), Class::EndpointLevel, move |c| stale::server_main(c, eps));
        }
        X4Plan::Eol(_) => {
            root.spawn("app:eol:client".into(), Class::Job, move |c| eol::client_main(c, epc, ccfg, server));
            root.spawn("app:eol:server".into(), Class::Job, move |c| eol::server_main(c, eps));
        }
    }
}

// ---- signals between the tasks of one case (name -> virtual time at which it was raised)

#[derive(Clone, Debug, Default)]
pub(super) struct Sig(Arc<Mutex<BTreeMap<String, u64>>>);

impl Sig {
    pub(super) fn raise(&self, ctx: &Ctx, name: &str) {
        let now = ctx.w.now();
        self.0.lock().unwrap().entry(name.to_string()).or_insert(now);
    }
    pub(super) fn is(&self, name: &str) -> bool {
        self.0.lock().unwrap().contains_key(name)
    }
    /// waits (on the virtual clock) until `name` was raised; false after `ns`
    pub(super) async fn wait(&self, ctx: &mut Ctx, name: &str, ns: u64) -> bool {
        let until = ctx.w.now() + ns;
        loop {
            if self.is(name) {
                return true;
            }
            if ctx.w.now() >= until {
                return false;
            }
            zsleep(ctx, MS).await;
        }
    }
}

/// `fut`, for at most `ns` of virtual time
pub(super) struct Within<F> {
    fut: Pin<Box<F>>,
    sleep: Sleep,
}

impl<F: Future> Future for Within<F> {
    type Output = Option<F::Output>;
    fn poll(self: Pin<&mut Self>, cx: &mut Context<'_>) -> Poll<Self::Output> {
        let this = self.get_mut();
        if let Poll::Ready(v) = this.fut.as_mut().poll(cx) {
            return Poll::Ready(Some(v));
        }
        match Pin::new(&mut this.sleep).poll(cx) {
            Poll::Ready(()) => Poll::Ready(None),
            Poll::Pending => Poll::Pending,
        }
    }
}

pub(super) fn within<F: Future>(ctx: &Ctx, ns: u64, fut: F) -> Within<F> {
    Within { fut: Box::pin(fut), sleep: Sleep { w: ctx.w.clone(), until: ctx.w.now() + ns, id: None } }
}

pub(super) fn data(job: u64, len: usize) -> Vec<u8> {
    (0..len as u64).map(|o| content_byte(job, o)).collect()
}

/// waits until both sides of the (single) connection of the case are registered
pub(super) async fn both_conns(ctx: &mut Ctx) -> Option<[Connection; 2]> {
    for _ in 0..4000 {
        let (x, y) = (drvwake::conn_of(&ctx.h, CLIENT), drvwake::conn_of(&ctx.h, SERVER));
        if let (Some(x), Some(y)) = (x, y) {
            return Some([x, y]);
        }
        if ctx.closing() {
            return None;
        }
        zsleep(ctx, 5 * MS).await;
    }
    None
}
