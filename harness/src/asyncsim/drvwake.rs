//! C18, driver-wake rule (part of asyncsim): "every pending operation completes as soon as its condition holds
//! … under any interleaving of tasks". The condition of a peer's pending operation (a parked `open_uni`, a
//! parked `read`, …) is usually made true by frames THIS side has to transmit, and frames are transmitted by
//! the connection driver only. So whenever an application-side call (read / stop / reset / finish / write /
//! drop of a handle / send_datagram / set_* / close — anything that runs outside the driver) takes the
//! protocol state machine from "nothing to transmit" to "something to transmit", that call must leave the
//! driver runnable: among all interleavings there is the one in which nothing else ever happens on the
//! connection, and in that one an unwoken driver keeps the frames (and the peer's operation) waiting until
//! an unrelated timer fires.
//!
//! Observation (read-only hooks, feature `quinn_rs_quinn_verif`):
//!  * `quinn::Connection::verif_with_proto(|p| p.verif_tx_ready())` — would `poll_transmit` build an
//!    ack-eliciting 1-RTT packet or a CONNECTION_CLOSE now (under-approximation: established/closing
//!    connections, not blocked by congestion control or anti-amplification);
//!  * `quinn::Connection::verif_driver_waker()` — the waker in `State::driver` (present = the driver went to
//!    sleep and no `State::wake` happened since); the harness finds the task behind it (`Waker::will_wake`)
//!    and looks at its ready flag (a driver woken through its socket, timer or event channel is runnable too).
//! The executor evaluates both immediately before and after EVERY poll of a non-driver task (one task runs at
//! a time, so whatever changed in between was done by that poll), and around every handle drop / close /
//! set_* the controller performs itself.
use super::*;
use quinn_proto::verif::{FrameProbe, Oblig};

/// per-call form: the poll of an application task created transmit work and left the driver asleep
pub(super) const KEY_NOT_WOKEN: &str = "c18-driver-not-woken";
/// end-to-end form: an operation of the peer stays parked on a quiescent connection while the frames that
/// would complete it sit queued behind a sleeping driver
pub(super) const KEY_E2E_QUEUED: &str = "c18-lost-wakeup-frames-queued-driver-asleep";
/// stream credit was freed but no MAX_STREAMS was queued, by something else than
/// `RecvStream::stop` on a stream with known final size
pub(super) const KEY_CREDIT_NOT_ANNOUNCED: &str = "c18-stream-credit-not-announced";
/// the same when the freeing call was proto `RecvStream::stop` (or the drop of an unread `RecvStream`) on a stream
/// whose final size is known: the call frees the stream itself and must queue MAX_STREAMS itself (a repaired defect,
/// known_findings.txt `fixed:`; the key is an ordinary violation and names the call site)
pub(super) const KEY_KNOWN_STOP: &str = "c18-stream-credit-announced-only-after-next-packet";

#[derive(Clone, Debug, Default)]
pub(super) struct DrvProbe {
    pub present: bool,
    pub tx_ready: bool,
    pub blocked: Option<&'static str>,
    pub state: &'static str,
    /// the driver's waker sits unconsumed in `State::driver` and the driver task is not runnable
    pub asleep: bool,
    pub driver: String,
}

pub(super) fn probe_conn(w: &World, c: &Connection) -> DrvProbe {
    let tx = c.verif_with_proto(|p| p.verif_tx_ready());
    let (asleep, driver) = match c.verif_driver_waker() {
        None => (false, "(no waker registered: running, woken, or gone)".to_string()),
        Some(wk) => {
            let w = w.l();
            match w.registry.iter().find(|(_, _, tw)| tw.will_wake(&wk)) {
                Some((name, tw, _)) => {
                    let done = tw.info.lock().unwrap().mode == Mode::Done;
                    (!done && !tw.ready.load(SeqCst), name.clone())
                }
                None => (false, "(waker of an unknown task)".to_string()),
            }
        }
    };
    DrvProbe { present: true, tx_ready: tx.ready, blocked: tx.blocked, state: tx.state, asleep, driver }
}

pub(super) fn conn_of(hs: &Hs, side: usize) -> Option<Connection> {
    hs.lock().unwrap().conn[side].clone()
}

pub(super) fn probe_all(w: &World, hs: &Hs) -> [DrvProbe; 2] {
    let mut out = [DrvProbe::default(), DrvProbe::default()];
    for side in 0..2 {
        if let Some(c) = conn_of(hs, side) {
            out[side] = probe_conn(w, &c);
        }
    }
    out
}

pub(super) fn oblig(c: &Connection) -> (Oblig, FrameProbe) {
    c.verif_with_proto(|p| (p.verif_oblig(), p.verif_frame_probe()))
}

/// what is queued in the application data space, for messages
pub(super) fn queued(c: &Connection) -> String {
    let (o, _) = oblig(c);
    let mut v = o.queued[2].clone();
    let unsent: Vec<u64> = o.streams.send.iter().filter(|s| s.unsent || s.fin_pending).map(|s| s.id).collect();
    if !unsent.is_empty() {
        v.push(format!("STREAM data/FIN of {unsent:?}"));
    }
    if o.dgrams_queued > 0 {
        v.push(format!("{} DATAGRAM", o.dgrams_queued));
    }
    if v.is_empty() {
        "(nothing)".into()
    } else {
        v.join(",")
    }
}

/// the per-call rule, applied to the states before and after one application-side step
pub(super) fn judge(before: &[DrvProbe; 2], after: &[DrvProbe; 2], hs: &Hs, log: &Log, what: &str) {
    for side in 0..2 {
        let (b, a) = (&before[side], &after[side]);
        if !(b.present && a.present) {
            continue;
        }
        let mut l = log.lock().unwrap();
        *l.counters.entry("drvwake:app-steps-probed".into()).or_default() += 1;
        if !b.tx_ready && a.tx_ready {
            *l.counters.entry("drvwake:app-step-created-transmit-work".into()).or_default() += 1;
            if a.asleep {
                let q = if a.state == "closed" { "CONNECTION_CLOSE".to_string() } else { conn_of(hs, side).map(|c| queued(&c)).unwrap_or_default() };
                if l.fails.len() < 20 {
                    l.fails.push(format!(
                        "key={KEY_NOT_WOKEN} {}: {what} left the connection ({}) with frames to transmit [{q}] that were not there before, yet its driver {} stays asleep (State::driver still holds the waker, the task is not runnable): nothing sends them until an unrelated event",
                        SIDE[side], a.state, a.driver
                    ));
                }
            }
        }
    }
}

/// stream credit of direction `dir` (0 = bi, 1 = uni) at the side that grants it:
/// (MAX_STREAMS queued?, freed but not yet announced?, max_remote, sent_max_remote)
pub(super) fn credit_state(c: &Connection, dir: usize) -> (bool, bool, u64, u64) {
    let (o, f) = oblig(c);
    let tag = format!("MAX_STREAMS:{}", if dir == 0 { "bi" } else { "uni" });
    let q = o.queued[2].iter().any(|x| *x == tag);
    (q, f.max_remote[dir] > o.streams.sent_max_remote[dir], f.max_remote[dir], o.streams.sent_max_remote[dir])
}

/// does the receive half of stream `id` exist with a known final size (FIN or RESET_STREAM received)?
pub(super) fn final_size_known(c: &Connection, id: quinn::StreamId) -> bool {
    let p = c.verif_with_proto(|p| p.verif_stream_probe(id.into()));
    p.recv == 2 && (p.recv_final.is_some() || p.recv_reset)
}
