//! C18, end-to-end form of the driver-wake rule (part of asyncsim): QUIESCENT SINGLE-EVENT plans.
//!
//! One connection with a tight stream limit (1 or 2) and no other workload. A script runs a seeded
//! permutation of rounds; in each round one operation of one side is PARKED on a condition (an `open_uni` /
//! `open_bi` at the stream limit, a `read`, a `read_datagram`), the script waits until the connection is
//! fully quiescent (nothing in flight, every ACK exchanged, no quinn timer within 5 s, every driver asleep),
//! and then makes ONE application-side call on the other side that makes the condition true:
//!   * a read (read / read_chunk / read_chunks / read_exact / read_to_end) that observes the peer's
//!     RESET_STREAM, or the end of a finished stream; `received_reset()`;
//!   * `stop()` / drop of a `RecvStream` with unread data, while the writer still has the stream open (the
//!     writer's pending `stopped()` completes and it drops its handle), or after the final size is known
//!     (proto `RecvStream::stop` frees the stream at once and has to queue MAX_STREAMS itself: the defect
//!     `c18-stream-credit-announced-only-after-next-packet`, repaired — see known_findings.txt `fixed:`);
//!   * `set_max_concurrent_{uni,bi}_streams`;
//!   * `finish()` / `reset()` / `write()` / drop of a `SendStream` (peer parked in a read);
//!   * `send_datagram` (peer parked in `read_datagram`).
//! The property ("every pending operation completes as soon as its condition holds") requires the parked
//! operation to complete; with a loss-free network and one-way delays of a few milliseconds it has to do so
//! within `BOUND` of virtual time WITHOUT any other traffic. When it does not, the script reads the state of
//! the side that owes the frames (read-only hooks) and names what went wrong:
//!   frames queued + driver asleep           -> `c18-lost-wakeup-frames-queued-driver-asleep`
//!   credit freed, MAX_STREAMS never queued  -> `c18-stream-credit-announced-only-after-next-packet` when the call was
//!                                              stop/drop after the final size was known (the key names the
//!                                              call site), else `c18-stream-credit-not-announced`
//! (all of them ordinary violations).
//!   anything else                           -> `c18-lost-wakeup`
//! and then pokes the connection (an unrelated MAX_DATA raise) so that the following rounds still run.
use super::*;
use drvwake::{KEY_CREDIT_NOT_ANNOUNCED, KEY_E2E_QUEUED, KEY_KNOWN_STOP};

/// the parked operation must complete within this much virtual time after the single event
const BOUND: u64 = SEC;
/// set-up steps (non-quiescent) get this long
const SETUP: u64 = 4 * SEC;

#[derive(Clone, Copy, Debug, PartialEq, Eq)]
pub(super) enum Ev {
    ReadSeesReset(RMode),
    ReadSeesFin(RMode),
    ReceivedReset,
    /// (writer had reset rather than finished the stream)
    StopKnownFinal(bool),
    DropKnownFinal(bool),
    StopOpen,
    DropOpen,
    SetMaxStreams,
    Finish,
    Reset,
    Write,
    DropSend,
    SendDatagram,
}

#[derive(Clone, Debug)]
pub(super) struct Round {
    pub ev: Ev,
    /// bytes the writer sends first (>= 1) and how many of them the reader takes before the event
    pub len: usize,
    pub pre: usize,
}

#[derive(Clone, Debug)]
pub(super) struct QevPlan {
    /// the side that opens the streams (and parks at the limit); the other side grants the credit
    pub opener: usize,
    pub bi: bool,
    pub limit: u32,
    pub rounds: Vec<Round>,
}

pub(super) fn gen_qev(rng: &mut Rng) -> QevPlan {
    let rm = |rng: &mut Rng| *rng.pick(&[RMode::Read, RMode::ReadChunk, RMode::ReadChunks, RMode::ReadExact, RMode::ReadToEnd]);
    let mut evs = vec![
        Ev::ReadSeesReset(rm(rng)),
        Ev::ReadSeesReset(rm(rng)),
        Ev::ReadSeesFin(rm(rng)),
        Ev::ReadSeesFin(rm(rng)),
        Ev::ReceivedReset,
        Ev::StopKnownFinal(rng.chance(1, 2)),
        Ev::DropKnownFinal(rng.chance(1, 2)),
        Ev::StopOpen,
        Ev::DropOpen,
        Ev::SetMaxStreams,
        Ev::Finish,
        Ev::Reset,
        Ev::Write,
        Ev::DropSend,
        Ev::SendDatagram,
    ];
    // seeded permutation
    for i in (1..evs.len()).rev() {
        let j = rng.below(i as u64 + 1) as usize;
        evs.swap(i, j);
    }
    let rounds = evs
        .into_iter()
        .map(|ev| {
            let len = *rng.pick(&[1usize, 1, 7, 300, 1000]);
            let pre = match rng.below(3) {
                0 => 0,
                1 => len,
                _ => rng.below(len as u64 + 1) as usize,
            };
            Round { ev, len, pre }
        })
        .collect();
    QevPlan { opener: rng.below(2) as usize, bi: rng.chance(1, 3), limit: *rng.pick(&[1u32, 1, 2]), rounds }
}

/// turn `plan` into a quiescent single-event case (keeps network delays, scheduler policy, close action)
pub(super) fn apply(plan: &mut Plan, q: QevPlan) {
    plan.sides = [SidePlan::default(), SidePlan::default()];
    plan.multi = false;
    plan.unit_gaps = false;
    plan.k_ep_accept = 1;
    plan.extra_connects = 0;
    plan.mid = None;
    plan.zrtt = None;
    // bounded completion needs a loss-free network (delays, reordering and send blocking stay seeded)
    plan.net.loss_pct = 0;
    for t in plan.tc.iter_mut() {
        t.max_bi = if q.bi { q.limit } else { 100 };
        t.max_uni = if q.bi { 100 } else { q.limit };
        // flow control out of the way: every round moves at most 1000 bytes
        t.stream_rwnd = t.stream_rwnd.max(4096);
        t.rwnd = t.rwnd.max(100_000);
        t.swnd = t.swnd.max(50_000);
        t.dg_sbuf = 1_000_000;
    }
    plan.qev = Some(q);
}

type Pair = (SendStream, Option<RecvStream>);

#[derive(Default)]
struct Cell {
    done_at: Option<u64>,
    stream: Option<Pair>,
    result: Option<String>,
}

type Shared = Arc<Mutex<Cell>>;

/// `fut`, for at most `ns` of virtual time
struct Within<F> {
    fut: Pin<Box<F>>,
    sleep: Sleep,
}

impl<F: Future> Future for Within<F> {
    type Output = Option<F::Output>;
    fn poll(self: Pin<&mut Self>, cx: &mut Context<'_>) -> Poll<Self::Output> {
        let this = self.get_mut();
        if let Poll::Ready(v) = this.fut.as_mut().poll(cx) {
            return Poll::Ready(Some(v));
        }
        match Pin::new(&mut this.sleep).poll(cx) {
            Poll::Ready(()) => Poll::Ready(None),
            Poll::Pending => Poll::Pending,
        }
    }
}

fn within<F: Future>(ctx: &Ctx, ns: u64, fut: F) -> Within<F> {
    Within { fut: Box::pin(fut), sleep: Sleep { w: ctx.w.clone(), until: ctx.w.now() + ns, id: None } }
}

/// full quiescence: nothing in flight or undelivered, no quinn timer within 5 s — observed twice, 40 ms of
/// virtual time apart (the clock only advances when no task is runnable, so every driver is asleep then)
async fn quiet(ctx: &mut Ctx) -> bool {
    let mut calm = 0;
    for _ in 0..400 {
        zsleep(ctx, 40 * MS).await;
        let ok = {
            let w = ctx.w.l();
            let now = w.now;
            w.flights.is_empty() && w.inbox.iter().all(|q| q.is_empty()) && w.timers.values().filter(|t| !t.harness && t.waker.is_some()).all(|t| t.deadline > now + 5 * SEC)
        };
        calm = if ok { calm + 1 } else { 0 };
        if calm >= 2 {
            return true;
        }
    }
    false
}

async fn wait_done(ctx: &mut Ctx, cell: &Shared, ns: u64) -> bool {
    let until = ctx.w.now() + ns;
    loop {
        if cell.lock().unwrap().done_at.is_some() {
            return true;
        }
        if ctx.w.now() >= until {
            return false;
        }
        zsleep(ctx, MS).await;
    }
}

fn qdata(round: usize, len: usize) -> Vec<u8> {
    (0..len as u64).map(|o| content_byte(5000 + round as u64, o)).collect()
}

fn spawn_open_waiter(ctx: &mut Ctx, side: usize, conn: Connection, bi: bool, cell: Shared, round: usize) {
    ctx.spawn(format!("app:{}:qev_open{round}", SIDE[side]), Class::Job, move |c| async move {
        c.set_op(&format!("open_{} (parked at the stream limit, round {round})", if bi { "bi" } else { "uni" }));
        let r = if bi { conn.open_bi().await.map(|(s, r)| (s, Some(r))) } else { conn.open_uni().await.map(|s| (s, None)) };
        let mut g = cell.lock().unwrap();
        g.done_at = Some(c.w.now());
        match r {
            Ok(p) => {
                g.result = Some("Ok".into());
                g.stream = Some(p);
            }
            Err(e) => g.result = Some(err_kind(&e)),
        }
    });
}

/// reads `recv` with the given mode until the stream ends one way or the other; "fin" / the error
async fn read_out(recv: &mut RecvStream, rmode: RMode, round: usize, mut off: usize, len: usize, bad: &mut Option<String>) -> String {
    let exp = qdata(round, len);
    let mut check = |off: usize, b: &[u8]| {
        if off + b.len() > len || exp[off..off + b.len()] != b[..] {
            *bad = Some(format!("{} bytes at offset {off} differ from what the writer sent ({len} bytes)", b.len()));
        }
    };
    let mut buf = vec![0u8; 4096];
    loop {
        match rmode {
            RMode::Read => match recv.read(&mut buf).await {
                Ok(Some(n)) => {
                    check(off, &buf[..n]);
                    off += n;
                }
                Ok(None) => return "fin".into(),
                Err(e) => return format!("{e:?}"),
            },
            RMode::ReadChunk => match recv.read_chunk(4096, true).await {
                Ok(Some(c)) => {
                    check(off, &c.bytes);
                    off += c.bytes.len();
                }
                Ok(None) => return "fin".into(),
                Err(e) => return format!("{e:?}"),
            },
            RMode::ReadChunks => {
                let mut bufs = [Bytes::new(), Bytes::new(), Bytes::new()];
                match recv.read_chunks(&mut bufs).await {
                    Ok(Some(n)) => {
                        for b in bufs.iter().take(n) {
                            check(off, b);
                            off += b.len();
                        }
                    }
                    Ok(None) => return "fin".into(),
                    Err(e) => return format!("{e:?}"),
                }
            }
            RMode::ReadExact => {
                let rem = len.saturating_sub(off);
                if rem == 0 {
                    match recv.read(&mut buf).await {
                        Ok(Some(n)) => {
                            check(off, &buf[..n]);
                            off += n;
                        }
                        Ok(None) => return "fin".into(),
                        Err(e) => return format!("{e:?}"),
                    }
                } else {
                    match recv.read_exact(&mut buf[..rem]).await {
                        Ok(()) => {
                            check(off, &buf[..rem]);
                            off += rem;
                        }
                        Err(quinn::ReadExactError::ReadError(e)) => return format!("{e:?}"),
                        Err(e) => return format!("{e:?}"),
                    }
                }
            }
            RMode::ReadToEnd => match recv.read_to_end(100_000).await {
                Ok(v) => {
                    check(off, &v);
                    return "fin".into();
                }
                Err(quinn::ReadToEndError::Read(e)) => return format!("{e:?}"),
                Err(e) => return format!("{e:?}"),
            },
        }
    }
}

struct Diag {
    key: &'static str,
    text: String,
}

/// the parked open did not complete: what does the side that grants the credit look like?
fn diagnose_credit(ctx: &Ctx, a: usize, ca: &Connection, dir: usize, recorded_call_site: bool) -> Diag {
    let p = drvwake::probe_conn(&ctx.w, ca);
    let (queued, unannounced, max_remote, sent) = drvwake::credit_state(ca, dir);
    let state = format!("{}: queued [{}], max_remote {max_remote}, announced {sent}, driver {} asleep={} tx_ready={} blocked={:?}", SIDE[a], drvwake::queued(ca), p.driver, p.asleep, p.tx_ready, p.blocked);
    if queued && p.asleep {
        Diag { key: KEY_E2E_QUEUED, text: format!("the MAX_STREAMS frame that would complete it is queued but the connection driver was never woken ({state})") }
    } else if unannounced && !queued {
        if recorded_call_site {
            Diag { key: KEY_KNOWN_STOP, text: format!("the stream was freed by stop()/drop after its final size was known (stream_recv_freed without queue_max_stream_id): no MAX_STREAMS is queued until another packet arrives ({state})") }
        } else {
            Diag { key: KEY_CREDIT_NOT_ANNOUNCED, text: format!("the stream was freed but no MAX_STREAMS frame was queued, and the call was NOT a stop()/drop on a stream with known final size ({state})") }
        }
    } else {
        Diag { key: "c18-lost-wakeup", text: format!("({state})") }
    }
}

/// the parked read did not complete: what does the sending side look like?
fn diagnose_tx(ctx: &Ctx, o: usize, co: &Connection) -> Diag {
    let p = drvwake::probe_conn(&ctx.w, co);
    let state = format!("{}: queued [{}], driver {} asleep={} tx_ready={} blocked={:?}", SIDE[o], drvwake::queued(co), p.driver, p.asleep, p.tx_ready, p.blocked);
    if p.tx_ready && p.asleep {
        Diag { key: KEY_E2E_QUEUED, text: format!("the frames that would complete it are queued but the connection driver was never woken ({state})") }
    } else {
        Diag { key: "c18-lost-wakeup", text: format!("({state})") }
    }
}

pub(super) async fn script(mut ctx: Ctx) {
    let q = ctx.plan.qev.clone().unwrap();
    let (o, a) = (q.opener, 1 - q.opener);
    let dir = if q.bi { 0 } else { 1 };
    ctx.set_op("qev: waiting for both connections");
    let mut n = 0;
    let (co, ca) = loop {
        let (x, y) = (drvwake::conn_of(&ctx.h, o), drvwake::conn_of(&ctx.h, a));
        if let (Some(x), Some(y)) = (x, y) {
            break (x, y);
        }
        n += 1;
        if n > 4000 || ctx.closing() {
            return;
        }
        zsleep(&mut ctx, 5 * MS).await;
    };
    let rwnd = [ctx.plan.tc[0].rwnd, ctx.plan.tc[1].rwnd];
    let mut pokes = 0u32;
    let mut limit_now = q.limit;
    // handles that stay open to the end: fillers up to limit-1, and the streams of SetMaxStreams rounds
    let mut held: Vec<(Pair, Option<SendStream>, RecvStream)> = Vec::new();
    let mut next: Option<Pair> = None;
    let mut round = 0usize;
    let mut fillers = q.limit.saturating_sub(1);

    macro_rules! giveup {
        ($key:expr, $($arg:tt)*) => {{
            if !ctx.closing() {
                ctx.fail($key, format!($($arg)*));
            }
            return;
        }};
    }
    // make the connection exchange an unrelated packet pair (MAX_DATA raise + its ACK)
    macro_rules! poke {
        () => {{
            pokes += 1;
            for (s, c) in [(o, &co), (a, &ca)] {
                c.set_receive_window(VarInt::from_u32(rwnd[s].saturating_mul(1 + pokes).min(1 << 30)));
            }
            ctx.count("qev:poke");
        }};
    }

    let plan_rounds = q.rounds.clone();
    let mut it = plan_rounds.into_iter();
    loop {
        // ---- which round (fillers first)
        let filler = fillers > 0;
        let r = if filler {
            fillers -= 1;
            Round { ev: Ev::SetMaxStreams, len: 1, pre: 0 }
        } else {
            match it.next() {
                Some(r) => r,
                None => break,
            }
        };
        round += 1;
        let tag = format!("round {round} {:?}", r.ev);
        if ctx.closing() {
            return;
        }

        // ---- datagram round: no stream involved
        if r.ev == Ev::SendDatagram && !filler {
            let cell: Shared = Arc::default();
            let (c2, cl) = (ca.clone(), cell.clone());
            ctx.spawn(format!("app:{}:qev_dgram{round}", SIDE[a]), Class::Job, move |c| async move {
                c.set_op(&format!("read_datagram (parked, round {round})"));
                let r = c2.read_datagram().await;
                let mut g = cl.lock().unwrap();
                g.done_at = Some(c.w.now());
                g.result = Some(match r {
                    Ok(b) => format!("Ok({})", b.len()),
                    Err(e) => err_kind(&e),
                });
            });
            ctx.set_op(&format!("qev {tag}: waiting for quiescence"));
            if !quiet(&mut ctx).await {
                giveup!("c18-livelock", "{tag}: the connection never became quiescent");
            }
            if cell.lock().unwrap().done_at.is_some() {
                ctx.count("qev:waiter-not-parked");
                continue;
            }
            if co.max_datagram_size().unwrap_or(0) < 64 {
                ctx.count("dgram:unsupported");
                continue;
            }
            ctx.set_op(&format!("qev {tag}: event"));
            let r0 = co.send_datagram(Bytes::from(vec![0xD6u8; 33]));
            ctx.count("qev:event:SendDatagram");
            if r0.is_err() {
                giveup!("c18-unexpected-error", "{tag}: send_datagram failed: {r0:?}");
            }
            if !wait_done(&mut ctx, &cell, BOUND).await {
                let d = diagnose_tx(&ctx, o, &co);
                ctx.fail(d.key, format!("{tag}: quiescent connection, {} called send_datagram, the peer's parked read_datagram() is still pending {} ms later {}", SIDE[o], BOUND / MS, d.text));
                poke!();
                if !wait_done(&mut ctx, &cell, SETUP).await {
                    return;
                }
            }
            let res = cell.lock().unwrap().result.clone().unwrap_or_default();
            if res != "Ok(33)" && !ctx.closing() {
                ctx.fail("c18-data-corrupt", format!("{tag}: read_datagram yielded {res}, a 33-byte datagram was sent"));
            }
            continue;
        }

        // ---- the stream of this round: opened by the previous round's parked waiter, or now
        ctx.set_op(&format!("qev {tag}: open"));
        let (mut send, orecv) = match next.take() {
            Some(p) => p,
            None => {
                let fut = async {
                    if q.bi {
                        co.open_bi().await.map(|(s, r)| (s, Some(r)))
                    } else {
                        co.open_uni().await.map(|s| (s, None))
                    }
                };
                match within(&ctx, SETUP, fut).await {
                    Some(Ok(p)) => p,
                    Some(Err(e)) => {
                        ctx.conn_err("qev open", err_kind(&e));
                        return;
                    }
                    None => {
                        let d = diagnose_credit(&ctx, a, &ca, dir, false);
                        giveup!(d.key, "{tag}: open still pending {} s after the previous stream was closed and read to its end {}", SETUP / SEC, d.text);
                    }
                }
            }
        };
        let data = qdata(round, r.len);
        ctx.set_op(&format!("qev {tag}: write"));
        match within(&ctx, SETUP, send.write_all(&data)).await {
            Some(Ok(())) => {}
            Some(Err(e)) => {
                ctx.conn_err("qev write", format!("{e:?}"));
                return;
            }
            None => giveup!("c18-lost-wakeup", "{tag}: write_all of {} bytes still pending after {} s", r.len, SETUP / SEC),
        }
        ctx.set_op(&format!("qev {tag}: accept"));
        let acc = async {
            if q.bi {
                ca.accept_bi().await.map(|(s, r)| (Some(s), r))
            } else {
                ca.accept_uni().await.map(|r| (None, r))
            }
        };
        let (aback, mut recv) = match within(&ctx, SETUP, acc).await {
            Some(Ok(p)) => p,
            Some(Err(e)) => {
                ctx.conn_err("qev accept", err_kind(&e));
                return;
            }
            None => giveup!("c18-lost-wakeup", "{tag}: accept still pending {} s after the peer opened a stream and wrote {} bytes", SETUP / SEC, r.len),
        };
        if r.ev == Ev::SetMaxStreams {
            // this stream stays open for good; the waiter of this round gets a NEW credit
            let cell: Shared = Arc::default();
            if !filler {
                spawn_open_waiter(&mut ctx, o, co.clone(), q.bi, cell.clone(), round);
                ctx.set_op(&format!("qev {tag}: waiting for quiescence"));
                if !quiet(&mut ctx).await {
                    giveup!("c18-livelock", "{tag}: the connection never became quiescent");
                }
            }
            held.push(((send, orecv), aback, recv));
            if filler {
                continue;
            }
            if cell.lock().unwrap().done_at.is_some() {
                ctx.count("qev:waiter-not-parked");
                next = cell.lock().unwrap().stream.take();
                continue;
            }
            ctx.set_op(&format!("qev {tag}: event"));
            limit_now += 1;
            if q.bi {
                ca.set_max_concurrent_bi_streams(VarInt::from_u32(limit_now));
            } else {
                ca.set_max_concurrent_uni_streams(VarInt::from_u32(limit_now));
            }
            ctx.count("qev:event:SetMaxStreams");
            if !wait_done(&mut ctx, &cell, BOUND).await {
                let d = diagnose_credit(&ctx, a, &ca, dir, false);
                ctx.fail(d.key, format!("{tag}: quiescent connection, {} raised the stream limit to {limit_now}, the peer's parked open is still pending {} ms later {}", SIDE[a], BOUND / MS, d.text));
                poke!();
                if !wait_done(&mut ctx, &cell, SETUP).await {
                    return;
                }
            }
            next = cell.lock().unwrap().stream.take();
            continue;
        }
        // a bidirectional stream is freed only with BOTH halves closed: close the back direction now
        if let Some(mut b) = aback {
            let _ = b.finish();
            drop(b);
        }
        if let Some(mut orecv) = orecv {
            ctx.set_op(&format!("qev {tag}: reading the (empty) back direction"));
            match within(&ctx, SETUP, orecv.read_to_end(10)).await {
                Some(Ok(v)) if v.is_empty() => {}
                Some(other) => {
                    if !ctx.closing() {
                        ctx.fail("c18-unexpected-error", format!("{tag}: the back direction was finished empty, read_to_end gave {other:?}"));
                    }
                    return;
                }
                None => giveup!("c18-lost-wakeup", "{tag}: read_to_end of the finished back direction still pending after {} s", SETUP / SEC),
            }
        }
        // the reader takes `pre` bytes first
        let sender_ev = matches!(r.ev, Ev::Finish | Ev::Reset | Ev::Write | Ev::DropSend);
        let pre = if sender_ev { r.len } else { r.pre.min(r.len) };
        if pre > 0 {
            ctx.set_op(&format!("qev {tag}: reading the first {pre} bytes"));
            let mut buf = vec![0u8; pre];
            match within(&ctx, SETUP, recv.read_exact(&mut buf)).await {
                Some(Ok(())) => {
                    if buf != data[..pre] && !ctx.closing() {
                        ctx.fail("c18-data-corrupt", format!("{tag}: the first {pre} bytes differ from what was written"));
                    }
                }
                Some(Err(e)) => {
                    ctx.conn_err("qev pre-read", format!("{e:?}"));
                    return;
                }
                None => giveup!("c18-lost-wakeup", "{tag}: read_exact({pre}) still pending {} s after {} bytes were written", SETUP / SEC, r.len),
            }
        }

        if sender_ev {
            // ---- peer parked in a read; one call on the sending side
            let cell: Shared = Arc::default();
            let cl = cell.clone();
            let len = r.len;
            let ev = r.ev;
            ctx.spawn(format!("app:{}:qev_read{round}", SIDE[a]), Class::Job, move |c| async move {
                c.set_op(&format!("read (parked, round {round})"));
                let mut buf = [0u8; 64];
                let first = recv.read(&mut buf).await;
                {
                    let mut g = cl.lock().unwrap();
                    g.done_at = Some(c.w.now());
                    g.result = Some(match &first {
                        Ok(Some(n)) => format!("data:{}", buf[..*n].iter().map(|b| format!("{b:02x}")).collect::<String>()),
                        Ok(None) => "fin".into(),
                        Err(e) => format!("{e:?}"),
                    });
                }
                // read on to the end of the stream (frees it: credit for the next round)
                if let Ok(Some(_)) = first {
                    c.set_op(&format!("read to the end (round {round})"));
                    let mut bad = None;
                    let _ = read_out(&mut recv, RMode::Read, round, len + 1, len + 1, &mut bad).await;
                }
                let _ = ev;
            });
            ctx.set_op(&format!("qev {tag}: waiting for quiescence"));
            if !quiet(&mut ctx).await {
                giveup!("c18-livelock", "{tag}: the connection never became quiescent");
            }
            if cell.lock().unwrap().done_at.is_some() {
                ctx.count("qev:waiter-not-parked");
                continue;
            }
            ctx.set_op(&format!("qev {tag}: event"));
            let mut keep: Option<SendStream> = None;
            let want = match r.ev {
                Ev::Finish => {
                    let _ = send.finish();
                    keep = Some(send);
                    "fin".to_string()
                }
                Ev::Reset => {
                    let _ = send.reset(VarInt::from_u32(5));
                    keep = Some(send);
                    "Reset(5)".to_string()
                }
                Ev::Write => {
                    // (one byte: accepted at once, every window is wide open)
                    match within(&ctx, SETUP, send.write(&[0xA7])).await {
                        Some(Ok(1)) => {}
                        other => giveup!("c18-unexpected-error", "{tag}: write of one byte gave {other:?}"),
                    }
                    keep = Some(send);
                    "data:a7".to_string()
                }
                _ => {
                    drop(send);
                    "fin".to_string()
                }
            };
            ctx.count(&format!("qev:event:{:?}", r.ev));
            if !wait_done(&mut ctx, &cell, BOUND).await {
                let d = diagnose_tx(&ctx, o, &co);
                ctx.fail(d.key, format!("{tag}: quiescent connection, {} made the call, the peer's parked read() is still pending {} ms later {}", SIDE[o], BOUND / MS, d.text));
                poke!();
                if !wait_done(&mut ctx, &cell, SETUP).await {
                    return;
                }
            }
            let res = cell.lock().unwrap().result.clone().unwrap_or_default();
            if res != want && !ctx.closing() {
                ctx.fail("c18-unexpected-error", format!("{tag}: the parked read() yielded {res}, expected {want}"));
            }
            if let Some(mut s) = keep {
                let _ = s.finish();
                drop(s);
            }
            continue;
        }

        // ---- credit rounds: the opener parks at the limit; one call on the receiving side frees the stream
        let mut watcher: Option<Shared> = None;
        match r.ev {
            Ev::ReadSeesReset(_) | Ev::ReceivedReset | Ev::StopKnownFinal(true) | Ev::DropKnownFinal(true) => {
                let _ = send.reset(VarInt::from_u32(9));
                drop(send);
            }
            Ev::ReadSeesFin(_) | Ev::StopKnownFinal(false) | Ev::DropKnownFinal(false) => {
                let _ = send.finish();
                drop(send);
            }
            _ => {
                // the writer keeps the stream open; a task awaits stopped() and then drops the handle
                let cell: Shared = Arc::default();
                let cl = cell.clone();
                ctx.spawn(format!("app:{}:qev_stopped{round}", SIDE[o]), Class::Job, move |c| async move {
                    c.set_op(&format!("stopped (writer keeps the stream open, round {round})"));
                    let r = send.stopped().await;
                    let mut g = cl.lock().unwrap();
                    g.done_at = Some(c.w.now());
                    g.result = Some(format!("{r:?}"));
                    drop(g);
                    drop(send);
                });
                watcher = Some(cell);
            }
        }
        let cell: Shared = Arc::default();
        spawn_open_waiter(&mut ctx, o, co.clone(), q.bi, cell.clone(), round);
        ctx.set_op(&format!("qev {tag}: waiting for quiescence"));
        if !quiet(&mut ctx).await {
            giveup!("c18-livelock", "{tag}: the connection never became quiescent");
        }
        if cell.lock().unwrap().done_at.is_some() {
            ctx.count("qev:waiter-not-parked");
            next = cell.lock().unwrap().stream.take();
            continue;
        }
        ctx.set_op(&format!("qev {tag}: event"));
        let known_before = drvwake::final_size_known(&ca, recv.id());
        let mut recorded_call_site = false;
        let mut bad: Option<String> = None;
        let outcome: Option<(String, String)> = match r.ev {
            Ev::ReadSeesReset(m) => within(&ctx, SETUP, read_out(&mut recv, m, round, pre, r.len, &mut bad)).await.map(|x| (x, "Reset(9)".to_string())),
            Ev::ReadSeesFin(m) => within(&ctx, SETUP, read_out(&mut recv, m, round, pre, r.len, &mut bad)).await.map(|x| (x, "fin".to_string())),
            Ev::ReceivedReset => within(&ctx, SETUP, recv.received_reset()).await.map(|x| (format!("{x:?}"), "Ok(Some(9))".to_string())),
            Ev::StopKnownFinal(_) | Ev::StopOpen => {
                recorded_call_site = known_before;
                Some((format!("{:?}", recv.stop(VarInt::from_u32(7))), "Ok(())".to_string()))
            }
            _ => {
                recorded_call_site = known_before;
                Some(("dropped".to_string(), "dropped".to_string()))
            }
        };
        // (after received_reset() the handle is KEPT until the parked open completed: dropping a RecvStream wakes
        // the driver unconditionally and would stand in for a wake-up that received_reset() itself owes)
        let kept = if r.ev == Ev::ReceivedReset { Some(recv) } else { drop(recv); None };
        ctx.count(&format!("qev:event:{}", format!("{:?}", r.ev).split('(').next().unwrap_or("?")));
        match outcome {
            None => giveup!("c18-lost-wakeup", "{tag}: the observing call itself did not complete within {} s although its data was there", SETUP / SEC),
            Some((got, want)) => {
                if !got.contains(&want) && !ctx.closing() {
                    ctx.fail(if matches!(r.ev, Ev::ReadSeesReset(_) | Ev::ReceivedReset) { "c18-reset-not-observed" } else { "c18-unexpected-error" }, format!("{tag}: the call yielded {got}, expected {want}"));
                }
            }
        }
        if let Some(b) = bad {
            if !ctx.closing() {
                ctx.fail("c18-data-corrupt", format!("{tag}: {b}"));
            }
        }
        if matches!(r.ev, Ev::StopKnownFinal(_) | Ev::DropKnownFinal(_)) && !known_before {
            ctx.count("qev:final-size-not-known-after-all");
        }
        if !wait_done(&mut ctx, &cell, BOUND).await {
            let d = diagnose_credit(&ctx, a, &ca, dir, recorded_call_site);
            ctx.fail(d.key, format!("{tag}: quiescent connection at the stream limit {limit_now}, {} made the call that frees the stream, the peer's parked open is still pending {} ms later {}", SIDE[a], BOUND / MS, d.text));
            poke!();
            if !wait_done(&mut ctx, &cell, SETUP).await {
                return;
            }
        }
        drop(kept);
        if let Some(w) = watcher {
            let want = if r.ev == Ev::StopOpen { "Ok(Some(7))" } else { "Ok(Some(0))" };
            let res = w.lock().unwrap().result.clone().unwrap_or_else(|| "(still pending)".into());
            if res != want && !ctx.closing() {
                ctx.fail("c18-stopped-wrong-value", format!("{tag}: the writer's stopped() yielded {res}, expected {want}"));
            }
        }
        let g = cell.lock().unwrap().result.clone().unwrap_or_default();
        if g != "Ok" {
            ctx.conn_err("qev parked open", g);
            return;
        }
        next = cell.lock().unwrap().stream.take();
    }
    ctx.count("qev:script-completed");
    drop(next);
    drop(held);
    ctx.set_op("idle after drop");
    ctx.idle_gap().await;
}
