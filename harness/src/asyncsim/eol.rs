//! C18: ENDPOINT END-OF-LIFE ORDERS ("every pending operation … completes as soon as its condition holds or the
//! connection or endpoint closes"; "closing or dropping handles in any order performs a clean teardown … after
//! which the driver tasks terminate and the endpoint's bookkeeping is released").
//!
//! The client makes 2-4 connection attempts, one after the other. The server application decides per attempt
//! where it stands when `Endpoint::close` runs:
//!   * accepted BEFORE the close (handshake finished, or the `Connecting` not yet awaited = close DURING the
//!     handshake),
//!   * HELD: taken out of `Endpoint::accept` before the close and only acted on afterwards
//!     (accept / accept_with / `.await` (IntoFuture) / refuse / retry / ignore / drop),
//!   * QUEUED: still in the endpoint's queue at the close; `Endpoint::accept` is called afterwards (it hands the
//!     attempt out or yields `None` — both fine, it must not stay pending) and the attempt is then acted on;
//! optionally a `wait_idle` is already parked when the close runs, optionally every `Endpoint` handle of the
//! application is dropped right after the close (held `Incoming`s and connections stay).
//! A second variant closes the CLIENT endpoint with one connection established, one `Connecting` in flight, and
//! a `connect` issued afterwards.
//!
//! Oracle (from the property text): `Endpoint::close` "close[s] all of this endpoint's connections immediately
//! and cease[s] accepting new connections". Hence, after the close, EVERY connection of that endpoint — also one
//! that comes into being afterwards out of an attempt that was queued or held — reports closed within `BOUND`
//! of virtual time: its `Connecting` / `IncomingFuture` resolves, and if it resolves to a `Connection`, that
//! connection's `closed()` resolves (`c18-connection-alive-after-endpoint-close`); `wait_idle` (parked before,
//! and a fresh one afterwards) completes within `IDLE_BOUND` (closed connections drain for 3 PTO)
//! (`c18-wait-idle-hangs`); `Endpoint::accept` after the close resolves at once (`c18-close-does-not-wake`).
//! Refusing to create the connection at all (`accept` -> `Err`, `connect` -> `Err`) is allowed. Afterwards the
//! generic teardown phases apply: every task completes, drivers terminate, timers are released.
use super::*;
use x4::{within, Sig};

pub(super) const KEY_ALIVE: &str = "c18-connection-alive-after-endpoint-close";
pub(super) const KEY_IDLE: &str = "c18-wait-idle-hangs";

const BOUND: u64 = 2 * SEC;
/// (below the executor's "deep quiescence" horizon of 5 s, so that the bound is reached inside the workload phase)
const IDLE_BOUND: u64 = 4 * SEC;
const SETUP: u64 = 20 * SEC;

#[derive(Clone, Copy, Debug, PartialEq, Eq)]
pub(super) enum After {
    Accept,
    AcceptWith,
    IntoFuture,
    Refuse,
    Retry,
    Ignore,
    Drop,
}

#[derive(Clone, Copy, Debug, PartialEq, Eq)]
pub(super) enum Disp {
    /// accepted before the close; `established`: the handshake was awaited before the close
    Before { established: bool },
    Held(After),
    Queued(After),
}

#[derive(Clone, Debug)]
pub(super) struct EolPlan {
    /// the endpoint that is closed
    pub which: usize,
    /// (server variant) per attempt, in arrival order: Before / Held first, Queued last
    pub disp: Vec<Disp>,
    pub wait_idle_before: bool,
    pub drop_handles_after_close: bool,
    /// a gap (ns) between the close and what follows
    pub gap: u64,
    pub sig: Sig,
}

pub(super) fn gen(rng: &mut Rng) -> EolPlan {
    let afters = [After::Accept, After::Accept, After::AcceptWith, After::IntoFuture, After::IntoFuture, After::Refuse, After::Retry, After::Ignore, After::Drop];
    let n = 2 + rng.below(3) as usize;
    let n_queued = rng.below(n as u64) as usize;
    let mut disp: Vec<Disp> = Vec::new();
    for i in 0..n {
        if i < n - n_queued {
            disp.push(match rng.below(5) {
                0 => Disp::Before { established: true },
                1 => Disp::Before { established: false },
                _ => Disp::Held(*rng.pick(&afters)),
            });
        } else {
            disp.push(Disp::Queued(*rng.pick(&afters)));
        }
    }
    EolPlan {
        which: if rng.chance(1, 5) { CLIENT } else { SERVER },
        disp,
        wait_idle_before: rng.chance(1, 2),
        drop_handles_after_close: rng.chance(1, 3),
        gap: *rng.pick(&[0u64, 0, MS, 50 * MS]),
        sig: Sig::default(),
    }
}

fn plan_of(ctx: &Ctx) -> EolPlan {
    match ctx.plan.x4.as_ref() {
        Some(x4::X4Plan::Eol(p)) => p.clone(),
        _ => unreachable!("eol task without an eol plan"),
    }
}

/// a `Connecting` (or `IncomingFuture`) of an endpoint that was closed at `t_close`: must resolve, and a
/// connection it resolves to must report closed
async fn judge<F>(ctx: &mut Ctx, what: &str, t_close: u64, fut: F) -> Option<Connection>
where
    F: Future<Output = Result<Connection, ConnectionError>>,
{
    ctx.set_op(&format!("eol: {what}: awaiting the handshake future"));
    match within(ctx, BOUND, fut).await {
        None => {
            if !ctx.closing() {
                ctx.fail(KEY_ALIVE, format!("{what}: Endpoint::close ran at {} ms; {} ms later the handshake future of this connection is still pending", t_close / MS, BOUND / MS));
            }
            None
        }
        Some(Err(e)) => {
            ctx.count(&format!("eol:handshake-future:{}", err_kind(&e)));
            None
        }
        Some(Ok(conn)) => judge_conn(ctx, what, t_close, conn).await,
    }
}

/// … a connection found alive is handed back: the application goes on serving it (holds the handle) while
/// `wait_idle` is judged
async fn judge_conn(ctx: &mut Ctx, what: &str, t_close: u64, conn: Connection) -> Option<Connection> {
    ctx.set_op(&format!("eol: {what}: awaiting closed()"));
    match within(ctx, BOUND, conn.closed()).await {
        Some(e) => {
            ctx.count(&format!("eol:closed:{}", err_kind(&e)));
            None
        }
        None => {
            if !ctx.closing() {
                ctx.fail(
                    KEY_ALIVE,
                    format!(
                        "{what}: Endpoint::close ran at {} ms, now it is {} ms: the connection is established and alive (close_reason() = {:?}, closed() pending): its operations never fail and it keeps the endpoint from becoming idle",
                        t_close / MS,
                        ctx.w.now() / MS,
                        conn.close_reason().map(|e| err_kind(&e))
                    ),
                );
            }
            Some(conn)
        }
    }
}

/// `wait_idle` of an endpoint whose close ran at `t_close` must complete
async fn judge_idle(ctx: &mut Ctx, what: &str, t_close: u64, ep: &Endpoint) {
    ctx.set_op(&format!("eol: {what}"));
    if within(ctx, IDLE_BOUND, ep.wait_idle()).await.is_none() && !ctx.closing() {
        ctx.fail(KEY_IDLE, format!("{what}: Endpoint::close ran at {} ms, wait_idle() is still pending at {} ms; open_connections() = {}", t_close / MS, ctx.w.now() / MS, ep.open_connections()));
    } else {
        ctx.count("eol:wait_idle-completed");
    }
}

/// the `wait_idle` that was parked when the close ran: once a fresh one has completed it is due as well
async fn judge_parked(ctx: &mut Ctx, t_close: u64, parked: &Arc<Mutex<Option<u64>>>) {
    ctx.set_op("eol: the wait_idle parked before the close");
    let until = ctx.w.now() + BOUND;
    while parked.lock().unwrap().is_none() && ctx.w.now() < until && !ctx.closing() {
        zsleep(ctx, MS).await;
    }
    if parked.lock().unwrap().is_none() && !ctx.closing() {
        ctx.fail(KEY_IDLE, format!("the wait_idle() parked before Endpoint::close (at {} ms) is still pending at {} ms, {} ms after a fresh one completed", t_close / MS, ctx.w.now() / MS, BOUND / MS));
    }
}

/// one connection attempt of the client: whatever becomes of it is fine, it only has to end
async fn attempt(ctx: Ctx, ep: Endpoint, cfg: ClientConfig, server: SocketAddr, k: usize) {
    ctx.set_op(&format!("eol: connection attempt {k}"));
    let connecting = match ep.connect_with(cfg, server, "localhost") {
        Ok(c) => c,
        Err(e) => {
            ctx.count(&format!("eol:attempt-error:{e:?}"));
            return;
        }
    };
    drop(ep);
    match connecting.await {
        Ok(conn) => {
            ctx.count("eol:attempt-established");
            ctx.set_op(&format!("eol: connection attempt {k}: closed"));
            let e = conn.closed().await;
            ctx.count(&format!("eol:attempt-closed:{}", err_kind(&e)));
        }
        Err(e) => ctx.count(&format!("eol:attempt-failed:{}", err_kind(&e))),
    }
    // (an attempt the server ignores or never answers ends with the handshake timeout)
}

pub(super) async fn client_main(mut ctx: Ctx, ep: Endpoint, cfg: ClientConfig, server: SocketAddr) {
    let p = plan_of(&ctx);
    if p.which == CLIENT {
        return client_closes(ctx, ep, cfg, server).await;
    }
    for k in 0..p.disp.len() {
        let (e, c) = (ep.clone(), cfg.clone());
        ctx.spawn(format!("app:client:eol_attempt{k}"), Class::UntilClose, move |x| attempt(x, e, c, server, k));
        // one at a time: the server sees them in this order
        ctx.set_op("eol: gap between connection attempts");
        zsleep(&mut ctx, 15 * MS).await;
        p.sig.raise(&ctx, &format!("sent:{k}"));
    }
    drop(ep);
}

pub(super) async fn server_main(mut ctx: Ctx, ep: Endpoint) {
    let p = plan_of(&ctx);
    if p.which == CLIENT {
        return server_plain(ctx, ep).await;
    }
    let mut held: Vec<(usize, After, quinn::Incoming)> = Vec::new();
    let mut connecting: Vec<(usize, quinn::Connecting)> = Vec::new();
    let mut conns: Vec<(usize, Connection)> = Vec::new();
    // ---- before the close
    for (k, d) in p.disp.iter().enumerate() {
        if matches!(d, Disp::Queued(_)) {
            break;
        }
        ctx.set_op(&format!("eol: endpoint.accept (attempt {k})"));
        let inc = match within(&ctx, SETUP, ep.accept()).await {
            Some(Some(i)) => i,
            Some(None) => {
                if !ctx.closing() {
                    ctx.fail("c18-unexpected-error", "eol: Endpoint::accept yielded None although nobody closed the endpoint".into());
                }
                return;
            }
            None => {
                if !ctx.closing() {
                    ctx.fail("c18-lost-wakeup", format!("eol: Endpoint::accept still pending {} s after the client made connection attempt {k}", SETUP / SEC));
                }
                return;
            }
        };
        match *d {
            Disp::Before { established } => match inc.accept() {
                Ok(c) => {
                    if established {
                        ctx.set_op(&format!("eol: handshake of attempt {k} (before the close)"));
                        match within(&ctx, SETUP, c).await {
                            Some(Ok(conn)) => conns.push((k, conn)),
                            other => {
                                if !ctx.closing() {
                                    ctx.fail("c18-unexpected-error", format!("eol: the handshake of attempt {k} gave {:?} although nobody closed", other.map(|r| r.map(|_| ()).map_err(|e| err_kind(&e)))));
                                }
                                return;
                            }
                        }
                    } else {
                        connecting.push((k, c));
                    }
                }
                Err(e) => {
                    ctx.conn_err("eol accept", err_kind(&e));
                    return;
                }
            },
            Disp::Held(a) => held.push((k, a, inc)),
            Disp::Queued(_) => unreachable!(),
        }
    }
    // ---- every attempt has been made and has reached the endpoint (loss-free network, one-way delay <= 6 ms)
    let last = p.disp.len() - 1;
    ctx.set_op("eol: waiting for the client's last attempt");
    if !p.sig.wait(&mut ctx, &format!("sent:{last}"), SETUP).await {
        return;
    }
    zsleep(&mut ctx, 25 * MS).await;
    // ---- a wait_idle parked before the close
    let parked: Arc<Mutex<Option<u64>>> = Arc::default();
    if p.wait_idle_before {
        let (e, cell) = (ep.clone(), parked.clone());
        ctx.spawn("app:server:eol_wait_idle_parked".into(), Class::Job, move |c| async move {
            c.set_op("wait_idle (parked before Endpoint::close)");
            e.wait_idle().await;
            drop(e);
            *cell.lock().unwrap() = Some(c.w.now());
        });
        zsleep(&mut ctx, 5 * MS).await;
    }
    // ---- THE CLOSE
    ctx.set_op("eol: Endpoint::close");
    ep.close(VarInt::from_u32(43), b"eol");
    let t_close = ctx.w.now();
    ctx.count("eol:endpoint-close:server");
    if p.gap > 0 {
        zsleep(&mut ctx, p.gap).await;
    }
    // ---- the queued attempts: accept() must resolve at once, Some or None
    let mut queued: Vec<(usize, After, quinn::Incoming)> = Vec::new();
    for (k, d) in p.disp.iter().enumerate() {
        let Disp::Queued(a) = *d else { continue };
        ctx.set_op(&format!("eol: endpoint.accept after the close (attempt {k})"));
        match within(&ctx, BOUND, ep.accept()).await {
            Some(Some(inc)) => {
                ctx.count("eol:accept-after-close:handed-out");
                queued.push((k, a, inc));
            }
            Some(None) => {
                ctx.count("eol:accept-after-close:none");
                break;
            }
            None => {
                if !ctx.closing() {
                    ctx.fail("c18-close-does-not-wake", format!("eol: Endpoint::accept issued after Endpoint::close is still pending {} ms later", BOUND / MS));
                }
                break;
            }
        }
    }
    // ---- optionally every Endpoint handle of the application goes away now (Incomings and connections stay)
    let ep_for_idle = ep.clone();
    if p.drop_handles_after_close {
        ctx.h.lock().unwrap().endpoint[SERVER] = None;
        ctx.count("eol:endpoint-handles-dropped-after-close");
    }
    drop(ep);
    // ---- what existed at the close
    let mut alive: Vec<Connection> = Vec::new();
    for (k, conn) in conns {
        alive.extend(judge_conn(&mut ctx, &format!("server connection of attempt {k} (established BEFORE Endpoint::close)"), t_close, conn).await);
    }
    for (k, c) in connecting {
        alive.extend(judge(&mut ctx, &format!("server connection of attempt {k} (accepted before Endpoint::close, handshake in progress at the close)"), t_close, c).await);
    }
    // ---- what comes into being afterwards
    let scfg2 = server_config(0xe01, transport(&ctx.plan.tc[SERVER]), &SimClock(Arc::new(Mutex::new(std::time::UNIX_EPOCH + Duration::from_secs(1_700_000_000)))));
    let mut all: Vec<(usize, After, quinn::Incoming, &str)> = held.into_iter().map(|(k, a, i)| (k, a, i, "HELD by the application")).chain(queued.into_iter().map(|(k, a, i)| (k, a, i, "QUEUED in the endpoint"))).collect();
    if ctx.rng.chance(1, 2) {
        all.reverse();
    }
    for (k, a, inc, how) in all {
        let what = format!("server connection of attempt {k} ({how} when Endpoint::close ran, {a:?} afterwards)");
        ctx.count(&format!("eol:after:{a:?}"));
        match a {
            After::Accept | After::AcceptWith => {
                let r = if a == After::Accept { inc.accept() } else { inc.accept_with(Arc::new(scfg2.clone())) };
                match r {
                    Ok(c) => alive.extend(judge(&mut ctx, &what, t_close, c).await),
                    Err(e) => ctx.count(&format!("eol:accept-after-close-refused:{}", err_kind(&e))),
                }
            }
            After::IntoFuture => alive.extend(judge(&mut ctx, &what, t_close, std::future::IntoFuture::into_future(inc)).await),
            After::Refuse => inc.refuse(),
            After::Retry => {
                if inc.may_retry() {
                    let _ = inc.retry();
                } else {
                    inc.refuse();
                }
            }
            After::Ignore => inc.ignore(),
            After::Drop => drop(inc),
        }
    }
    // ---- wait_idle: the one parked before the close, and a fresh one
    // (a connection found alive is still held here, as an application that serves it would)
    judge_idle(&mut ctx, "wait_idle() started after Endpoint::close, once every connection of the endpoint had been given 2 s to report closed", t_close, &ep_for_idle).await;
    if p.wait_idle_before {
        judge_parked(&mut ctx, t_close, &parked).await;
    }
    drop(alive);
    drop(ep_for_idle);
    ctx.count("eol:script-completed");
    ctx.set_op("idle after drop");
    ctx.idle_gap().await;
}

/// (client-closes variant) the server accepts whatever comes and holds each connection until it ends
async fn server_plain(mut ctx: Ctx, ep: Endpoint) {
    ctx.set_class(Class::EndpointLevel);
    loop {
        let inc = cancelable!(ctx, "endpoint.accept", None, true, ep.accept());
        let Some(inc) = inc else { break };
        ctx.spawn("app:server:eol_conn".into(), Class::UntilClose, move |c| async move {
            c.set_op("eol: server connection: handshake");
            if let Ok(conn) = std::future::IntoFuture::into_future(inc).await {
                c.set_op("eol: server connection: closed");
                let _ = conn.closed().await;
            }
        });
    }
}

/// the CLIENT endpoint is closed: one connection established, one `Connecting` in flight, one `connect` afterwards
async fn client_closes(mut ctx: Ctx, ep: Endpoint, cfg: ClientConfig, server: SocketAddr) {
    let p = plan_of(&ctx);
    ctx.set_op("eol: connect (to be established before the close)");
    let c0 = match ep.connect_with(cfg.clone(), server, "localhost") {
        Ok(c) => within(&ctx, SETUP, c).await,
        Err(e) => {
            ctx.fail("c18-unexpected-error", format!("connect_with: {e:?}"));
            return;
        }
    };
    let Some(Ok(c0)) = c0 else {
        if !ctx.closing() {
            ctx.fail("c18-unexpected-error", "eol: the first connection was not established although nobody closed".into());
        }
        return;
    };
    let in_flight = match ep.connect_with(cfg.clone(), server, "localhost") {
        Ok(c) => c,
        Err(e) => {
            ctx.fail("c18-unexpected-error", format!("connect_with: {e:?}"));
            return;
        }
    };
    // (the second attempt may be anywhere in its handshake)
    let d = *ctx.rng.pick(&[0u64, 300_000, 2 * MS, 8 * MS]);
    if d > 0 {
        zsleep(&mut ctx, d).await;
    }
    let parked: Arc<Mutex<Option<u64>>> = Arc::default();
    if p.wait_idle_before {
        let (e, cell) = (ep.clone(), parked.clone());
        ctx.spawn("app:client:eol_wait_idle_parked".into(), Class::Job, move |c| async move {
            c.set_op("wait_idle (parked before Endpoint::close)");
            e.wait_idle().await;
            drop(e);
            *cell.lock().unwrap() = Some(c.w.now());
        });
        zsleep(&mut ctx, MS).await;
    }
    ctx.set_op("eol: Endpoint::close (client)");
    ep.close(VarInt::from_u32(44), b"eol");
    let t_close = ctx.w.now();
    ctx.count("eol:endpoint-close:client");
    if p.gap > 0 {
        zsleep(&mut ctx, p.gap).await;
    }
    let later = ep.connect_with(cfg.clone(), server, "localhost");
    let mut alive: Vec<Connection> = Vec::new();
    alive.extend(judge_conn(&mut ctx, "client connection established BEFORE Endpoint::close", t_close, c0).await);
    alive.extend(judge(&mut ctx, "client connection whose handshake was in flight when Endpoint::close ran", t_close, in_flight).await);
    match later {
        Err(e) => ctx.count(&format!("eol:connect-after-close:{e:?}")),
        Ok(c) => alive.extend(judge(&mut ctx, "client connection created by connect() AFTER Endpoint::close", t_close, c).await),
    }
    judge_idle(&mut ctx, "wait_idle() started after Endpoint::close (client)", t_close, &ep).await;
    if p.wait_idle_before {
        judge_parked(&mut ctx, t_close, &parked).await;
    }
    drop(alive);
    drop(ep);
    ctx.count("eol:script-completed");
    ctx.set_op("idle after drop");
    ctx.idle_gap().await;
}
