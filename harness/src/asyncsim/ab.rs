//! C18 / C01 through the async API: ARGUMENT BOUNDARIES of every data-moving call of the `quinn` crate.
//!
//! One connection, no other workload. A script runs a seeded list of rounds, one stream (or a few datagrams) per
//! round. The writer of a round executes a seeded program of `write` / `write_all` / `write_chunk` /
//! `write_chunks` / `write_all_chunks` / `poll_write` calls whose arguments include the EMPTY ones (`&[]`,
//! `&mut []`, `Bytes::new()`, arrays with empty chunks in front, between and behind), writes the rest, optionally
//! waits (so that "every byte delivered, FIN not yet sent" is a state the reader can observe) and finishes. The
//! reader executes a seeded program of `read` (buffer of length 0, 1, exact remainder, remainder + 1, larger),
//! `read_chunk(0 / 1 / remainder / usize::MAX)`, `read_chunks(&mut [])` / 1 / 3 buffers, `read_exact` (0, 1,
//! remainder, beyond the end), `poll_read` and tokio's `AsyncRead::poll_read` with an empty and with non-empty
//! buffers, `read_to_end(0 / remainder - 1 / remainder / remainder + 1 / large)`, and then reads on to the end.
//!
//! Oracles — from the property text and the documented contract of each call, never from the code:
//!  * C01 "End-of-stream is reported only after every byte written before finish() has been delivered … read with
//!    any max_length" / C18 "data moved through it satisfies the same integrity guarantees as the protocol core".
//!    What counts as an end-of-stream REPORT is what the API documentation says:
//!      `read` -> `None` ("or `None` if the stream was finished"); `read_chunk`, `read_chunks` -> `None`;
//!      `read_exact` -> `FinishedEarly(n)` ("the stream finished before all bytes were read");
//!      `read_to_end` -> `Ok(v)` ("read all remaining data");
//!      `poll_read` / `AsyncRead::poll_read` -> zero bytes with a buffer of NON-zero length ("if this returns zero
//!      bytes read (and `buf` has a non-zero length), that indicates that the remote side has finished the stream
//!      and the local side has already read all bytes") — zero bytes into an empty buffer report nothing, and
//!      neither do `Some(0)` / an empty chunk.
//!    A report is legal only if the writer has called finish() AND every one of the `len` bytes was handed out
//!    before: otherwise `c18-end-of-stream-before-all-data`.
//!  * every byte handed out is the byte written at that offset, in order, once: a gap = `c18-read-lost-data`, a
//!    repetition = `c18-data-duplicated`, anything else `c18-data-corrupt`; `read_to_end(limit)` failing with
//!    `TooLong` (which discards what was read) although the rest of the stream has at most `limit` bytes =
//!    `c18-read-lost-data`.
//!  * the write calls' documented results: `write` returns the length of the prefix written (never more than
//!    given), `write_chunks` empties / splits exactly the chunks it reports: `c18-write-result-wrong`; whatever
//!    the calls report as written is what the reader must see (content oracle above).
//!  * datagrams (cases without loss and without reordering): an empty datagram is a datagram — `send_datagram(Bytes::new())` that returned
//!    Ok is delivered once, empty: `c18-data-lost` / `c18-data-corrupt`.
//!  * every call completes (the generic lost-wakeup oracle at quiescence: all tasks here are `Class::Job`).
use super::*;
use x4::{within, Sig};

pub(super) const KEY_EOS: &str = "c18-end-of-stream-before-all-data";
pub(super) const KEY_LOST: &str = "c18-read-lost-data";
const KEY_WRITE: &str = "c18-write-result-wrong";

const SETUP: u64 = 20 * SEC;
const JOB0: u64 = 7000;

#[derive(Clone, Copy, Debug, PartialEq, Eq)]
pub(super) enum Sz {
    Zero,
    One,
    /// exactly what is left of the stream at the time of the call
    Rem,
    RemMinus1,
    RemPlus1,
    Big,
    N(usize),
}

#[derive(Clone, Debug, PartialEq, Eq)]
pub(super) enum RStep {
    Read(Sz),
    ReadChunk(Sz),
    ReadChunks(usize),
    ReadExact(Sz),
    PollRead(Sz),
    AsyncRead(Sz),
    /// (terminal)
    ReadToEnd(Sz),
}

#[derive(Clone, Debug)]
pub(super) enum WStep {
    Write(usize),
    WriteAll(usize),
    WriteChunk(usize),
    WriteChunks(Vec<usize>),
    WriteAllChunks(Vec<usize>),
    PollWrite(usize),
}

#[derive(Clone, Debug)]
pub(super) enum Round {
    Stream { from: usize, bi: bool, len: usize, wsteps: Vec<WStep>, hold: u64, rsteps: Vec<RStep>, tail: usize },
    Dgram { from: usize, sizes: Vec<usize>, wait: bool },
}

#[derive(Clone, Debug)]
pub(super) struct AbPlan {
    pub rounds: Vec<Round>,
    pub lossless: bool,
    pub sig: Sig,
}

fn gen_rsteps(rng: &mut Rng) -> Vec<RStep> {
    let zero_calls = [RStep::Read(Sz::Zero), RStep::ReadChunks(0), RStep::ReadExact(Sz::Zero), RStep::PollRead(Sz::Zero), RStep::AsyncRead(Sz::Zero), RStep::ReadChunk(Sz::Zero)];
    let mut v = Vec::new();
    match rng.below(3) {
        // "take a prefix, then ask for nothing": the tail of a fixed-size buffer, a length-delimited reader
        0 => {
            match rng.below(3) {
                0 => v.push(RStep::ReadExact(Sz::N(1 + rng.below(40) as usize))),
                1 => v.push(RStep::Read(Sz::N(1 + rng.below(600) as usize))),
                _ => {}
            }
            for _ in 0..1 + rng.below(3) {
                v.push(rng.pick(&zero_calls).clone());
            }
        }
        // "everything, then ask for nothing before the FIN is there"
        1 => {
            v.push(if rng.chance(1, 2) { RStep::ReadExact(Sz::Rem) } else { RStep::ReadExact(Sz::RemMinus1) });
            for _ in 0..1 + rng.below(3) {
                // (read_chunk(0) waits for the stream to become readable: not in front of the FIN)
                v.push(rng.pick(&zero_calls[..5]).clone());
            }
        }
        _ => {}
    }
    let sizes = [Sz::Zero, Sz::Zero, Sz::One, Sz::Rem, Sz::RemMinus1, Sz::RemPlus1, Sz::Big, Sz::N(7), Sz::N(500), Sz::N(1200)];
    for _ in 0..rng.below(6) {
        let sz = *rng.pick(&sizes);
        v.push(match rng.below(9) {
            0 | 1 | 2 => RStep::Read(sz),
            3 | 4 => RStep::ReadChunk(sz),
            5 => RStep::ReadChunks(*rng.pick(&[0usize, 0, 1, 3])),
            6 => RStep::ReadExact(*rng.pick(&[Sz::Zero, Sz::One, Sz::Rem, Sz::RemMinus1, Sz::N(33)])),
            7 => RStep::PollRead(sz),
            _ => RStep::AsyncRead(sz),
        });
    }
    match rng.below(6) {
        0 | 1 => v.push(RStep::ReadToEnd(*rng.pick(&[Sz::Zero, Sz::RemMinus1, Sz::Rem, Sz::RemPlus1, Sz::Big]))),
        2 => v.push(RStep::ReadExact(*rng.pick(&[Sz::RemPlus1, Sz::Big]))),
        _ => {}
    }
    v
}

fn gen_wsteps(rng: &mut Rng) -> Vec<WStep> {
    let sizes = [0usize, 0, 1, 100, 1200, 5000, 70_000];
    let chunks = |rng: &mut Rng| -> Vec<usize> { (0..rng.below(4)).map(|_| *rng.pick(&[0usize, 0, 1, 300, 2000])).collect() };
    (0..rng.below(6))
        .map(|_| match rng.below(7) {
            0 | 1 => WStep::Write(*rng.pick(&sizes)),
            2 => WStep::WriteAll(*rng.pick(&sizes)),
            3 => WStep::WriteChunk(*rng.pick(&sizes)),
            4 => WStep::WriteChunks(chunks(rng)),
            5 => WStep::WriteAllChunks(chunks(rng)),
            _ => WStep::PollWrite(*rng.pick(&sizes)),
        })
        .collect()
}

pub(super) fn gen(rng: &mut Rng, lossless: bool) -> AbPlan {
    let n = 5 + rng.below(5) as usize;
    let mut rounds = Vec::new();
    for _ in 0..n {
        if rng.chance(1, 7) {
            let mut sizes: Vec<usize> = (0..1 + rng.below(3)).map(|_| *rng.pick(&[0usize, 0, 1, 9, 600])).collect();
            if !sizes.contains(&0) {
                sizes.insert(rng.below(sizes.len() as u64 + 1) as usize, 0);
            }
            rounds.push(Round::Dgram { from: rng.below(2) as usize, sizes, wait: rng.chance(1, 2) });
            continue;
        }
        let len = match rng.below(8) {
            0 => 0,
            1 => 1,
            2 => 2 + rng.below(40) as usize,
            3 => 1200,
            4 | 5 => 1000 + rng.below(5000) as usize,
            _ => rng.below(20_000) as usize,
        };
        rounds.push(Round::Stream {
            from: rng.below(2) as usize,
            bi: rng.chance(1, 3),
            len,
            wsteps: gen_wsteps(rng),
            hold: *rng.pick(&[0u64, 0, 20 * MS, 60 * MS]),
            rsteps: gen_rsteps(rng),
            tail: *rng.pick(&[1usize, 64, 4096, 70_000]),
        });
    }
    AbPlan { rounds, lossless, sig: Sig::default() }
}

fn plan_of(ctx: &Ctx) -> AbPlan {
    match ctx.plan.x4.as_ref() {
        Some(x4::X4Plan::Ab(p)) => p.clone(),
        _ => unreachable!("ab task without an ab plan"),
    }
}

fn bytes_of(d: &[u8], sizes: &[usize], off: usize, room: usize) -> (Vec<Bytes>, usize) {
    let mut left = room;
    let mut at = off;
    let mut v = Vec::new();
    for s in sizes {
        let k = (*s).min(left);
        v.push(Bytes::copy_from_slice(&d[at..at + k]));
        at += k;
        left -= k;
    }
    (v, at - off)
}

async fn writer(mut ctx: Ctx, r: usize, len: usize, wsteps: Vec<WStep>, hold: u64, mut send: SendStream, sig: Sig) {
    let d = x4::data(JOB0 + r as u64, len);
    let mut off = 0usize;
    let done = format!("wdone:{r}");
    // an error is expected only after the reader ended the round early (its dropped RecvStream stops the stream)
    macro_rules! werr {
        ($what:expr, $e:expr) => {{
            let e = format!("{:?}", $e);
            if e.starts_with("Stopped") && sig.is(&format!("rend:{r}")) {
                ctx.count("ab:write-stopped-after-reader-ended");
            } else {
                ctx.conn_err(&format!("ab round {r} {}", $what), e);
            }
            sig.raise(&ctx, &done);
            return;
        }};
    }
    for st in wsteps.iter() {
        let room = len - off;
        ctx.set_op(&format!("ab round {r}: {st:?} at offset {off} of {len}"));
        ctx.count(&format!("ab:w:{}", format!("{st:?}").split('(').next().unwrap_or("?")));
        match st {
            WStep::Write(n) => {
                let k = (*n).min(room);
                if k == 0 {
                    ctx.count("ab:w:empty");
                }
                match send.write(&d[off..off + k]).await {
                    Ok(w) if w <= k => off += w,
                    Ok(w) => {
                        ctx.fail(KEY_WRITE, format!("round {r}: write() of {k} bytes reported {w} bytes written"));
                        off += k;
                    }
                    Err(e) => werr!("write", e),
                }
            }
            WStep::PollWrite(n) => {
                let k = (*n).min(room);
                if k == 0 {
                    ctx.count("ab:w:empty");
                }
                let r0 = std::future::poll_fn(|cx| Pin::new(&mut send).poll_write(cx, &d[off..off + k])).await;
                match r0 {
                    Ok(w) if w <= k => off += w,
                    Ok(w) => {
                        ctx.fail(KEY_WRITE, format!("round {r}: poll_write() of {k} bytes reported {w} bytes written"));
                        off += k;
                    }
                    Err(e) => werr!("poll_write", e),
                }
            }
            WStep::WriteAll(n) => {
                let k = (*n).min(room);
                if k == 0 {
                    ctx.count("ab:w:empty");
                }
                match send.write_all(&d[off..off + k]).await {
                    Ok(()) => off += k,
                    Err(e) => werr!("write_all", e),
                }
            }
            WStep::WriteChunk(n) => {
                let k = (*n).min(room);
                if k == 0 {
                    ctx.count("ab:w:empty");
                }
                match send.write_chunk(Bytes::copy_from_slice(&d[off..off + k])).await {
                    Ok(()) => off += k,
                    Err(e) => werr!("write_chunk", e),
                }
            }
            WStep::WriteChunks(sizes) => {
                let (mut bufs, total) = bytes_of(&d, sizes, off, room);
                if total == 0 {
                    ctx.count("ab:w:empty");
                }
                match send.write_chunks(&mut bufs).await {
                    Ok(w) => {
                        // documented: fully written chunks are emptied, a partially written one keeps its unwritten
                        // suffix, `chunks` counts the fully written ones
                        let rest: Vec<u8> = bufs.iter().flat_map(|b| b.iter().copied()).collect();
                        let ok = w.bytes <= total && w.chunks <= bufs.len() && bufs.iter().take(w.chunks).all(|b| b.is_empty()) && rest[..] == d[off + w.bytes.min(total)..off + total];
                        if !ok {
                            ctx.fail(KEY_WRITE, format!("round {r}: write_chunks of {sizes:?} ({total} bytes) reported {w:?} and left {} bytes in the chunks {:?}", rest.len(), bufs.iter().map(|b| b.len()).collect::<Vec<_>>()));
                        }
                        off += w.bytes.min(total);
                    }
                    Err(e) => werr!("write_chunks", e),
                }
            }
            WStep::WriteAllChunks(sizes) => {
                let (mut bufs, total) = bytes_of(&d, sizes, off, room);
                if total == 0 {
                    ctx.count("ab:w:empty");
                }
                match send.write_all_chunks(&mut bufs).await {
                    Ok(()) => {
                        if !bufs.iter().all(|b| b.is_empty()) {
                            ctx.fail(KEY_WRITE, format!("round {r}: write_all_chunks of {sizes:?} returned Ok and left chunks {:?}", bufs.iter().map(|b| b.len()).collect::<Vec<_>>()));
                        }
                        off += total;
                    }
                    Err(e) => werr!("write_all_chunks", e),
                }
            }
        }
    }
    ctx.set_op(&format!("ab round {r}: write_all of the rest at offset {off} of {len}"));
    if let Err(e) = send.write_all(&d[off..]).await {
        werr!("write_all (rest)", e);
    }
    if hold > 0 {
        ctx.set_op(&format!("ab round {r}: everything written, finish() not yet called"));
        zsleep(&mut ctx, hold).await;
    }
    sig.raise(&ctx, &format!("fin:{r}"));
    let _ = send.finish();
    ctx.set_op(&format!("ab round {r}: stopped (after finish)"));
    match send.stopped().await {
        Ok(None) => ctx.count("ab:stream-written"),
        Ok(Some(_)) if sig.is(&format!("rend:{r}")) => ctx.count("ab:write-stopped-after-reader-ended"),
        Ok(Some(c)) => {
            if !ctx.closing() {
                ctx.fail("c18-stopped-wrong-value", format!("ab round {r}: stopped() yielded Some({c}) although the reader neither stopped nor dropped the stream"));
            }
        }
        Err(e) => ctx.conn_err(&format!("ab round {r} stopped()"), format!("{e:?}")),
    }
    drop(send);
    sig.raise(&ctx, &done);
}

struct Rd {
    r: usize,
    len: usize,
    exp: Vec<u8>,
    got: usize,
    bad: bool,
}

impl Rd {
    /// `b` was handed out as the next bytes of the stream
    fn deliver(&mut self, ctx: &Ctx, call: &str, b: &[u8]) {
        if self.bad {
            return;
        }
        let at = self.got;
        self.got += b.len();
        if at + b.len() > self.len {
            self.bad = true;
            if !ctx.closing() {
                ctx.fail("c18-data-duplicated", format!("ab round {}: {call} handed out {} bytes at offset {at} of a stream of {} bytes", self.r, b.len(), self.len));
            }
            return;
        }
        let Some(p) = (0..b.len()).find(|&i| b[i] != self.exp[at + i]) else { return };
        self.bad = true;
        if ctx.closing() {
            return;
        }
        let k = (b.len() - p).min(16);
        let m = |start: usize| start + k <= self.len && b[p..p + k] == self.exp[start..start + k];
        let mut verdict = ("c18-data-corrupt", "bytes match no offset of the stream".to_string());
        if k >= 4 {
            if let Some(d) = (1..self.len).find(|d| m(at + p + d)) {
                verdict = (KEY_LOST, format!("{d} bytes of the stream were skipped"));
            } else if let Some(d) = (1..=at + p).find(|d| m(at + p - d)) {
                verdict = ("c18-data-duplicated", format!("{d} bytes of the stream were handed out twice"));
            }
        }
        ctx.fail(verdict.0, format!("ab round {}: {call} at offset {}: {}", self.r, at + p, verdict.1));
    }
    /// `call` reported the end of the stream
    fn eos(&mut self, ctx: &Ctx, sig: &Sig, call: &str) {
        let fin = sig.is(&format!("fin:{}", self.r));
        if (!fin || self.got < self.len) && !self.bad && !ctx.closing() {
            self.bad = true;
            ctx.fail(
                KEY_EOS,
                format!(
                    "ab round {}: {call} reported the end of the stream after {} of the {} bytes the writer sends before finish() (finish() called: {fin})",
                    self.r, self.got, self.len
                ),
            );
        }
    }
}

fn resolve(sz: Sz, rem: usize) -> usize {
    match sz {
        Sz::Zero => 0,
        Sz::One => 1,
        Sz::Rem => rem,
        Sz::RemMinus1 => rem.saturating_sub(1),
        Sz::RemPlus1 => rem + 1,
        Sz::Big => rem + 5000,
        Sz::N(n) => n,
    }
}

async fn reader(ctx: Ctx, r: usize, len: usize, rsteps: Vec<RStep>, tail: usize, mut recv: RecvStream, sig: Sig) {
    let mut st = Rd { r, len, exp: x4::data(JOB0 + r as u64, len), got: 0, bad: false };
    let mut ended = false;
    let mut calls = 0u32;
    let mut idle = 0u32;
    let mut steps = rsteps.into_iter();
    macro_rules! rerr {
        ($call:expr, $e:expr) => {{
            let e = format!("{:?}", $e);
            if !ctx.closing() {
                ctx.fail("c18-unexpected-error", format!("ab round {r}: {} failed with {e} after {} of {len} bytes although nobody reset the stream or closed", $call, st.got));
            } else {
                ctx.count("result:error-after-close");
            }
            st.bad = true;
            break;
        }};
    }
    while !ended && !st.bad {
        calls += 1;
        let step = steps.next().unwrap_or(RStep::Read(Sz::N(tail)));
        let rem = len.saturating_sub(st.got);
        let call = format!("{step:?} [remaining {rem}]");
        ctx.set_op(&format!("ab round {r}: {call}"));
        ctx.count(&format!("ab:r:{}", format!("{step:?}").split('(').next().unwrap_or("?")));
        let before = st.got;
        match step {
            RStep::Read(sz) => {
                let k = resolve(sz, rem);
                let mut buf = vec![0u8; k];
                match recv.read(&mut buf).await {
                    Ok(Some(n)) if n <= k => st.deliver(&ctx, &format!("read(buf of {k}) -> Some({n})"), &buf[..n]),
                    Ok(Some(n)) => {
                        ctx.fail("c18-data-corrupt", format!("ab round {r}: read into a buffer of {k} bytes reported {n} bytes"));
                        st.bad = true;
                    }
                    Ok(None) => {
                        st.eos(&ctx, &sig, &format!("read(buf of {k}) -> None"));
                        ended = true;
                    }
                    Err(e) => rerr!(call, e),
                }
            }
            RStep::ReadChunk(sz) => {
                let k = if sz == Sz::Big { usize::MAX } else { resolve(sz, rem) };
                match recv.read_chunk(k, true).await {
                    Ok(Some(c)) => {
                        if c.offset != st.got as u64 && !st.bad && !ctx.closing() {
                            st.bad = true;
                            ctx.fail(if c.offset > st.got as u64 { KEY_LOST } else { "c18-data-duplicated" }, format!("ab round {r}: ordered read_chunk({k}) returned offset {} after {} bytes", c.offset, st.got));
                        }
                        if c.bytes.len() > k {
                            ctx.fail("c18-data-corrupt", format!("ab round {r}: read_chunk({k}) returned {} bytes", c.bytes.len()));
                        }
                        st.deliver(&ctx, &format!("read_chunk({k})"), &c.bytes);
                    }
                    Ok(None) => {
                        st.eos(&ctx, &sig, &format!("read_chunk({k}) -> None"));
                        ended = true;
                    }
                    Err(e) => rerr!(call, e),
                }
            }
            RStep::ReadChunks(nb) => {
                let mut bufs = vec![Bytes::new(); nb];
                match recv.read_chunks(&mut bufs).await {
                    Ok(Some(n)) if n <= nb => {
                        for b in bufs.iter().take(n) {
                            st.deliver(&ctx, &format!("read_chunks({nb} buffers) -> Some({n})"), b);
                        }
                    }
                    Ok(Some(n)) => {
                        ctx.fail("c18-data-corrupt", format!("ab round {r}: read_chunks with {nb} buffers reported {n} chunks"));
                        st.bad = true;
                    }
                    Ok(None) => {
                        st.eos(&ctx, &sig, &format!("read_chunks({nb} buffers) -> None"));
                        ended = true;
                    }
                    Err(e) => rerr!(call, e),
                }
            }
            RStep::ReadExact(sz) => {
                let k = resolve(sz, rem);
                let mut buf = vec![0u8; k];
                match recv.read_exact(&mut buf).await {
                    Ok(()) => st.deliver(&ctx, &format!("read_exact({k}) -> Ok"), &buf),
                    Err(quinn::ReadExactError::FinishedEarly(n)) => {
                        st.deliver(&ctx, &format!("read_exact({k}) -> FinishedEarly({n})"), &buf[..n.min(k)]);
                        st.eos(&ctx, &sig, &format!("read_exact({k}) -> FinishedEarly({n})"));
                        ended = true;
                    }
                    Err(quinn::ReadExactError::ReadError(e)) => rerr!(call, e),
                }
            }
            RStep::PollRead(sz) => {
                let k = resolve(sz, rem);
                let mut buf = vec![0u8; k];
                match std::future::poll_fn(|cx| recv.poll_read(cx, &mut buf)).await {
                    Ok(n) if n <= k => {
                        st.deliver(&ctx, &format!("poll_read(buf of {k}) -> {n}"), &buf[..n]);
                        if n == 0 && k > 0 {
                            st.eos(&ctx, &sig, &format!("poll_read(buf of {k}) -> 0 bytes"));
                            ended = true;
                        }
                    }
                    Ok(n) => {
                        ctx.fail("c18-data-corrupt", format!("ab round {r}: poll_read into a buffer of {k} bytes reported {n} bytes"));
                        st.bad = true;
                    }
                    Err(e) => rerr!(call, e),
                }
            }
            RStep::AsyncRead(sz) => {
                let k = resolve(sz, rem);
                let mut buf = vec![0u8; k];
                let mut rb = tokio::io::ReadBuf::new(&mut buf);
                match std::future::poll_fn(|cx| tokio::io::AsyncRead::poll_read(Pin::new(&mut recv), cx, &mut rb)).await {
                    Ok(()) => {
                        let n = rb.filled().len();
                        st.deliver(&ctx, &format!("AsyncRead::poll_read(ReadBuf of {k}) -> {n}"), rb.filled());
                        if n == 0 && k > 0 {
                            st.eos(&ctx, &sig, &format!("AsyncRead::poll_read(ReadBuf of {k}) -> nothing filled"));
                            ended = true;
                        }
                    }
                    Err(e) => rerr!(call, e),
                }
            }
            RStep::ReadToEnd(sz) => {
                let limit = resolve(sz, rem);
                match recv.read_to_end(limit).await {
                    Ok(v) => {
                        st.deliver(&ctx, &format!("read_to_end({limit}) -> {} bytes", v.len()), &v);
                        st.eos(&ctx, &sig, &format!("read_to_end({limit}) -> Ok({} bytes)", v.len()));
                        ended = true;
                    }
                    Err(quinn::ReadToEndError::TooLong) => {
                        if rem <= limit && !st.bad && !ctx.closing() {
                            ctx.fail(KEY_LOST, format!("ab round {r}: read_to_end({limit}) failed with TooLong (discarding what it read) although only {rem} bytes of the stream were left"));
                        }
                        ctx.count("ab:read_to_end-too-long");
                        // the rest of the stream is gone: the round ends here
                        st.bad = true;
                    }
                    Err(quinn::ReadToEndError::Read(e)) => rerr!(call, e),
                }
            }
        }
        // (a caller that makes no progress although it offers room would spin: give up the round quietly)
        idle = if st.got == before { idle + 1 } else { 0 };
        if calls > 60_000 || idle > 200 {
            ctx.count("ab:reader-gave-up");
            break;
        }
    }
    if ended && !st.bad {
        ctx.count("ab:stream-read-to-its-end");
        // after the end: asking again never yields data
        let mut b1 = [0u8; 8];
        if let Ok(Some(n)) = recv.read(&mut b1).await {
            if n > 0 && !ctx.closing() {
                ctx.fail("c18-data-duplicated", format!("ab round {r}: read() after the end of the stream was reported yielded {n} more bytes"));
            }
        }
    }
    sig.raise(&ctx, &format!("rend:{r}"));
    drop(recv);
    sig.raise(&ctx, &format!("rdone:{r}"));
}

pub(super) async fn script(mut ctx: Ctx) {
    let p = plan_of(&ctx);
    let sig = p.sig.clone();
    ctx.set_op("ab: waiting for both connections");
    let Some(conns) = x4::both_conns(&mut ctx).await else { return };
    for (r, round) in p.rounds.iter().enumerate() {
        if ctx.closing() {
            return;
        }
        match round {
            Round::Dgram { from, sizes, wait } => {
                let (co, ca) = (&conns[*from], &conns[1 - *from]);
                if co.max_datagram_size().unwrap_or(0) < 700 {
                    ctx.count("dgram:unsupported");
                    continue;
                }
                let mut sent: Vec<Vec<u8>> = Vec::new();
                for (i, s) in sizes.iter().enumerate() {
                    ctx.set_op(&format!("ab round {r}: send_datagram of {s} bytes"));
                    let d = x4::data(JOB0 + 500 + (r * 8 + i) as u64, *s);
                    let res = if *wait { co.send_datagram_wait(Bytes::from(d.clone())).await.map_err(|e| format!("{e:?}")) } else { co.send_datagram(Bytes::from(d.clone())).map_err(|e| format!("{e:?}")) };
                    ctx.count(if *s == 0 { "ab:dgram:empty" } else { "ab:dgram:nonempty" });
                    match res {
                        Ok(()) => sent.push(d),
                        Err(e) => {
                            ctx.conn_err(&format!("ab round {r} send_datagram of {s} bytes"), e);
                            return;
                        }
                    }
                }
                if !p.lossless {
                    // drain whatever arrives: content only
                    loop {
                        match within(&ctx, 200 * MS, ca.read_datagram()).await {
                            Some(Ok(b)) => {
                                if let Some(i) = sent.iter().position(|d| d[..] == b[..]) {
                                    sent.remove(i);
                                } else if !ctx.closing() {
                                    ctx.fail("c18-data-corrupt", format!("ab round {r}: read_datagram yielded {} bytes that match no datagram sent ({sizes:?})", b.len()));
                                }
                            }
                            _ => break,
                        }
                    }
                    continue;
                }
                for _ in 0..sizes.len() {
                    ctx.set_op(&format!("ab round {r}: read_datagram"));
                    match within(&ctx, 2 * SEC, ca.read_datagram()).await {
                        Some(Ok(b)) => {
                            if let Some(i) = sent.iter().position(|d| d[..] == b[..]) {
                                sent.remove(i);
                            } else if !ctx.closing() {
                                ctx.fail("c18-data-corrupt", format!("ab round {r}: read_datagram yielded {} bytes that match no datagram sent ({sizes:?})", b.len()));
                            }
                        }
                        Some(Err(e)) => {
                            ctx.conn_err(&format!("ab round {r} read_datagram"), err_kind(&e));
                            return;
                        }
                        None => {
                            if !ctx.closing() {
                                ctx.fail("c18-data-lost", format!("ab round {r}: datagrams of {sizes:?} bytes were sent over a network without loss and reordering; those of {:?} bytes were never handed to read_datagram() of the {} (sender: {} DATAGRAM frames transmitted, lost packets {}; receiver: {} DATAGRAM frames received; send mode wait={wait})", sent.iter().map(|d| d.len()).collect::<Vec<_>>(), SIDE[1 - *from], co.stats().frame_tx.datagram, co.stats().path.lost_packets, ca.stats().frame_rx.datagram));
                            }
                            break;
                        }
                    }
                }
            }
            Round::Stream { from, bi, len, wsteps, hold, rsteps, tail } => {
                let (o, a) = (*from, 1 - *from);
                let (co, ca) = (&conns[o], &conns[a]);
                ctx.set_op(&format!("ab round {r}: open"));
                let opened = async {
                    if *bi {
                        co.open_bi().await.map(|(s, r)| (s, Some(r)))
                    } else {
                        co.open_uni().await.map(|s| (s, None))
                    }
                };
                let (send, back) = match within(&ctx, SETUP, opened).await {
                    Some(Ok(p)) => p,
                    Some(Err(e)) => {
                        ctx.conn_err("ab open", err_kind(&e));
                        return;
                    }
                    None => {
                        if !ctx.closing() {
                            ctx.fail("c18-lost-wakeup", format!("ab round {r}: open still pending after {} s with a stream limit of 100", SETUP / SEC));
                        }
                        return;
                    }
                };
                let (w, h, sg) = (wsteps.clone(), *hold, sig.clone());
                let l = *len;
                ctx.spawn(format!("app:{}:ab_writer{r}", SIDE[o]), Class::Job, move |c| writer(c, r, l, w, h, send, sg));
                ctx.set_op(&format!("ab round {r}: accept"));
                let acc = async {
                    if *bi {
                        ca.accept_bi().await.map(|(s, r)| (Some(s), r))
                    } else {
                        ca.accept_uni().await.map(|r| (None, r))
                    }
                };
                let (aback, recv) = match within(&ctx, SETUP, acc).await {
                    Some(Ok(p)) => p,
                    Some(Err(e)) => {
                        ctx.conn_err("ab accept", err_kind(&e));
                        return;
                    }
                    None => {
                        if !ctx.closing() {
                            ctx.fail("c18-lost-wakeup", format!("ab round {r}: accept still pending {} s after the peer opened a stream of {len} bytes and finished it", SETUP / SEC));
                        }
                        return;
                    }
                };
                let (rs, t, sg) = (rsteps.clone(), *tail, sig.clone());
                ctx.spawn(format!("app:{}:ab_reader{r}", SIDE[a]), Class::Job, move |c| reader(c, r, l, rs, t, recv, sg));
                // the back direction of a bidirectional stream: finished empty; `read_to_end(0)` must accept it
                if let Some(mut b) = aback {
                    let _ = b.finish();
                    drop(b);
                }
                if let Some(mut br) = back {
                    ctx.set_op(&format!("ab round {r}: read_to_end(0) on the empty back direction"));
                    match within(&ctx, SETUP, br.read_to_end(0)).await {
                        Some(Ok(v)) if v.is_empty() => ctx.count("ab:read_to_end-zero-limit-empty-stream"),
                        Some(other) => {
                            if !ctx.closing() {
                                ctx.fail(KEY_LOST, format!("ab round {r}: the back direction was finished empty, read_to_end(0) gave {other:?}"));
                            }
                        }
                        None => {
                            if !ctx.closing() {
                                ctx.fail("c18-lost-wakeup", format!("ab round {r}: read_to_end(0) of the finished empty back direction still pending after {} s", SETUP / SEC));
                            }
                            return;
                        }
                    }
                }
                ctx.set_op(&format!("ab round {r}: waiting for the reader and the writer"));
                if !sig.wait(&mut ctx, &format!("rdone:{r}"), 3 * SETUP).await || !sig.wait(&mut ctx, &format!("wdone:{r}"), 3 * SETUP).await {
                    // (whoever is stuck is reported by the lost-wakeup oracle at quiescence)
                    return;
                }
            }
        }
    }
    ctx.count("ab:script-completed");
    ctx.set_op("idle after drop");
    ctx.idle_gap().await;
}
